#!/usr/bin/env python3
"""Regenerates /verif/MANIFEST.json from the rule registry of tool/avfslint (./check --build first)."""
import json, subprocess, collections, os
os.chdir(os.path.dirname(os.path.abspath(__file__)) + "/..")
out = subprocess.run(["tool/avfslint", "-list"], capture_output=True, text=True, check=True).stdout
rules = collections.OrderedDict()
for l in out.splitlines():
    rid = l.split()[0]
    rules.setdefault(rid.split(".")[0], []).append(rid)

LEVEL = {
 "C13": "translation_validation", "C14": "translation_validation",
}
TEXT = json.load(open("scripts/manifest_text.json"))
checks, na = [], []
for i in range(1, 18):
    pid = "C%02d" % i
    t = TEXT.get(pid, {})
    if pid not in rules:
        na.append({"property_id": pid, "reason": t.get("na_reason", "no sound static clause has been built for this property yet; see DESIGN.md section 6")})
        continue
    checks.append({
        "property_id": pid,
        "quick_cmd": "./check %s quick" % pid,
        "thorough_cmd": "./check %s thorough" % pid,
        "evidence_file": "/verif/evidence/%s.json" % pid,
        "replay_cmd_template": "./check --explain {path}",
        "engine": "avfslint",
        "level_claimed": {"category": LEVEL.get(pid, "other"), "text": t["text"], "design_ref": "DESIGN.md section 5, " + pid},
        "level_note": t["note"],
        "technique": t["technique"],
    })
m = {
 "version": 1,
 "setup_cmd": "./check --build",
 "hooks": {"guard": "verif", "enable": "none needed: the checks read /repo's source (go/packages + go/ssa) and never build or run instrumented code; the guard 'verif' is reserved and unused",
           "baseline_off_cmd": "cd /repo && GOFLAGS=-mod=mod GOPROXY=off GOSUMDB=off go test -vet=off -count=1 ./...",
           "source_commits": [], "add_only": True},
 "engines": [{"name": "avfslint", "path": "/verif/tool", "serves_properties": list(rules.keys()),
              "kind_free_text": "repository-specific static analyser (go/packages, go/types, go/ssa dominators and def-use, per-rule tables); one binary, one rule set per property"}],
 "checks": checks,
 "not_applicable": na,
 "notes": "Static analysis only. Every check decides structural necessary conditions (clauses) of its property from /repo's current source in both build configurations ({} and {avfs_setostype}); the behavioural remainder of each property is listed under coverage.not_decided in the evidence and in DESIGN.md section 6. Findings on genuine defects that were not repaired are in known_findings.jsonl (status known); repaired ones are recorded there with status fixed.",
}
json.dump(m, open("MANIFEST.json", "w"), indent=1)
print("checks:", [c["property_id"] for c in checks], "na:", [n["property_id"] for n in na])
