#!/usr/bin/env python3
"""usage: seed_prompts.py ROUND OUTDIR WTDIR < round-constraints.txt
Writes OUTDIR/<Cxx>/prompt.txt for every property: the brief given to a fresh sub-agent that gets only the property's
text and a scratch worktree WTDIR/R<ROUND><Cxx> of /repo (nothing from /verif).  The round's additional constraints
are read from stdin; '%(sites)s' in them is replaced by the functions earlier seeds of that property already changed."""
import json, glob, re, os, sys, collections

T = """You are helping evaluate a verification effort for the Go library avfs/avfs (a virtual file system abstraction with in-memory file systems MemFS/OrefaFS and wrapper file systems). Your job: act as a *realistic bug injector*.

You have your own scratch git worktree of the repository at {wt} (detached HEAD). Work ONLY inside {wt} and {out}. Never touch /repo or /verif and do not read anything under /verif.

Here is one semantic property of the library that is supposed to hold (JSON record: id, title, statement, quantifier, why the existing tests cannot settle it, code anchors):

{prop}

TASK: produce TWO different, independent source changes ("mutants") to the library's non-test Go code in {wt}, each of which BREAKS this property while
  (a) still compiling (`go build ./...` and `go vet ./...` clean for the packages touched, also with `-tags avfs_setostype`),
  (b) still passing the ENTIRE existing test suite, unedited: run `go test -count=1 ./...` AND `go test -count=1 -tags avfs_setostype ./...` in {wt}. The only failure allowed is the pre-existing `vfs/osfs TestOsFS/TestCreateHomeDir` (it fails on the unmodified tree too, because this sandbox is offline/unprivileged);
  (c) being realistic: the kind of slip a maintainer could make in a refactor, optimisation or feature change (a dropped or weakened check, a wrong lock mode or lock released too early, a reordered statement, an off-by-one, a wrong constant/flag/enum, a forgotten wrapper or translation, a missing branch, an error that is swallowed...). Small: typically 1-15 changed lines. Not a deliberate backdoor with magic values, not dead code, not a change to tests, docs, comments or build files only;
  (d) needing something SPECIFIC to manifest: a particular interleaving, a fault at a particular point, a multi-step sequence of operations, an unusual or adversarial input, an unusual configuration (e.g. the avfs_setostype build tag, a Windows-typed file system, a non-admin user), or two cooperating sites that each look fine alone. NOT something ordinary use would expose at once.
The two mutants must be at different sites / of different kinds (e.g. one in each of two files or mechanisms named in the anchors), so they exercise different parts of the property. Prefer sites inside the files listed in the property's anchors.

For EACH mutant k in {{1,2}} write into {out}/m<k>/ :
  - patch.diff : the change, produced with `git -C {wt} diff > {out}/m<k>/patch.diff` (must apply cleanly with `git apply` to a clean checkout of the same HEAD; only non-test .go files of the library);
  - a demonstration: ONE new Go test file (name it zz_demo_test.go; say in notes.md which package directory it belongs in, e.g. vfs/memfs/) OR a small main program, that FAILS (test failure, panic, deadlock caught by a timeout you implement, race-detector report if you say to run with -race) with the mutant applied and PASSES on the unmodified tree. It must be deterministic or very nearly so (if it depends on scheduling, loop enough times and say so). It must need no network and only the Go standard library plus the repository's own packages;
  - notes.md : which property clause it breaks, the exact commands to run the demonstration (with any build tags / -race), what it needs in order to manifest, and why the existing suite does not notice.
After finishing mutant 1, restore the worktree (`git -C {wt} checkout -- . && git -C {wt} clean -fd`) before starting mutant 2, and restore it again at the end. You MUST verify yourself, by actually running the commands, all of: build, vet, both full test-suite runs with the mutant applied, the demo failing with the mutant, the demo passing without it. Do not claim anything you did not run. If a candidate mutant is caught by the existing tests, discard it and find another.

Environment facts (important - the sandbox is offline):
  - Prefix EVERY shell command that runs go with: export GOFLAGS=-mod=mod GOPROXY=off GOSUMDB=off GOTOOLCHAIN=local
  - Go is 1.23.5. The full suite takes well under a minute. `go test -race` works.
  - Tests for the generic behaviour live in {wt}/test (package test, used by each file system's *_test.go). Files vfs_ostype_on.go and some example tests are only compiled with `-tags avfs_setostype`.
  - Keep build caches default; do not create other copies of the repository; delete any temporary files you create outside {out}.

{add}
Finish with a short report: for each mutant, the file/function changed, one sentence on the defect, and the demo command with its observed result with and without the mutant."""


def main():
    rnd, out, wt = sys.argv[1:4]
    add = sys.stdin.read()
    sites = collections.defaultdict(set)
    for d in glob.glob('/verif/seeded/*/'):
        name = os.path.basename(d.rstrip('/'))
        m = re.search(r'(C\d\d)', name)
        if not m or name.startswith('revert'):
            continue
        pf = d + 'patch.diff'
        if not os.path.exists(pf):
            continue
        cur = None
        for line in open(pf):
            if line.startswith('+++ b/'):
                cur = line[6:].strip()
            mm = re.match(r'@@.*@@ func (?:\([^)]*\) )?(\w+)', line)
            if mm and cur:
                sites[m.group(1)].add('%s (%s)' % (cur, mm.group(1)))
    for l in open('/verif/properties.jsonl'):
        o = json.loads(l)
        pid = o['id']
        os.makedirs('%s/%s' % (out, pid), exist_ok=True)
        a = add.replace('%(sites)s', '; '.join(sorted(sites[pid])) or 'none')
        p = T.format(wt='%s/R%s%s' % (wt, rnd, pid), out='%s/%s' % (out, pid), prop=json.dumps(o, indent=1), add=a)
        open('%s/%s/prompt.txt' % (out, pid), 'w').write(p)
    print('wrote', out)


main()
