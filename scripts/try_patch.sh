#!/bin/bash
# usage: try_patch.sh <patch.diff> <prop> [<prop>...]  -- applies the patch to a scratch copy of /repo and runs the static checks on it
set -u
P="$(realpath "$1")"; shift
T=$(mktemp -d /tmp/avfs-variant-XXXX)
rsync -a --exclude .git /repo/ "$T/"
( cd "$T" && git apply --whitespace=nowarn "$P" ) || { echo "PATCH DOES NOT APPLY"; rm -rf "$T"; exit 3; }
for prop in "$@"; do
  cp /verif/known_findings.jsonl /tmp/vtest/ 2>/dev/null; ${AVFSLINT:-/verif/tool/avfslint} -property "$prop" -repo "$T" -verif /tmp/vtest 2>&1 | grep -v "^KNOWN-FINDING\|^  C[0-9][0-9]\.\|VIOLATION" | sed "s#$T/##"
done
rm -rf "$T"
