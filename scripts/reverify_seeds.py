#!/usr/bin/env python3
"""usage: reverify_seeds.py [substr] [-j N] [-f]
Seeds already confirmed at the current HEAD are skipped unless -f is given.
Re-confirms every sub-agent seed (seeded/<name> with a demonstration) against /repo's current HEAD, each in its own
scratch worktree (removed afterwards): the demonstration passes on the clean tree, the patch applies, both build
configurations compile, the existing suite passes in both, and the demonstration fails with the patch.
Writes the verdict into meta.json ("reverified": {"head":..., "verdict":...}); prints one line per seed."""
import json, os, subprocess, sys, shutil
from concurrent.futures import ThreadPoolExecutor

ENV = dict(os.environ, GOFLAGS="-mod=mod", GOPROXY="off", GOSUMDB="off", GOTOOLCHAIN="local")
SKIP = r"TestOsFS|vfs/osfs|^FAIL$"


def sh(cmd, cwd, timeout=1500):
    try:
        p = subprocess.run(cmd, shell=True, cwd=cwd, env=ENV, capture_output=True, text=True, timeout=timeout)
        return p.returncode, p.stdout + p.stderr
    except subprocess.TimeoutExpired:
        return 124, "timeout"


def suite(wt, tags):
    rc, out = sh("go test -count=1 %s ./... 2>&1 | grep -E '^(--- FAIL|FAIL|panic)' | grep -Ev '%s'" % (tags, SKIP), wt)
    return out.strip()


def one(name):
    d = "/verif/seeded/" + name
    meta = json.load(open(d + "/meta.json"))
    demo = meta.get("demo")
    if not demo or not os.path.exists(d + "/patch.diff"):
        return name, "skipped"
    if meta.get("reverified", {}).get("head") == HEAD and meta["reverified"].get("verdict") == "ok" and not FORCE:
        return name, "skipped"
    wt = "/tmp/rv-" + name
    subprocess.run(["git", "-C", "/repo", "worktree", "add", "--detach", "-q", wt, "HEAD"], check=True)
    try:
        dst = os.path.join(wt, demo["package_dir"], "zz_demo_test.go")
        src = d + "/" + demo["file"]
        shutil.copy(src, dst)
        rc, out = sh(demo["command"], wt)
        if rc != 0:
            return name, "demo-fails-on-clean-tree: " + out.strip().splitlines()[-1][:160]
        os.remove(dst)
        rc, out = sh("git apply --whitespace=nowarn %s/patch.diff" % d, wt)
        if rc != 0:
            return name, "patch-does-not-apply"
        rc, out = sh("go build ./... && go build -tags avfs_setostype ./...", wt)
        if rc != 0:
            return name, "build-fails"
        s = suite(wt, "") + suite(wt, "-tags avfs_setostype")
        if s:
            return name, "suite-catches-it: " + s.replace("\n", " ")[:200]
        shutil.copy(src, dst)
        rc, out = sh(demo["command"], wt, 900)
        if rc == 0:
            return name, "demo-passes-with-mutant"
        return name, "ok"
    finally:
        subprocess.run(["git", "-C", "/repo", "worktree", "remove", "--force", wt])


HEAD = subprocess.run(["git", "-C", "/repo", "rev-parse", "--short", "HEAD"], capture_output=True, text=True).stdout.strip()
FORCE = "-f" in sys.argv


def main():
    args = [a for a in sys.argv[1:] if a != "-f"]
    j = 4
    if "-j" in args:
        i = args.index("-j"); j = int(args[i + 1]); del args[i:i + 2]
    sub = args[0] if args else ""
    names = sorted(n for n in os.listdir("/verif/seeded") if os.path.isdir("/verif/seeded/" + n) and sub in n
                   and os.path.exists("/verif/seeded/%s/meta.json" % n))
    head = subprocess.run(["git", "-C", "/repo", "rev-parse", "--short", "HEAD"], capture_output=True, text=True).stdout.strip()
    bad = 0
    with ThreadPoolExecutor(j) as ex:
        for name, verdict in ex.map(one, names):
            if verdict == "skipped":
                continue
            print("%-14s %s" % (name, verdict), flush=True)
            mp = "/verif/seeded/%s/meta.json" % name
            meta = json.load(open(mp))
            meta["reverified"] = {"head": head, "verdict": verdict}
            json.dump(meta, open(mp, "w"), indent=1)
            bad += verdict != "ok"
    print("not ok: %d" % bad)
    subprocess.run(["git", "-C", "/repo", "worktree", "prune"])


if __name__ == "__main__":
    main()
