#!/bin/bash
# runs the 17 quick checks on /repo's working tree; prints only what needs attention; exit 1 if any check fails
cd /verif
export GOFLAGS=-mod=mod GOPROXY=off GOSUMDB=off GOTOOLCHAIN=local
rc=0
for i in 01 02 03 04 05 06 07 08 09 10 11 12 13 14 15 16 17; do
  out=$(./check C$i quick 2>&1); r=$?
  [ $r -eq 0 ] || { rc=1; echo "$out" | grep -E "VIOLATION|BROKEN|^  [a-z].*\.go|quick:" | cut -c1-300; }
done
[ $rc -eq 0 ] && echo "all 17 checks pass"
exit $rc
