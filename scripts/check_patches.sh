#!/bin/bash
# usage: check_patches.sh [substr]  -- every seeded / control patch must apply to /repo's HEAD AND the patched tree must
# build in both configurations (a patch can apply cleanly and still refer to something a later /repo commit renamed).
export GOFLAGS=-mod=mod GOPROXY=off GOSUMDB=off GOTOOLCHAIN=local
one() {
  d="$1"; n=$(basename "$d"); T=$(mktemp -d /tmp/avfs-pchk-XXXX)
  rsync -a --exclude .git /repo/ "$T/"
  if ! (cd "$T" && git apply --whitespace=nowarn "$d/patch.diff" 2>/dev/null); then echo "NOAPPLY $d"; rm -rf "$T"; return; fi
  if ! (cd "$T" && go build ./... >/dev/null 2>&1 && go build -tags avfs_setostype ./... >/dev/null 2>&1); then echo "NOBUILD $d"; fi
  rm -rf "$T"
}
export -f one
ls -d /verif/seeded/*/ /verif/controls/*/ | grep "${1:-}" | while read d; do [ -f "$d/patch.diff" ] && echo "$d"; done | xargs -P 8 -I{} bash -c 'one {}'
echo "checked"
