#!/usr/bin/env python3
"""Regenerates the machine-derived tables of DESIGN.md section 11 between <!-- BEGIN:x --> / <!-- END:x --> markers:
fixes (from git log of /repo), known (from known_findings.jsonl), matrix (from seeded/*/meta.json), rules (avfslint -list)."""
import json, re, subprocess, glob, os, collections
V="/verif"
def sh(*a): return subprocess.run(a,capture_output=True,text=True).stdout
def fixes():
    out=["| commit | repair |","|--------|--------|"]
    log=sh("git","-C","/repo","log","--reverse","--format=%h %s").splitlines()
    n=0
    for l in log:
        h,s=l.split(" ",1)
        if s.startswith("fix:"):
            n+=1; out.append("| %s | %s |"%(h,s[4:].strip()))
    return "%d defects were repaired in `/repo`, one unguarded `fix:` commit each (the suite, unedited, passes after each in both build configurations; `known_findings.jsonl` has `fixed` lines per repair, which suppress nothing):\n\n"%n+"\n".join(out)
def known():
    ks=[json.loads(l) for l in open(V+"/known_findings.jsonl") if l.strip() and not l.startswith("#")]
    kn=[k for k in ks if k["status"]=="known"]
    g=collections.OrderedDict()
    for k in kn: g.setdefault((k["property"],k["rule"]),[]).append(k)
    out=["%d genuine defects are **recorded, not repaired** (`status: known`, each with the failing input, schedule or history; the check prints one `KNOWN-FINDING` line per entry and exits 0; any other violation of the same property still exits 1):\n"%len(kn)]
    for (p,r),v in g.items():
        out.append("* **%s / %s** (%d): %s"%(p,r,len(v),v[0]["what"][:330]))
    return "\n".join(out)
def matrix():
    rows=[]
    for mp in sorted(glob.glob(V+"/seeded/*/meta.json")):
        m=json.load(open(mp))
        own=m.get("property"); det=m.get("expected_detected_by",[])
        st="detected" if det else "MISSED"
        ownst="yes" if own in det else ("-" if not det else "other property only")
        rules=sorted({r.split(" ")[0] for r in m.get("reported_as",[])})
        rows.append("| %s | %s | %s | %s | %s |"%(m["name"],own,st,ownst,", ".join(rules)))
    return "| seed | property | outcome | by its own property's check | rules reporting it |\n|------|------|---------|------|--------------------|\n"+"\n".join(rows)
def rules():
    l=sh(V+"/tool/avfslint","-list").splitlines()
    return "%d rules are registered (`tool/avfslint -list`)."%len(l)
s=open(V+"/DESIGN.md").read()
for name,fn in (("fixes",fixes),("known",known),("matrix",matrix),("rules",rules)):
    pat=re.compile(r"(<!-- BEGIN:%s -->\n).*?(\n<!-- END:%s -->)"%(name,name),re.S)
    if pat.search(s):
        s=pat.sub(lambda m: m.group(1)+fn()+m.group(2),s)
    else:
        print("marker missing:",name)
open(V+"/DESIGN.md","w").write(s)
