#!/bin/bash
# usage: refresh_patch.sh <dir under /verif/seeded or /verif/controls>
# Re-creates patch.diff against /repo's HEAD when only the context has drifted (patch(1) with fuzz on a scratch
# worktree); keeps the previous file as patch.orig.diff. Fails when the hunks really conflict (rebase by hand then).
set -u
export GOFLAGS=-mod=mod GOPROXY=off GOSUMDB=off GOTOOLCHAIN=local
D="$(realpath "$1")"; WT=/tmp/refresh-$$
git -C /repo worktree add --detach -q "$WT" HEAD || exit 3
trap 'git -C /repo worktree remove --force "$WT"' EXIT
cd "$WT"
if ! patch -p1 -F3 --no-backup-if-mismatch -s < "$D/patch.diff"; then echo "CONFLICT $(basename $D)"; exit 1; fi
find . -name '*.orig' -delete; find . -name '*.rej' -delete
go build ./... && go build -tags avfs_setostype ./... || { echo "BUILD FAILS $(basename $D)"; exit 1; }
[ -f "$D/patch.orig.diff" ] || cp "$D/patch.diff" "$D/patch.orig.diff"
git diff > "$D/patch.diff"
echo "refreshed $(basename $D)"
