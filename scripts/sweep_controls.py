#!/usr/bin/env python3
"""Negative controls: applies every behaviour-preserving refactoring under /verif/controls to a scratch copy of /repo
and runs every property's rules on it. Any finding that the unchanged tree does not have is a false alarm of the
machinery. Usage: sweep_controls.py [name-substring]"""
import json, os, subprocess, sys, tempfile, shutil, glob
import os as _os
V="/verif"; TOOL=_os.environ.get("AVFSLINT", V+"/tool/avfslint")
flt = sys.argv[1] if len(sys.argv)>1 else ""
props = sorted({l.split()[0].split(".")[0] for l in subprocess.run([TOOL,"-list"],capture_output=True,text=True).stdout.splitlines()})
def findings(repo):
    out={}
    procs={p: subprocess.Popen([TOOL,"-selftest-variant","-property",p,"-repo",repo,"-verif",V],stdout=subprocess.PIPE,stderr=subprocess.PIPE,text=True) for p in props}
    for p,pr in procs.items():
        o,e=pr.communicate()
        last=o.strip().splitlines()[-1] if o.strip() else "[]"
        try:
            out[p]={(x["rule"],x["construct"]):x for x in (json.loads(last) or [])}
        except Exception:
            out[p]={("load",p+" analysis refused the tree"):{"how":o[-300:]}}
    return out
base=findings("/repo")
bad=0
for d in sorted(glob.glob(V+"/controls/*/")):
    name=os.path.basename(d.rstrip("/"))
    if flt not in name: continue
    if name < _os.environ.get("CONTROLS_FROM", ""): continue  # resume a sweep that was interrupted
    if not os.path.exists(d+"patch.diff"):
        print("%-10s retired"%name); continue
    t=tempfile.mkdtemp(prefix="avfs-ctl-")
    try:
        subprocess.run(["rsync","-a","--exclude",".git","/repo/",t+"/"],check=True)
        r=subprocess.run(["git","apply","--whitespace=nowarn",d+"patch.diff"],cwd=t,capture_output=True,text=True)
        if r.returncode!=0:
            print("%-10s PATCH DOES NOT APPLY"%name); continue
        f=findings(t)
        new=[(p,k) for p in props for k in f[p] if k not in base[p]]
        print("%-10s %s"%(name,"quiet" if not new else "FALSE ALARM "+"; ".join("%s %s %s"%(p,k[0],k[1]) for p,k in new)[:600]))
        bad+=bool(new)
    finally:
        shutil.rmtree(t,ignore_errors=True)
sys.exit(1 if bad else 0)
