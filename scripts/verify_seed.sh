#!/bin/bash
# usage: verify_seed.sh <seeddir e.g. /tmp/seed/C09/m1> <name e.g. C09-m1> <pkgdir e.g. vfs/rofs> <run-regex> [extra go test flags...]
# Confirms in a scratch worktree of /repo HEAD that the mutant compiles, passes the existing suite in both build
# configurations, and that the demonstration passes without and fails with the mutant. Writes /verif/seeded/<name>/.
set -u
export GOFLAGS=-mod=mod GOPROXY=off GOSUMDB=off GOTOOLCHAIN=local
S="$1"; NAME="$2"; PKG="$3"; RUN="$4"; shift 4; EXTRA="$*"
WT=/tmp/vseed-$NAME
git -C /repo worktree add --detach -q "$WT" HEAD || exit 3
trap 'git -C /repo worktree remove --force "$WT"' EXIT
cd "$WT"
DEMO=$(ls "$S"/*_test.go | head -1)
cp "$DEMO" "$PKG/zz_demo_test.go"
R="ok"
out_clean=$(go test -count=1 $EXTRA -run "$RUN" "./$PKG/" 2>&1); rc_clean=$?
[ $rc_clean -eq 0 ] || R="demo-fails-on-clean-tree"
rm "$PKG/zz_demo_test.go"
git apply --whitespace=nowarn "$S/patch.diff" || R="patch-does-not-apply"
go build ./... 2>&1 | tail -3; [ ${PIPESTATUS[0]} -eq 0 ] || R="build-fails"
go build -tags avfs_setostype ./... || R="build-fails-tagged"
go vet ./... >/dev/null 2>&1 || R="$R vet-complains"
s1=$(go test -count=1 ./... 2>&1 | grep -E "^(--- FAIL|FAIL|panic)" | grep -v "TestOsFS\|vfs/osfs\|^FAIL$")
s2=$(go test -count=1 -tags avfs_setostype ./... 2>&1 | grep -E "^(--- FAIL|FAIL|panic)" | grep -v "TestOsFS\|vfs/osfs\|^FAIL$")
[ -z "$s1$s2" ] || R="suite-catches-it: $s1 $s2"
cp "$DEMO" "$PKG/zz_demo_test.go"
out_mut=$(timeout 600 go test -count=1 $EXTRA -run "$RUN" "./$PKG/" 2>&1); rc_mut=$?
[ $rc_mut -ne 0 ] || R="demo-passes-with-mutant"
echo "$NAME: $R (clean rc=$rc_clean, mutant rc=$rc_mut)"
if [ "$R" = "ok" ] || [ "$R" = "ok vet-complains" ]; then
  D=/verif/seeded/$NAME; mkdir -p "$D"
  cp "$S/patch.diff" "$D/patch.diff"; cp "$DEMO" "$D/zz_demo_test.go"; [ -f "$S/notes.md" ] && cp "$S/notes.md" "$D/notes.md"
  echo "$out_mut" | grep -v "^ok\|^PASS" | head -12 > "$D/demo_output_with_mutant.txt"
  python3 - "$D" "$NAME" "$PKG" "$RUN" "$EXTRA" <<'PY'
import json,sys,subprocess
d,name,pkg,run,extra=sys.argv[1:6]
head=subprocess.run(["git","-C","/repo","rev-parse","--short","HEAD"],capture_output=True,text=True).stdout.strip()
meta={"name":name,"property":[x for x in name.split("-") if x[:1]=="C" and x[1:].isdigit()][0] if any(x[:1]=="C" and x[1:].isdigit() for x in name.split("-")) else name.split("-")[0],"origin":"independent sub-agent given only the property text and a scratch worktree",
 "repo_head":head,"demo":{"file":"zz_demo_test.go","package_dir":pkg,"command":"go test -count=1 %s -run '%s' ./%s/"%(extra,run,pkg)},
 "confirmed":{"builds_both_configs":True,"existing_suite_passes_both_configs":True,"demo_passes_on_clean_tree":True,"demo_fails_with_mutant":True,
   "how":"scripts/verify_seed.sh in a scratch worktree of /repo HEAD (removed afterwards)"},
 "needs_to_manifest":"see notes.md","expected_detected_by":[]}
json.dump(meta,open(d+"/meta.json","w"),indent=1)
PY
fi
