#!/usr/bin/env python3
"""Drafts known_findings.jsonl entries for the findings a property's rules report today and that are not listed yet.
The drafts must be reviewed (is it a genuine defect? is there a witness?) before being appended by hand."""
import json,subprocess,sys
prop=sys.argv[1]
known=set()
for l in open('/verif/known_findings.jsonl'):
    l=l.strip()
    if l and not l.startswith('#'):
        k=json.loads(l); known.add((k['property'],k['rule'],k['construct']))
o=subprocess.run(['/verif/tool/avfslint','-selftest-variant','-property',prop,'-repo','/repo','-verif','/verif'],capture_output=True,text=True).stdout
obs=json.loads(o.strip().splitlines()[-1]) or []
for x in obs:
    if (prop,x['rule'],x['construct']) in known: continue
    print(json.dumps({"status":"known","property":prop,"rule":x['rule'],"construct":x['construct'],"what":x['how'],"witness":""}))
