// avfslint decides structural clauses of the avfs properties C01..C17 by static
// analysis of /repo's current source. See /verif/DESIGN.md.
package main

import (
	"encoding/json"
	"flag"
	"fmt"
	"os"
	"runtime/debug"
	"sort"
	"strconv"
	"strings"
	"time"
)

func main() {
	prop := flag.String("property", "", "property id (C01..C17)")
	tier := flag.String("tier", "quick", "quick|thorough")
	repo := flag.String("repo", "/repo", "repository root")
	verif := flag.String("verif", "/verif", "verif root (known findings, evidence, reports)")
	explain := flag.String("explain", "", "report file to re-derive")
	list := flag.Bool("list", false, "list rules")
	dump := flag.Bool("dump", false, "print every obligation")
	noEvidence := flag.Bool("selftest-variant", false, "internal: run against a variant tree; print findings as JSON, write nothing")
	anchorsDump := flag.Bool("anchorsdump", false, "print anchors_gen.go for the tree at -repo")
	flag.Parse()
	if *anchorsDump {
		c, err := loadConfig(*repo, "avfs_setostype", "avfs_setostype")
		if err != nil {
			fmt.Println(err)
			os.Exit(2)
		}
		fmt.Print(dumpAnchors(c))
		fmt.Print(dumpFields(c))
		fmt.Print(dumpKnownFuncs(*repo))
		return
	}

	if *list {
		for _, r := range allRules {
			fmt.Printf("%-18s floor=%-3d %s\n", r.ID, r.Floor, r.Text)
		}
		return
	}
	if *explain != "" {
		b, err := os.ReadFile(*explain)
		if err != nil {
			fmt.Println("cannot read report:", err)
			os.Exit(2)
		}
		var rep map[string]any
		json.Unmarshal(b, &rep)
		*prop, _ = rep["property"].(string)
		*dump = false
		os.Exit(explainRun(*prop, *repo, *verif, rep))
	}
	if *prop == "" {
		fmt.Println("usage: avfslint -property Cxx [-tier quick|thorough] [-repo /repo]")
		os.Exit(2)
	}
	seed := 0
	if s := os.Getenv("VERIF_SEED"); s != "" {
		seed, _ = strconv.Atoi(s)
	}
	start := time.Now()
	run, rules, code := analyse(*prop, *tier, *repo, *verif)
	if code != 0 {
		os.Exit(code)
	}
	if *noEvidence {
		var out []*Ob
		for _, k := range run.order {
			if o := run.obs[k]; !o.OK {
				out = append(out, o)
			}
		}
		b, _ := json.Marshal(out)
		fmt.Println(string(b))
		return
	}
	if *dump {
		keys := append([]string(nil), run.order...)
		sort.Strings(keys)
		for _, k := range keys {
			o := run.obs[k]
			s := "ok  "
			if !o.OK {
				s = "FAIL"
			}
			fmt.Printf("%s %-14s %-70s %s  -- %s\n", s, o.Rule, o.Construct, o.Pos, o.How)
		}
	}
	var st any
	if *tier == "thorough" {
		st = seededSelfTest(*prop, *repo, *verif)
	}
	os.Exit(run.finish(rules, time.Since(start).Seconds(), seed, st))
}

func analyse(prop, tier, repo, verif string) (*Run, []*Rule, int) {
	var rules []*Rule
	for _, r := range allRules {
		also := false
		for _, p := range r.Also {
			if p == prop {
				also = true
			}
		}
		if (r.Prop == prop || also) && (r.Tier == "" || r.Tier == tier) {
			rules = append(rules, r)
		}
	}
	if len(rules) == 0 {
		fmt.Printf("BROKEN: no rules registered for property %s\n", prop)
		return nil, nil, 2
	}
	run := &Run{Prop: prop, Tier: tier, Repo: repo, Verif: verif, obs: map[string]*Ob{}, analysed: map[string]int{}}
	for _, cs := range [][2]string{{"default", ""}, {"avfs_setostype", "avfs_setostype"}} {
		c, err := loadConfig(repo, cs[0], cs[1])
		if err != nil {
			// A tree that does not type-check cannot be analysed: nothing is established.
			fmt.Printf("  load failure (%s): %v\n", cs[0], err)
			os.MkdirAll(verif+"/reports/"+prop, 0o755)
			rp := verif + "/reports/" + prop + "/load_failure.json"
			b, _ := json.MarshalIndent(map[string]any{"property": prop, "rule": "load", "why": err.Error()}, "", " ")
			os.WriteFile(rp, b, 0o644)
			fmt.Printf("VIOLATION property=%s replay=%s\n", prop, rp)
			return nil, nil, 1
		}
		n := 0
		for _, s := range []string{"avfs", "memfs", "orefafs", "memidm", "rofs", "basepathfs", "failfs"} {
			n += len(c.srcFuncs(s))
		}
		c.Funcs = n
		if n < 500 {
			fmt.Printf("BROKEN: only %d functions loaded in configuration %s\n", n, c.Name)
			return nil, nil, 2
		}
		run.Cfgs = append(run.Cfgs, c)
		curCfgs = run.Cfgs
	}
	for _, ru := range rules {
		for _, c := range run.Cfgs {
			rc := &RuleCtx{Rule: ru, C: c, run: run}
			func() {
				defer func() {
					if e := recover(); e != nil {
						// undecided = not discharged
						rc.ob("rule-crash", 0, false, fmt.Sprintf("the rule could not be evaluated (panic: %v) -- undecided counts as undischarged\n%s", e, firstLines(string(debug.Stack()), 30)))
					}
				}()
				ru.Run(rc)
			}()
		}
	}
	return run, rules, 0
}

func firstLines(s string, n int) string {
	l := strings.Split(s, "\n")
	if len(l) > n {
		l = l[:n]
	}
	return strings.Join(l, "\n")
}

func explainRun(prop, repo, verif string, rep map[string]any) int {
	run, _, code := analyse(prop, "thorough", repo, verif)
	if code != 0 {
		return code
	}
	rule, _ := rep["rule"].(string)
	cons, _ := rep["construct"].(string)
	o := run.obs[rule+"|"+cons]
	if o == nil {
		fmt.Printf("the construct %q of rule %s no longer exists in %s\n", cons, rule, repo)
		return 0
	}
	fmt.Printf("rule      : %s\nconstruct : %s\nposition  : %s\nconfigs   : %v\n", o.Rule, o.Construct, o.Pos, o.Cfgs)
	if o.OK {
		fmt.Printf("status    : discharged (%s)\n", o.How)
		return 0
	}
	fmt.Printf("status    : NOT discharged\nwhy       : %s\n", o.How)
	for _, p := range o.Path {
		fmt.Printf("  path: %s\n", p)
	}
	fmt.Printf("VIOLATION property=%s replay=%s\n", prop, rep["replay"])
	return 1
}
