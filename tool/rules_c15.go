package main

import (
	"fmt"
	"go/token"
	"go/types"
	"sort"
	"strings"

	"golang.org/x/tools/go/ssa"
)

// C15 — the in-memory identity manager stays consistent (C15.guard is in rules_guard.go).

func init() {
	notDecided["C15"] = []string{
		"linearizability of concurrent histories as such (only: every shared access is inside one critical section of the right mutex, checks and inserts share a critical section)",
		"AddUser is two critical sections (group lookup under grpMu, insert under usrMu): a DelGroup between them still has the sequential explanation AddUser;DelGroup, which is argued, not checked",
	}
	register(&Rule{ID: "C15.pair", Floor: 5,
		Text: "in every function (constructor included) an insert into a by-name map is matched by an insert of the same value into the by-id map, with keys equal to that value's name / id fields; every delete from one map is matched by a delete from the other with keys read from the same object",
		Run:  c15Pair})
	register(&Rule{ID: "C15.mono", Floor: 2,
		Text: "after construction the id counters are only ever incremented by one (an id is never handed out twice)",
		Run:  c15Mono})
	register(&Rule{ID: "C15.unique", Floor: 2,
		Text: "every insert into a by-name map of a shared manager is dominated by the absent branch of a lookup of the same map with the same key made inside the same critical section (after the acquisition of the lock held at the insert)",
		Run:  c15Unique})
	register(&Rule{ID: "C15.group", Floor: 1,
		Text: "AddUser looks the group up and returns the lookup's error before any user state is touched",
		Run:  c15Group})
	register(&Rule{ID: "C15.errors", Floor: 8,
		Text: "each refusing branch returns an error of the documented dynamic type (8-line table)",
		Run:  c15Errors})
	register(&Rule{ID: "C15.admin", Floor: 1, Also: []string{"C03"},
		Text: "the value returned by MemUser.IsAdmin depends only on the user id (no load of the group id in its backward slice)",
		Run:  c15Admin})
}

type idmPair struct{ byName, byID, idField string }

var idmPairs = []idmPair{{"groupsByName", "groupsById", "gid"}, {"usersByName", "usersById", "uid"}}

type mapOp struct {
	in    ssa.Instruction
	field string // map field name
	key   ssa.Value
	val   ssa.Value // for inserts
	del   bool
	fresh bool
}

func idmMapOps(f *ssa.Function) []mapOp {
	var out []mapOp
	mapField := func(m ssa.Value) (string, bool, bool) {
		ld, ok := m.(*ssa.UnOp)
		if !ok || ld.Op != token.MUL {
			return "", false, false
		}
		fa, ok := ld.X.(*ssa.FieldAddr)
		if !ok || !isNamed(fa.X.Type(), longPath("memidm"), "MemIdm") {
			return "", false, false
		}
		return fieldName(fa.X.Type(), fa.Field), objKeyOf(fa).fresh, true
	}
	eachInstr(f, func(in ssa.Instruction) {
		switch x := in.(type) {
		case *ssa.MapUpdate:
			if n, fr, ok := mapField(x.Map); ok {
				out = append(out, mapOp{in: x, field: n, key: x.Key, val: x.Value, fresh: fr})
			}
		case *ssa.Call:
			if b, ok := x.Call.Value.(*ssa.Builtin); ok && nm(b) == "delete" && len(x.Call.Args) == 2 {
				if n, fr, ok := mapField(x.Call.Args[0]); ok {
					out = append(out, mapOp{in: x, field: n, key: x.Call.Args[1], del: true, fresh: fr})
				}
			}
		}
	})
	return out
}

// fieldOfObject: v is (a load of) field `name` of the object obj, or the value stored into that field at obj's construction.
func keyMatchesField(key ssa.Value, obj ssa.Value, field string) bool {
	key = strip(key)
	// obj may be a load of a field that was assigned a fresh composite in this function (idm.adminGroup = &MemGroup{..})
	if ld, isLd := strip(obj).(*ssa.UnOp); isLd && ld.Op == token.MUL {
		if fa, isFA := ld.X.(*ssa.FieldAddr); isFA {
			eachInstr(ld.Parent(), func(in ssa.Instruction) {
				if st, isSt := in.(*ssa.Store); isSt {
					if fa2, ok2 := st.Addr.(*ssa.FieldAddr); ok2 && fa2.Field == fa.Field && objKeyOf(fa2).s == objKeyOf(fa).s {
						if _, isAl := strip(st.Val).(*ssa.Alloc); isAl {
							obj = strip(st.Val)
						}
					}
				}
			})
		}
	}
	ok := objKeyOf(obj)
	// load obj.field
	if ld, isLd := key.(*ssa.UnOp); isLd && ld.Op == token.MUL {
		if fa, isFA := ld.X.(*ssa.FieldAddr); isFA && fieldName(fa.X.Type(), fa.Field) == field && objKeyOf(fa).s == ok.s {
			return true
		}
	}
	// the value stored into obj.field (obj freshly built)
	if al, isAl := ok.root.(*ssa.Alloc); isAl {
		for _, u := range referrersOf(al) {
			if fa, isFA := u.(*ssa.FieldAddr); isFA && fieldName(fa.X.Type(), fa.Field) == field {
				for _, st := range storesTo(fa) {
					if strip(st.Val) == key {
						return true
					}
					if a, okA := constInt(st.Val); okA {
						if b, okB := constInt(key); okB && a == b {
							return true
						}
					}
					if ca, okA := strip(st.Val).(*ssa.Const); okA {
						if cb, okB := key.(*ssa.Const); okB && ca.Value != nil && cb.Value != nil && ca.Value.ExactString() == cb.Value.ExactString() {
							return true
						}
					}
				}
			}
		}
	}
	return false
}

func c15Pair(rc *RuleCtx) {
	for _, f := range rc.C.srcFuncs("memidm") {
		ops := idmMapOps(f)
		if len(ops) == 0 {
			continue
		}
		for _, pr := range idmPairs {
			var nameOps, idOps []mapOp
			for _, o := range ops {
				if o.field == pr.byName {
					nameOps = append(nameOps, o)
				} else if o.field == pr.byID {
					idOps = append(idOps, o)
				}
			}
			if len(nameOps)+len(idOps) == 0 {
				continue
			}
			cons := fmt.Sprintf("%s %s<->%s", funcName(f), pr.byName, pr.byID)
			bad := ""
			used := map[int]bool{}
			for _, no := range nameOps {
				found := false
				for j, io := range idOps {
					if used[j] || io.del != no.del {
						continue
					}
					if !no.del {
						if objKeyOf(io.val).s != objKeyOf(no.val).s {
							continue
						}
						if !keyMatchesField(no.key, no.val, "name") {
							bad = "the by-name key is not the name field of the inserted value"
						}
						if !keyMatchesField(io.key, io.val, pr.idField) {
							bad = "the by-id key is not the " + pr.idField + " field of the inserted value"
						}
					} else {
						// both keys loaded from one object
						kn, ki := strip(no.key), strip(io.key)
						ln, ok1 := kn.(*ssa.UnOp)
						li, ok2 := ki.(*ssa.UnOp)
						if !ok1 || !ok2 {
							bad = "the deleted keys are not read from the found object"
							found, used[j] = true, true
							break
						}
						fan, ok1 := ln.X.(*ssa.FieldAddr)
						fai, ok2 := li.X.(*ssa.FieldAddr)
						if !ok1 || !ok2 || objKeyOf(fan).s != objKeyOf(fai).s || fieldName(fan.X.Type(), fan.Field) != "name" || fieldName(fai.X.Type(), fai.Field) != pr.idField {
							bad = "the two deletes do not use the name and " + pr.idField + " of one and the same object"
						}
					}
					found, used[j] = true, true
					break
				}
				if !found {
					what := "insert into"
					if no.del {
						what = "delete from"
					}
					bad = fmt.Sprintf("%s %s has no matching operation on %s: lookup by name and by id diverge", what, pr.byName, pr.byID)
				}
			}
			for j, io := range idOps {
				if !used[j] && bad == "" {
					what := "insert into"
					if io.del {
						what = "delete from"
					}
					bad = fmt.Sprintf("%s %s has no matching operation on %s: lookup by name and by id diverge", what, pr.byID, pr.byName)
				}
			}
			if bad != "" {
				rc.bad(cons, ops[0].in.Pos(), bad)
			} else {
				rc.good(cons, ops[0].in.Pos(), fmt.Sprintf("%d paired operation(s)", len(nameOps)))
			}
		}
	}
}

func c15Mono(rc *RuleCtx) {
	for _, f := range rc.C.srcFuncs("memidm") {
		eachInstr(f, func(in ssa.Instruction) {
			st, ok := in.(*ssa.Store)
			if !ok {
				return
			}
			fa, ok := st.Addr.(*ssa.FieldAddr)
			if !ok || !isNamed(fa.X.Type(), longPath("memidm"), "MemIdm") {
				return
			}
			name := fieldName(fa.X.Type(), fa.Field)
			if name != "maxGid" && name != "maxUid" {
				return
			}
			cons := fmt.Sprintf("%s store %s", funcName(f), name)
			if objKeyOf(fa).fresh {
				rc.good(cons, st.Pos(), "initialisation of a manager under construction")
				return
			}
			b, isB := strip(st.Val).(*ssa.BinOp)
			if isB && b.Op == token.ADD {
				if k, isC := constInt(b.Y); isC && k == 1 && isFieldLoad(b.X, name) {
					rc.good(cons, st.Pos(), "counter = counter + 1")
					return
				}
			}
			rc.bad(cons, st.Pos(), "the id counter is assigned something other than counter+1: an id already handed out (and possibly still referenced by file owners) can be handed out again to a different user or group")
		})
	}
}

func c15Unique(rc *RuleCtx) {
	a := lockAnalysisFor(rc.C)
	for _, f := range rc.C.srcFuncs("memidm") {
		for _, o := range idmMapOps(f) {
			if o.del || o.fresh {
				continue
			}
			isByName := false
			for _, pr := range idmPairs {
				if o.field == pr.byName {
					isByName = true
				}
			}
			if !isByName {
				continue
			}
			cons := fmt.Sprintf("%s insert %s unique", funcName(f), o.field)
			// dominating fact: commaok Lookup of the same map field with the same key, absent branch
			var lk *ssa.Lookup
			for _, fa := range factsAt(o.in.Block()) {
				v, truth := normCond(fa.Cond, fa.Truth)
				ex, ok := v.(*ssa.Extract)
				if !ok || ex.Index != 1 || truth {
					continue
				}
				l, ok := ex.Tuple.(*ssa.Lookup)
				if !ok || !l.CommaOk || !isFieldLoad(l.X, o.field) {
					continue
				}
				if strip(l.Index) == strip(o.key) {
					lk = l
				}
			}
			if lk == nil {
				rc.bad(cons, o.in.Pos(), "the insert is not dominated by the absent branch of a lookup of the same name in the same map: two callers can both insert the name (the second overwrites the first, leaving an orphan in the by-id map)")
				continue
			}
			st := a.stateBefore(o.in)
			same := false
			if st != nil {
				for _, h := range st.must {
					if h.mode == modeW && domInstr(h.site, lk) {
						same = true
					}
				}
			}
			if same {
				rc.good(cons, o.in.Pos(), "lookup and insert are inside one critical section of the write lock")
			} else {
				rc.bad(cons, o.in.Pos(), "the lookup that establishes absence is not inside the critical section of the insert: another caller can insert the same name in between")
			}
		}
	}
}

func c15Group(rc *RuleCtx) {
	f := rc.C.method("memidm", "MemIdm", "AddUser")
	if f == nil {
		rc.anchor("memidm.(*MemIdm).AddUser")
		return
	}
	cons := funcName(f) + " group-first"
	var lg *ssa.Call
	eachCall(f, func(c ssa.CallInstruction) {
		if fn := calleeFunc(c); fn != nil && fn.Name() == "LookupGroup" {
			if call, ok := c.(*ssa.Call); ok && len(callArgs(c)) == 1 && paramIndex(f, callArgs(c)[0]) == 1 {
				lg = call
			}
		}
	})
	if lg == nil {
		rc.bad(cons, f.Pos(), "AddUser does not look up its group argument: a user can be added to an unknown group")
		return
	}
	var errv ssa.Value
	for _, u := range referrersOf(lg) {
		if e, ok := u.(*ssa.Extract); ok && e.Index == 1 {
			errv = e
		}
	}
	bad := ""
	eachInstr(f, func(in ssa.Instruction) {
		touches := false
		if fa, ok := in.(*ssa.FieldAddr); ok && isNamed(fa.X.Type(), longPath("memidm"), "MemIdm") {
			n := fieldName(fa.X.Type(), fa.Field)
			if strings.HasPrefix(n, "users") || n == "maxUid" || n == "usrMu" {
				touches = true
			}
		}
		if !touches {
			return
		}
		ok := false
		for _, fa := range factsAt(in.Block()) {
			if x, isNil, k := nilTest(fa); k && isNil && errv != nil && resolve1(x) == errv {
				ok = true
			}
		}
		if !ok {
			bad = "user state is touched (" + rc.C.pos(in.Pos()) + ") on a path where the group lookup has not succeeded"
		}
	})
	// the error branch returns the lookup's error
	if bad == "" {
		found := false
		for _, r := range returnsOf(f) {
			for _, fa := range factsAt(r.Block()) {
				if x, isNil, k := nilTest(fa); k && !isNil && errv != nil && resolve1(x) == errv {
					found = true
					if resolve1(r.Results[1]) != errv {
						bad = "the failing branch does not return the group lookup's error"
					}
				}
			}
		}
		if !found {
			bad = "the group lookup's error is not tested"
		}
	}
	if bad != "" {
		rc.bad(cons, lg.Pos(), bad)
	} else {
		rc.good(cons, lg.Pos(), "LookupGroup(groupName) succeeds before any user state is touched; its error is returned unchanged")
	}
}

var c15ErrTable = map[string]string{
	"AddGroup": "AlreadyExistsGroupError", "AddUser": "AlreadyExistsUserError",
	"DelGroup": "UnknownGroupError", "DelUser": "UnknownUserError",
	"LookupGroup": "UnknownGroupError", "LookupGroupId": "UnknownGroupIdError",
	"LookupUser": "UnknownUserError", "LookupUserId": "UnknownUserIdError",
}

// c15Propagates: the one callee whose error a method may hand on unchanged (AddUser documents UnknownGroupError
// for a group that does not exist: that is LookupGroup's error for the name it was given).
var c15Propagates = map[string]string{"AddUser": "LookupGroup"}

func c15Errors(rc *RuleCtx) {
	var names []string
	for n := range c15ErrTable {
		names = append(names, n)
	}
	sort.Strings(names)
	for _, name := range names {
		want := c15ErrTable[name]
		f := rc.C.method("memidm", "MemIdm", name)
		cons := "memidm.(*MemIdm)." + name + " refusal-type"
		if f == nil {
			rc.anchor("memidm.(*MemIdm)." + name)
			continue
		}
		ei := errResultIndex(f.Signature)
		var got []string
		for _, r := range returnsOf(f) {
			for _, v := range resolveRaw(r.Results[ei]) {
				if isNilConst(strip(v)) {
					continue
				}
				mi, ok := v.(*ssa.MakeInterface)
				if !ok {
					// propagated error of a callee (AddUser: LookupGroup)
					if c, _ := resultOfCall(resolve1(v)); c != nil {
						// only the error of a lookup whose documented type the caller documents too (round 11)
						if fn := calleeFunc(c); fn != nil && c15Propagates[name] == fn.Name() {
							continue
						} else if fn != nil {
							got = append(got, "the error of "+fn.Name()+" as it came")
							continue
						}
						continue
					}
					got = append(got, "?"+accessPath(v))
					continue
				}
				got = append(got, typeStr(mi.X.Type()))
			}
		}
		sort.Strings(got)
		got = uniq(got)
		// a lookup that did not find its key refuses: no return with a nil error on the not-found branch of a map lookup
		missNil := ""
		if strings.HasPrefix(name, "Lookup") {
			for _, r := range returnsOf(f) {
				nilErr := false
				for _, o := range originsOf(r.Results[ei]) {
					if k, isC := o.(*ssa.Const); isC && k.IsNil() {
						nilErr = true
					}
				}
				if !nilErr {
					continue
				}
				for _, fa := range factsAt(r.Block()) {
					v, truth := normCond(fa.Cond, fa.Truth)
					if e, ok := v.(*ssa.Extract); ok && e.Index == 1 && !truth {
						if _, isLk := e.Tuple.(*ssa.Lookup); isLk {
							missNil = rc.C.pos(r.Pos())
						}
					}
				}
			}
		}
		if missNil != "" {
			rc.bad(cons, f.Pos(), "a lookup that does not find its key can return a nil error ("+missNil+"): lookup by id and lookup by name disagree about what exists")
			continue
		}
		if len(got) == 1 && got[0] == "avfs."+want {
			rc.good(cons, f.Pos(), "refuses with avfs."+want)
		} else {
			rc.bad(cons, f.Pos(), fmt.Sprintf("refuses with %v instead of the documented avfs.%s", got, want))
		}
	}
}

func c15Admin(rc *RuleCtx) {
	f := rc.C.method("memidm", "MemUser", "IsAdmin")
	if f == nil {
		rc.anchor("memidm.(*MemUser).IsAdmin")
		return
	}
	cons := funcName(f)
	usesUID, other := false, ""
	eachInstr(f, func(in ssa.Instruction) {
		if fa, ok := in.(*ssa.FieldAddr); ok {
			n := fieldName(fa.X.Type(), fa.Field)
			if n == "uid" {
				usesUID = true
			} else {
				other = n
			}
		}
		if c, ok := in.(ssa.CallInstruction); ok {
			if fn := calleeFunc(c); fn != nil {
				other = "call " + fn.Name()
			}
		}
	})
	_ = types.Typ
	switch {
	case other != "":
		rc.bad(cons, f.Pos(), "the administrator predicate also depends on "+other+": a user other than the administrator (e.g. any member of group 0) bypasses every permission check")
	case !usesUID:
		rc.bad(cons, f.Pos(), "the administrator predicate does not test the user id")
	default:
		rc.good(cons, f.Pos(), "depends on the user id only")
	}
}
