package main

import (
	"fmt"
	"go/constant"
	"go/token"
	"sort"
	"strings"

	"golang.org/x/tools/go/ssa"
)

// C03 — permission and ownership enforcement (MemFS): where a check must stand (must-check-before-act).

func init() {
	notDecided["C03"] = []string{
		"the class selection arithmetic inside checkPermission (owner / group / other), supplementary groups, setgid and sticky semantics",
		"the exact errno of each refusal; the golden-file grid of the suite",
		"that the search-permission test covers the view's root directory itself (the walk checks every directory it descends into)",
	}
	register(&Rule{ID: "C03.matrix", Floor: 18, Also: []string{"C11", "C02"},
		// C11: a view's root is never descended into by the walk, so the search permission the parent enforces on the
		// way down is enforced for the view only by the check on the containing directory at the point of change.
		AlsoOnly: map[string][]string{"C11": {" insert into ", " remove from ", " lookup in "}, "C02": {" truncate "}}, AlsoFloor: map[string]int{"C11": 10, "C02": 1},
		Text: "must-check-before-act, decided on every acyclic path to the act: (1) an entry is added to / removed from directory p only after p.checkPermission(mask including OpenWrite, user) returned true on that path - and including OpenLookup unless p is the directory result of the walk, on which clause (5) has tested search permission where the last name was looked up (pointer-equality decisions on the path make the check on one name count for the other; objects allocated by the call need none); (2) the content of an existing file is truncated by a path-level call only after checkPermission including write on that file (or with the decoded open mode, whose decoder guarantees OpenTruncate => OpenWrite, C01.flags); (3) setOwner only after the administrator test; (4) the boolean result of setMode / setModTime is tested and its false branch returns an error; (5) the walk descends into a directory only after checkPermission(OpenLookup) on it; (6) OpenFile hands out a handle on an existing node only after checkPermission on it",
		Run:  c03Matrix})
	register(&Rule{ID: "C03.admin", Also: []string{"C16"}, AlsoOnly: map[string][]string{"C16": {"stranger-refused"}}, AlsoFloor: map[string]int{"C16": 1}, Floor: 3,
		Text: "the administrator is never refused: in checkPermission, setMode and setModTime every path that returns false has seen IsAdmin() == false",
		Run:  c03Admin})
	register(&Rule{ID: "C03.create", Floor: 3, Also: []string{"C11"},
		Text: "every node constructor of MemFS stores uid and gid taken from the view's current user and a mode of the form type | (perm & mask &^ vfs.UMask()) using the view's own umask",
		Run:  c03Create})
}

func openModeConst(c *Config, v ssa.Value) (int64, bool) { return constInt(v) }

// aliasSets builds alias classes of object keys from pointer (in)equality decisions on a path.
func aliasClasses(path []Fact) func(a, b string) bool {
	parent := map[string]string{}
	var find func(x string) string
	find = func(x string) string {
		if p, ok := parent[x]; ok && p != x {
			r := find(p)
			parent[x] = r
			return r
		}
		return x
	}
	for _, fa := range path {
		v, truth := normCond(fa.Cond, fa.Truth)
		b, ok := v.(*ssa.BinOp)
		if !ok || (b.Op != token.EQL && b.Op != token.NEQ) || isNilConst(b.X) || isNilConst(b.Y) {
			continue
		}
		if (b.Op == token.EQL) != truth {
			continue
		}
		ka, kb := objKeyOf(b.X).s, objKeyOf(b.Y).s
		parent[find(ka)] = find(kb)
	}
	return func(a, b string) bool { return a == b || find(a) == find(b) }
}

// permCheckedOnPath: the path contains obj.checkPermission(mask ⊇ need)==true for an object aliasing key.
func permCheckedOnPath(path []Fact, keys []string, need int64, acceptVar func(ssa.Value) bool) bool {
	same := aliasClasses(path)
	for _, fa := range path {
		pc, truth, ok := permFact(fa)
		if !ok || !truth {
			continue
		}
		rks, _ := nonFreshKeys(pc.recv)
		rks = append(rks, objKeyOf(pc.recv).s)
		match := false
		for _, k := range keys {
			for _, rk := range rks {
				if same(rk, k) {
					match = true
				}
			}
		}
		if !match {
			continue
		}
		if m, isC := constInt(pc.mask); isC {
			if m&need == need {
				return true
			}
			continue
		}
		if acceptVar != nil && acceptVar(pc.mask) {
			return true
		}
	}
	return false
}

// nonFreshKeys: the keys an object value may denote, dropping values allocated by this call (phi edges).
func nonFreshKeys(v ssa.Value) (keys []string, anyShared bool) {
	k := objKeyOf(v)
	if k.fresh {
		return nil, false
	}
	if phi, ok := stripIface(k.root).(*ssa.Phi); ok && strings.HasPrefix(k.s, "phi:") {
		for _, e := range phi.Edges {
			if e == ssa.Value(phi) {
				continue
			}
			ks, sh := nonFreshKeys(e)
			if sh {
				keys = append(keys, ks...)
				anyShared = true
			}
		}
		return
	}
	return []string{k.s}, true
}

// dirFromWalk: every value v can stand for is the directory result of the path walk (the directory in which the walk
// made its last lookup, after testing search permission on it) or an object this call created.
func dirFromWalk(v ssa.Value) bool {
	n := 0
	for _, o := range originsOf(v) {
		switch x := o.(type) {
		case *ssa.Extract:
			c, ok := x.Tuple.(*ssa.Call)
			if !ok || x.Index != 0 || c.Call.StaticCallee() == nil || c.Call.StaticCallee().Name() != "searchNode" {
				return false
			}
			n++
		case *ssa.Alloc, *ssa.Call:
			// a fresh object, or the result of a creating helper
		default:
			return false
		}
	}
	return n > 0
}

func c03Matrix(rc *RuleCtx) {
	a := lockAnalysisFor(rc.C)
	prims := computeMapPrims(rc.C, a, map[string]bool{"memfs": true})
	wr := openModeBit(rc.C, "OpenWrite")
	lk := openModeBit(rc.C, "OpenLookup")
	if wr < 0 || lk < 0 {
		rc.anchor("avfs.OpenWrite / avfs.OpenLookup")
		return
	}
	isDecodedMode := func(v ssa.Value) bool {
		c, _ := resultOfCall(resolve1(v))
		return c != nil && calleeFunc(c) != nil && calleeFunc(c).Name() == "ToOpenMode"
	}
	for _, f := range rc.C.srcFuncs("memfs") {
		if f.Signature.Recv() == nil {
			continue
		}
		selfUnit := false
		for _, p := range prims[f] {
			if p.selfChecked {
				selfUnit = true // an unexported primitive that makes the permission check itself: decided as a unit
			}
		}
		if !isEntryPoint(f) && !selfUnit {
			continue
		}
		rn := namedOf(f.Signature.Recv().Type())
		if rn == nil || (rn.Obj().Name() != "MemFS" && rn.Obj().Name() != "MemFile") {
			continue
		}
		seq := map[string]int{}
		mk := func(base string) string {
			seq[base]++
			if seq[base] > 1 {
				return fmt.Sprintf("%s#%d", base, seq[base])
			}
			return base
		}
		eachCall(f, func(ci ssa.CallInstruction) {
			fn := calleeFunc(ci)
			if fn == nil {
				return
			}
			args := ci.Common().Args
			if ci.Common().IsInvoke() {
				args = append([]ssa.Value{ci.Common().Value}, args...)
			}
			// (1) entry-map updates through primitives
			for _, callee := range a.calleesOf(ci) {
				if isEntryPoint(callee) {
					continue
				}
				for _, p := range prims[callee] {
					if p.mapField != "children" || p.objParam >= len(args) || p.selfChecked {
						continue
					}
					keys, shared := nonFreshKeys(args[p.objParam])
					what := "insert into"
					if p.del {
						what = "remove from"
					}
					cons := mk(fmt.Sprintf("%s %s %s.children via %s", funcName(f), what, prettyKey(objKeyOf(args[p.objParam])), callee.Name()))
					if !shared {
						rc.good(cons, ci.Pos(), "the directory was created by this call")
						continue
					}
					paths, complete := pathsTo(f, ci, 4000)
					if !complete {
						rc.bad(cons, ci.Pos(), "too many paths to decide")
						continue
					}
					// the directory in which the walk made its last lookup was tested for search permission there, clause
					// (5): for it the check at the point of change need only establish write permission
					need := wr | lk
					if dirFromWalk(args[p.objParam]) {
						need = wr
					}
					bad := false
					for _, p := range paths {
						if feasiblePath(p) && !permCheckedOnPath(p, keys, need, nil) {
							bad = true
						}
					}
					if bad {
						rc.bad(cons, ci.Pos(), "a path reaches this change of the directory's entries without a successful checkPermission(OpenWrite|OpenLookup) on that directory: the kernel requires write AND search permission on a directory to create, remove or rename entries in it (the walk checks the search bit only of directories it enters, not of the one it starts from)")
					} else {
						rc.good(cons, ci.Pos(), fmt.Sprintf("write and search permission on the directory checked on all %d paths", len(paths)))
					}
				}
			}
			switch nm(fn) {
			case "truncate":
				if rn.Obj().Name() != "MemFS" {
					return // handle-level Truncate is governed by the open mode (C02.mode)
				}
				r := callRecv(ci)
				cons := mk(fmt.Sprintf("%s truncate %s", funcName(f), prettyKey(objKeyOf(r))))
				keys, shared := nonFreshKeys(r)
				if !shared {
					rc.good(cons, ci.Pos(), "file created by this call")
					return
				}
				paths, complete := pathsTo(f, ci, 4000)
				bad := !complete
				for _, p := range paths {
					if !permCheckedOnPath(p, keys, wr, isDecodedMode) {
						bad = true
					}
				}
				if bad {
					rc.bad(cons, ci.Pos(), "a path truncates the file without a successful checkPermission including write on it: a user who may not write the file can empty it")
				} else {
					rc.good(cons, ci.Pos(), "write permission on the file checked on every path (constant mask, or the decoded open mode)")
				}
			case "setOwner":
				cons := mk(fmt.Sprintf("%s setOwner", funcName(f)))
				paths, complete := pathsTo(f, ci, 4000)
				bad := !complete
				adminEstablished := func(facts []Fact) bool {
					for _, fa := range facts {
						if _, truth, k := callFact(fa, "IsAdmin"); k && truth {
							return true
						}
						if c, truth, k := callFact(fa, "HasFeature"); k && !truth {
							if m, isC := constInt(callArgs(c)[0]); isC && m == featIdentityMgr(rc.C) {
								return true // no identity manager: every user is the administrator
							}
						}
					}
					return false
				}
				for _, p := range paths {
					ok := adminEstablished(p)
					// the test may live in an unexported predicate helper: every path of the helper that yields the outcome
					// taken here must establish it
					for _, fa := range p {
						if ok {
							break
						}
						if helperImplies(fa, adminEstablished) {
							ok = true
						}
					}
					if !ok {
						bad = true
					}
				}
				if bad {
					rc.bad(cons, ci.Pos(), "the owner is changed on a path that has not established that the caller is the administrator (the kernel lets only root give a file away)")
				} else {
					rc.good(cons, ci.Pos(), "administrator test (or absence of an identity manager) on every path")
				}
			case "setMode", "setModTime":
				call, ok := ci.(*ssa.Call)
				if !ok {
					return
				}
				cons := mk(fmt.Sprintf("%s %s result", funcName(f), fn.Name()))
				ei := errResultIndex(f.Signature)
				bad := ""
				tested := false
				for _, r := range returnsOf(f) {
					if !instrReaches(call, r) || ei < 0 {
						continue
					}
					nilErr := true
					for _, v := range resolve(r.Results[ei]) {
						if !isNilConst(v) {
							nilErr = false
						}
					}
					if !nilErr {
						continue
					}
					okR := false
					for _, fa := range factsAt(r.Block()) {
						v, truth := normCond(fa.Cond, fa.Truth)
						if v == ssa.Value(call) && truth {
							okR = true
							tested = true
						}
					}
					if !okR {
						bad = "a successful return is reached although " + fn.Name() + " may have refused (its result is not tested on that path)"
					}
				}
				if bad == "" && !tested {
					bad = "the result of " + fn.Name() + " is not tested"
				}
				if bad != "" {
					rc.bad(cons, ci.Pos(), bad)
				} else {
					rc.good(cons, ci.Pos(), "refusal (false) is turned into an error")
				}
			}
		})
		// (6) OpenFile: handle on an existing node
		if f.Name() == "OpenFile" && rn.Obj().Name() == "MemFS" {
			n := 0
			for _, r := range returnsOf(f) {
				ei := errResultIndex(f.Signature)
				nilErr := true
				for _, v := range resolve(r.Results[ei]) {
					if !isNilConst(v) {
						nilErr = false
					}
				}
				if !nilErr {
					continue
				}
				// the node stored in the returned handle
				al, ok := strip(resolve1(r.Results[0])).(*ssa.Alloc)
				if !ok {
					continue
				}
				var nd ssa.Value
				for _, u := range referrersOf(al) {
					if fa, ok := u.(*ssa.FieldAddr); ok && fieldName(fa.X.Type(), fa.Field) == "nd" {
						for _, st := range storesTo(fa) {
							nd = st.Val
						}
					}
				}
				if nd == nil {
					continue
				}
				n++
				cons := fmt.Sprintf("%s handle#%d on %s", funcName(f), n, prettyVal(nd, 0))
				keys, shared := nonFreshKeys(nd)
				if !shared {
					rc.good(cons, r.Pos(), "the file was created by this call (permission on the directory is checked by clause 1)")
					continue
				}
				paths, complete := pathsTo(f, r, 6000)
				bad := !complete
				for _, p := range paths {
					if !permCheckedOnPath(p, keys, 0, func(ssa.Value) bool { return true }) {
						// a path on which the node was created by this call is fine: the create call is on the path
						created := false
						for _, fa := range p {
							if l := lookupInCond(fa.Cond); l != nil {
								v, truth := normCond(fa.Cond, fa.Truth)
								if b, ok := v.(*ssa.BinOp); ok && ((b.Op == token.EQL && truth) || (b.Op == token.NEQ && !truth)) {
									created = true // children[part] == nil: created under the parent's permission
								}
							}
						}
						// a path on which the node is neither a file nor a directory: it would be a symbolic link, which the
						// walk never returns in follow mode (rule C04.follow)
						notFile, notDir := false, false
						for _, fa := range p {
							v, truth := normCond(fa.Cond, fa.Truth)
							if ex, ok := v.(*ssa.Extract); ok && ex.Index == 1 && !truth {
								if ta, ok := ex.Tuple.(*ssa.TypeAssert); ok {
									switch typeStr(ta.AssertedType) {
									case "*memfs.fileNode":
										notFile = true
									case "*memfs.dirNode":
										notDir = true
									}
								}
							}
						}
						if !created && !(notFile && notDir) {
							bad = true
						}
					}
				}
				if bad {
					rc.bad(cons, r.Pos(), "a handle on an existing node is returned on a path without a successful checkPermission on that node: the open mode is not checked against the file's permission bits")
				} else {
					rc.good(cons, r.Pos(), "permission on the node checked on every path that opens an existing node")
				}
			}
		}
	}
	// (5) lookups of the walk: a name is looked up in a directory only with search permission on that directory.
	// The directory must be tested where the lookup in it is made (every directory, the start included); testing a
	// directory only when the walk descends into it leaves out the directory the walk starts from and is reported.
	if f := rc.C.method("memfs", "MemFS", "searchNode"); f == nil {
		rc.anchor("memfs.(*MemFS).searchNode")
	} else {
		n := 0
		eachInstr(f, func(in ssa.Instruction) {
			lkp, ok := in.(*ssa.Lookup)
			if !ok {
				return
			}
			ld, ok := stripCT(lkp.X).(*ssa.UnOp)
			if !ok || ld.Op != token.MUL {
				return
			}
			fad, ok := ld.X.(*ssa.FieldAddr)
			if !ok || fieldName(fad.X.Type(), fad.Field) != "children" {
				return
			}
			dirKey := objKeyOf(fad.X).s
			n++
			cons := fmt.Sprintf("%s lookup in %s", funcName(f), prettyVal(fad.X, 0))
			// uses of the looked-up node: type switches / assertions on it
			var uses []ssa.Instruction
			eachInstr(f, func(u ssa.Instruction) {
				ta, ok := u.(*ssa.TypeAssert)
				if !ok {
					return
				}
				for _, rv := range resolveRaw(ta.X) {
					if strip(rv) == ssa.Value(lkp) || stripIface(rv) == ssa.Value(lkp) {
						uses = append(uses, ta)
					}
				}
				if stripIface(ta.X) == ssa.Value(lkp) {
					uses = append(uses, ta)
				}
			})
			if len(uses) == 0 {
				rc.bad(cons, lkp.Pos(), "the node found by the lookup is not examined by a type switch: the walk cannot be followed")
				return
			}
			checkedHere := func(at ssa.Instruction) bool {
				for _, fa := range factsAt(at.Block()) {
					if pc, truth, k := permFact(fa); k && truth {
						if m, isC := constInt(pc.mask); isC && m&lk == lk && objKeyOf(pc.recv).s == dirKey {
							return true
						}
					}
					// the result of the check stored in a local and tested later (`ok := d.checkPermission(...); ... if !ok`)
					v, truth := normCond(fa.Cond, fa.Truth)
					for _, rv := range resolveRaw(v) {
						if pc, k := asPermCheck(strip(rv)); k && truth {
							if m, isC := constInt(pc.mask); isC && m&lk == lk && objKeyOf(pc.recv).s == dirKey {
								return true
							}
						}
					}
				}
				return false
			}
			all := true
			for _, u := range uses {
				if !checkedHere(u) {
					all = false
				}
			}
			if all {
				rc.good(cons, lkp.Pos(), "the node found is used only after checkPermission(OpenLookup) succeeded on the directory it was looked up in")
				return
			}
			// older shape: tested on descent
			var cell *ssa.Alloc
			for _, r := range returnsOf(f) {
				if al, ok := cellOf(r.Results[0]).(*ssa.Alloc); ok {
					cell = al
				}
			}
			desc := 0
			okAll := true
			if cell != nil {
				for _, st := range storesTo(cell) {
					if p, _ := childrenParent(st.Val); p == "" {
						if _, ok := stripIface(st.Val).(*ssa.TypeAssert); !ok {
							if _, isEx := st.Val.(*ssa.Extract); !isEx {
								continue
							}
						}
					}
					desc++
					ok := false
					for _, fa := range factsAt(st.Block()) {
						if pc, truth, k := permFact(fa); k && truth {
							if m, isC := constInt(pc.mask); isC && m&lk == lk && objKeyOf(pc.recv).s == objKeyOf(st.Val).s {
								ok = true
							}
						}
					}
					if !ok {
						okAll = false
					}
				}
			}
			if desc > 0 && okAll {
				rc.bad(cons, lkp.Pos(), "directories are tested for search permission only when the walk descends into them: the directory the walk starts from (the root of the file system, of a volume, of a Sub view) is never tested, so a user without search permission on it looks names up in it (the kernel answers EACCES; through a view of a private directory everything directly below is reachable)")
			} else {
				rc.bad(cons, lkp.Pos(), "the walk looks a name up in a directory, and goes on with what it found, without a successful checkPermission(OpenLookup) on that directory: search permission on traversed directories is not enforced")
			}
		})
		if n == 0 {
			rc.bad(funcName(f)+" lookup", f.Pos(), "no lookup in a directory's children was recognised in the walk")
		}
	}
	_ = sort.Strings
}

func featIdentityMgr(c *Config) int64 {
	return openModeBit(c, "FeatIdentityMgr")
}

func c03Admin(rc *RuleCtx) {
	n := 0
	for _, f := range rc.C.srcFuncs("memfs") {
		switch nm(f) {
		case "checkPermission", "setMode", "setModTime":
		default:
			continue
		}
		if f.Signature.Results().Len() != 1 {
			continue
		}
		n++
		cons := funcName(f) + " admin-never-refused"
		callsAdmin := false
		eachCall(f, func(c ssa.CallInstruction) {
			if fn := calleeFunc(c); fn != nil && fn.Name() == "IsAdmin" {
				callsAdmin = true
			}
		})
		bad := ""
		for _, r := range returnsOf(f) {
			// can this return yield false?
			v := strip(r.Results[0])
			if k, ok := v.(*ssa.Const); ok && k.Value != nil && k.Value.ExactString() == "true" {
				continue
			}
			paths, complete := pathsTo(f, r, 2000)
			if !complete {
				bad = "too many paths"
				break
			}
			for _, p := range paths {
				seenNotAdmin := false
				for _, fa := range p {
					if _, truth, k := callFact(fa, "IsAdmin"); k && !truth {
						seenNotAdmin = true
					}
				}
				if !seenNotAdmin {
					// a computed result (mode&perm == perm) after the admin short-circuit is fine only if admin was excluded
					bad = "a path can return a refusal without having established that the user is not the administrator"
				}
			}
		}
		if !callsAdmin {
			// symlinkNode.setMode always refuses: no administrator exception by design? report
			allFalse := true
			for _, r := range returnsOf(f) {
				if k, ok := strip(r.Results[0]).(*ssa.Const); !ok || k.Value == nil || k.Value.ExactString() != "false" {
					allFalse = false
				}
			}
			if allFalse {
				rc.good(cons, f.Pos(), "refuses everybody unconditionally (the mode of a symbolic link cannot be changed on Linux either)")
				continue
			}
		}
		if bad != "" {
			rc.bad(cons, f.Pos(), bad)
		} else {
			rc.good(cons, f.Pos(), "every refusing path has seen IsAdmin() == false")
		}
		// the converse for the two owner-only changes: whoever is neither the owner nor the administrator is refused
		if nm(f) == "setMode" || nm(f) == "setModTime" {
			cons2 := funcName(f) + " stranger-refused"
			bad2 := ""
			for _, r := range returnsOf(f) {
				if k, ok := strip(r.Results[0]).(*ssa.Const); ok && k.Value != nil && k.Value.ExactString() == "false" {
					continue
				}
				paths, complete := pathsTo(f, r, 2000)
				if !complete {
					bad2 = "too many paths"
					break
				}
				for _, p := range paths {
					entitled := false
					for _, fa := range p {
						if _, truth, k := callFact(fa, "IsAdmin"); k && truth {
							entitled = true
						}
						v, truth := normCond(fa.Cond, fa.Truth)
						if b, ok := v.(*ssa.BinOp); ok && (b.Op == token.EQL || b.Op == token.NEQ) && (b.Op == token.EQL) == truth {
							for _, pr := range [][2]ssa.Value{{b.X, b.Y}, {b.Y, b.X}} {
								c, _ := resultOfCall(pr[1])
								if isFieldLoad(strip(pr[0]), "uid") && c != nil && calleeFunc(c) != nil && calleeFunc(c).Name() == "Uid" {
									entitled = true
								}
							}
						}
					}
					if !entitled {
						bad2 = "a path reports the change as made (" + rc.C.pos(r.Pos()) + ") for a user that was found neither to own the node nor to be the administrator: Chmod / Chtimes by a stranger answers success instead of EPERM"
					}
				}
			}
			if bad2 != "" {
				rc.bad(cons2, f.Pos(), bad2)
			} else {
				rc.good(cons2, f.Pos(), "success only for the owner or the administrator")
			}
		}
	}
	if n == 0 {
		rc.anchor("memfs checkPermission/setMode/setModTime")
	}
}

func c03Create(rc *RuleCtx) {
	for _, name := range []string{"createDir", "createFile", "createSymlink"} {
		f := rc.C.method("memfs", "MemFS", name)
		cons := "memfs.(*MemFS)." + name + " owner-and-mode"
		if f == nil {
			rc.anchor("memfs.(*MemFS)." + name)
			continue
		}
		recv := f.Params[0]
		var uidOK, gidOK, modeOK bool
		modeWhy := "no store to mode found"
		eachInstr(f, func(in ssa.Instruction) {
			st, ok := in.(*ssa.Store)
			if !ok {
				return
			}
			fa, ok := st.Addr.(*ssa.FieldAddr)
			if !ok || !objKeyOf(fa).fresh {
				return
			}
			switch fieldName(fa.X.Type(), fa.Field) {
			case "uid", "gid":
				want := "Uid"
				if fieldName(fa.X.Type(), fa.Field) == "gid" {
					want = "Gid"
				}
				c, _ := resultOfCall(st.Val)
				if c != nil && calleeFunc(c) != nil && calleeFunc(c).Name() == want {
					uc, _ := resultOfCall(callRecv(c))
					if uc != nil && calleeFunc(uc) != nil && calleeFunc(uc).Name() == "User" && rootAlloc(callRecv(uc)) == ssa.Value(recv) {
						if want == "Uid" {
							uidOK = true
						} else {
							gidOK = true
						}
					}
				}
			case "mode":
				if name == "createSymlink" {
					// symbolic links always have mode 0777: constant
					if _, isC := constInt(st.Val); isC {
						modeOK = true
					} else if b, ok := strip(st.Val).(*ssa.BinOp); ok {
						_, c1 := constInt(b.X)
						_, c2 := constInt(b.Y)
						modeOK = c1 && c2
					}
					modeWhy = "symlink mode is not the constant ModeSymlink|ModePerm"
					return
				}
				modeOK, modeWhy = modeUsesViewUMask(st.Val, recv)
			}
		})
		switch {
		case !uidOK || !gidOK:
			rc.bad(cons, f.Pos(), "the created object's owner or group is not taken from vfs.User().Uid() / .Gid() of the view that creates it")
		case !modeOK:
			rc.bad(cons, f.Pos(), modeWhy)
		default:
			rc.good(cons, f.Pos(), "uid/gid from the view's current user; mode masked with the view's own umask")
		}
	}
}

// modeUsesViewUMask: the expression contains `x &^ recv.UMask()`.
func modeUsesViewUMask(v ssa.Value, recv ssa.Value) (bool, string) {
	found := false
	bad := ""
	why := "the stored mode is not of the form perm &^ vfs.UMask()"
	var walk func(v ssa.Value, d int)
	walk = func(v ssa.Value, d int) {
		if d > 8 || v == nil {
			return
		}
		switch x := v.(type) {
		case *ssa.BinOp:
			if x.Op == token.AND_NOT {
				c, _ := resultOfCall(x.Y)
				if c != nil && calleeFunc(c) != nil && calleeFunc(c).Name() == "UMask" {
					if r := callRecv(c); r != nil && rootAlloc(r) == recv {
						if fld := recvFieldIn(x.X, recv, 0); fld != "" {
							bad = "the umask is applied to the file system's own default bits (" + fld + ") as well as to the requested permission: on a file system whose defaults carry permission bits (a Windows-typed one: 0777 / 0666) the created object loses them, and other users are refused where the emulated system lets everyone in"
						}
						found = true
					} else {
						why = "the creation mask applied is not the umask of the view that creates the object (it is " + calleeFunc(c).FullName() + "): SetUMask on the view has no effect on created objects"
					}
				}
			}
			walk(x.X, d+1)
			walk(x.Y, d+1)
		case *ssa.Convert:
			walk(x.X, d+1)
		case *ssa.ChangeType:
			walk(x.X, d+1)
		}
	}
	walk(v, 0)
	if bad != "" {
		return false, bad
	}
	return found, why
}

// recvFieldIn: the expression reads a field of the receiver (through |, &, &^ and conversions): its name.
func recvFieldIn(v ssa.Value, recv ssa.Value, d int) string {
	if d > 8 || v == nil {
		return ""
	}
	switch x := v.(type) {
	case *ssa.BinOp:
		if s := recvFieldIn(x.X, recv, d+1); s != "" {
			return s
		}
		return recvFieldIn(x.Y, recv, d+1)
	case *ssa.Convert:
		return recvFieldIn(x.X, recv, d+1)
	case *ssa.ChangeType:
		return recvFieldIn(x.X, recv, d+1)
	case *ssa.UnOp:
		if x.Op == token.MUL {
			if fa, ok := x.X.(*ssa.FieldAddr); ok && rootAlloc(fa) == recv {
				return fieldName(fa.X.Type(), fa.Field)
			}
		}
	}
	return ""
}

// helperImplies: the fact is the boolean outcome of a call to a package-internal predicate; every path through that
// predicate that returns this outcome satisfies pred (on the predicate's own branch decisions).
func helperImplies(fa Fact, pred func([]Fact) bool) bool {
	v, truth := normCond(fa.Cond, fa.Truth)
	call, ok := v.(*ssa.Call)
	if !ok {
		return false
	}
	callee := call.Call.StaticCallee()
	if callee == nil || len(callee.Blocks) == 0 || callee.Pkg == nil || !strings.HasPrefix(callee.Pkg.Pkg.Path(), modPath) {
		return false
	}
	if callee.Signature.Results().Len() != 1 {
		return false
	}
	paths := evalPaths(callee, nil, 256)
	if len(paths) == 0 || len(paths) >= 256 {
		return false
	}
	matched := 0
	for _, p := range paths {
		conds := p.Conds
		rv, ok := evalOnPath(p.Ret.Results[0], p.Blocks, nil, 0)
		if !ok {
			// the returned value is a residual boolean expression on this path: the outcome taken by the caller adds it
			// as one more decision
			conds = append(append([]Fact(nil), conds...), Fact{valueOnPath(p.Ret.Results[0], p.Blocks), truth, nil})
		} else if rv.Kind() != constant.Bool || constant.BoolVal(rv) != truth {
			continue
		}
		matched++
		if !pred(conds) {
			return false
		}
	}
	return matched > 0
}
