package main

import (
	"fmt"
	"go/constant"
	"go/token"
	"go/types"
	"os"
	"sort"
	"strings"

	"golang.org/x/tools/go/ssa"
)

// C12 — FailFS is transparent unless told to fail, and an injected failure has no effect.

func init() {
	notDecided["C12"] = []string{
		"behavioural transparency of the pass-through beyond positional forwarding (argument values, results)",
		"that the base's primitives have no effect when they are not called (trivial) and full effect equivalence when they are",
		"composites of the base that FailFS forwards whole although the statement does not list them (MkdirAll, WalkDir, CreateTemp)",
	}
	register(&Rule{ID: "C12.consult", Floor: 43,
		Text: "every FailFS/FailFile method M for which the FnVFS enumeration has a constant Fn<M>/FnFile<M> consults the failure function with exactly that constant; every effectful action of M (base call not classified pure, helper call on the wrapper) is dominated by the nil branch of that consult, and the non-nil branch returns exactly the consulted error",
		Run:  c12Consult})
	register(&Rule{ID: "C12.ids", Floor: 43,
		Text: "every constant of avfs.FnVFS is consulted by the method it is named after (no primitive of the enumeration is unreachable for a failure plan)",
		Run:  c12Ids})
	register(&Rule{ID: "C12.escape", Floor: 40,
		Text: "no base file system or base file reaches a return operand or foreign code unless wrapped in FailFile{baseFile:..} / FailFS{baseFS:..}",
		Run:  func(rc *RuleCtx) { wrapperEscape(rc, "failfs", map[string]bool{"New": true}) }})
	register(&Rule{ID: "C12.composite", Floor: 6,
		Text: "the six composites named by the property (Create, WriteFile, ReadFile, ReadDir, Glob, MkdirTemp) are implemented by the generic avfs helper applied to the wrapper itself, never forwarded to the base's composite",
		Run:  c12Composite})
	register(&Rule{ID: "C12.forward", Floor: 60, Also: []string{"C16"}, AlsoOnly: map[string][]string{"C16": {").Chmod forwards"}}, AlsoFloor: map[string]int{"C16": 2},
		Text: "every FailFS/FailFile method that reaches the base forwards its own parameters positionally to the same-named base method (or avfs helper on the wrapper) and returns its results (OpenFile, CreateTemp, Sub: wrapped)",
		Run:  c12Forward})
	register(&Rule{ID: "C12.readonly", Floor: 20,
		Text: "ReadOnlyFunc, partially evaluated for each FnVFS constant, returns a non-nil error on every path for each primitive that forwards to a base method classified mutating, and for FnOpenFile returns nil only under Flag == O_RDONLY",
		Run:  c12ReadOnly})
}

type failType struct {
	typ, field, prefix string
	tbl                map[string]effEntry
}

var failTypes = []failType{{"FailFS", "baseFS", "Fn", vfsEffects}, {"FailFile", "baseFile", "FnFile", fileEffects}}

// fnVFSConsts returns name -> value of the avfs.FnVFS enumeration.
func fnVFSConsts(c *Config) map[string]constant.Value {
	out := map[string]constant.Value{}
	n := c.named("avfs", "FnVFS")
	if n == nil {
		return out
	}
	sc := n.Obj().Pkg().Scope()
	for _, nm := range sc.Names() {
		if k, ok := sc.Lookup(nm).(*types.Const); ok && types.Identical(k.Type(), n) {
			out[nm] = k.Val()
		}
	}
	return out
}

type consult struct {
	call *ssa.Call
	id   constant.Value
	name string
}

func consultsOf(c *Config, f *ssa.Function, ids map[string]constant.Value) []consult {
	var out []consult
	failFn := c.method("failfs", "FailFS", "fail")
	eachCall(f, func(ci ssa.CallInstruction) {
		call, ok := ci.(*ssa.Call)
		if !ok || failFn == nil {
			return
		}
		var idArg ssa.Value
		switch g := call.Call.StaticCallee(); {
		case g == failFn:
			if args := callArgs(call); len(args) >= 1 {
				idArg = args[0]
			}
		case g != nil && len(g.Blocks) > 0 && g.Pkg == f.Pkg && !isEntryPoint(g) && g.Signature.Results().Len() == 1 && isErrorType(g.Signature.Results().At(0).Type()):
			// an unexported helper that builds the parameters and returns the result of the consult made with the
			// function id it was given: the consult happens at this call, with the caller's id
			rets := returnsOf(g)
			if len(rets) != 1 {
				return
			}
			inner, isCall := strip(resolve1(rets[0].Results[0])).(*ssa.Call)
			if !isCall || inner.Call.StaticCallee() != failFn {
				return
			}
			ia := callArgs(inner)
			if len(ia) < 1 {
				return
			}
			if p, isP := strip(ia[0]).(*ssa.Parameter); isP {
				for i, gp := range g.Params {
					if gp == p && i < len(call.Call.Args) {
						idArg = call.Call.Args[i]
					}
				}
			}
		}
		if idArg == nil {
			return
		}
		k, _ := strip(idArg).(*ssa.Const)
		co := consult{call: call}
		if k != nil && k.Value != nil {
			co.id = k.Value
			for n, v := range ids {
				if constant.Compare(v, token.EQL, k.Value) {
					co.name = n
				}
			}
		}
		out = append(out, co)
	})
	return out
}

// actionsOf lists the effectful actions of a wrapper method: non-pure base calls and avfs helper calls on the wrapper.
type action struct {
	in   ssa.CallInstruction
	desc string
}

func actionsOf(f *ssa.Function) []action {
	var out []action
	for _, bc := range enumBaseCalls(f) {
		e, ok := bc.effect()
		if ok && e.e == effPure {
			continue
		}
		out = append(out, action{bc.Call, "base " + bc.Iface + "." + bc.Method})
	}
	eachCall(f, func(ci ssa.CallInstruction) {
		fn := calleeFunc(ci)
		if fn == nil || fn.Pkg() == nil || fn.Pkg().Path() != modPath || fn.Type().(*types.Signature).Recv() != nil {
			return
		}
		// generic helper avfs.X(vfs, ...)
		if len(ci.Common().Args) > 0 && len(f.Params) > 0 && strip(ci.Common().Args[0]) == ssa.Value(f.Params[0]) {
			out = append(out, action{ci, "helper avfs." + fn.Name()})
		}
	})
	return out
}

func c12Consult(rc *RuleCtx) {
	ids := fnVFSConsts(rc.C)
	if len(ids) == 0 {
		rc.anchor("avfs.FnVFS constants")
		return
	}
	for _, t := range failTypes {
		ms := rc.C.methodsOf("failfs", t.typ)
		if len(ms) == 0 {
			rc.anchor("failfs." + t.typ)
			continue
		}
		var names []string
		for n := range t.tbl {
			names = append(names, n)
		}
		sort.Strings(names)
		for _, name := range names {
			want := t.prefix + name
			wantVal, has := ids[want]
			f := ms[name]
			if !has || f == nil {
				continue // exempt by construction of the enumeration
			}
			cons := fmt.Sprintf("failfs.(*%s).%s consult %s", t.typ, name, want)
			cs := consultsOf(rc.C, f, ids)
			if len(cs) == 0 {
				rc.bad(cons, f.Pos(), "the method never consults the failure function although "+want+" is in the FnVFS enumeration")
				continue
			}
			if len(cs) > 1 {
				rc.bad(cons, f.Pos(), "more than one consult in one method")
				continue
			}
			co := cs[0]
			if co.id == nil || !constant.Compare(co.id, token.EQL, wantVal) {
				rc.bad(cons, co.call.Pos(), "the consult passes "+co.name+" instead of "+want)
				continue
			}
			// receiver of fail must be the wrapper itself (FailFS: receiver; FailFile: f.vfs)
			// every action dominated by consultErr == nil
			bad := ""
			for _, a := range actionsOf(f) {
				ok := false
				for _, fa := range factsAt(a.in.Block()) {
					if x, isNil, k := nilTest(fa); k && isNil && resolve1(x) == ssa.Value(co.call) {
						ok = true
					}
				}
				if !ok {
					bad = fmt.Sprintf("%s (%s) is not dominated by the nil branch of the consult: the base can be touched although the failure function said fail", a.desc, rc.C.pos(a.in.Pos()))
					break
				}
			}
			if bad != "" {
				rc.bad(cons, co.call.Pos(), bad)
				continue
			}
			// the non-nil branch returns exactly that error
			ei := errResultIndex(f.Signature)
			found := false
			for _, r := range returnsOf(f) {
				for _, fa := range factsAt(r.Block()) {
					if x, isNil, k := nilTest(fa); k && !isNil && resolve1(x) == ssa.Value(co.call) {
						found = true
						if ei < 0 || resolve1(r.Results[ei]) != ssa.Value(co.call) {
							bad = "on the failing branch the method does not return exactly the error of the failure function"
						}
					}
				}
			}
			if !found {
				bad = "the result of the consult is not tested: a failure is ignored"
			}
			if bad != "" {
				rc.bad(cons, co.call.Pos(), bad)
				continue
			}
			rc.good(cons, co.call.Pos(), fmt.Sprintf("consult(%s) dominates %d action(s); failing branch returns the consulted error", want, len(actionsOf(f))))
		}
	}
}

func c12Ids(rc *RuleCtx) {
	ids := fnVFSConsts(rc.C)
	if len(ids) == 0 {
		rc.anchor("avfs.FnVFS constants")
		return
	}
	var names []string
	for n := range ids {
		names = append(names, n)
	}
	sort.Strings(names)
	vfsM := rc.C.methodsOf("failfs", "FailFS")
	fileM := rc.C.methodsOf("failfs", "FailFile")
	n := rc.C.named("avfs", "FnVFS")
	for _, id := range names {
		cons := "avfs." + id + " reachable"
		var f *ssa.Function
		var where string
		if strings.HasPrefix(id, "FnFile") && fileM[strings.TrimPrefix(id, "FnFile")] != nil {
			f, where = fileM[strings.TrimPrefix(id, "FnFile")], "FailFile."+strings.TrimPrefix(id, "FnFile")
		} else if vfsM[strings.TrimPrefix(id, "Fn")] != nil {
			f, where = vfsM[strings.TrimPrefix(id, "Fn")], "FailFS."+strings.TrimPrefix(id, "Fn")
		}
		if f == nil {
			rc.bad(cons, n.Obj().Pos(), "no FailFS/FailFile method is named after this primitive: it can never be made to fail")
			continue
		}
		ok := false
		for _, co := range consultsOf(rc.C, f, ids) {
			if co.name == id {
				ok = true
			}
		}
		if ok {
			rc.good(cons, f.Pos(), "consulted by "+where)
		} else {
			rc.bad(cons, f.Pos(), where+" does not consult the failure function with "+id)
		}
	}
}

var c12Composites = []string{"Create", "WriteFile", "ReadFile", "ReadDir", "Glob", "MkdirTemp"}

func c12Composite(rc *RuleCtx) {
	ms := rc.C.methodsOf("failfs", "FailFS")
	for _, name := range c12Composites {
		cons := "failfs.(*FailFS)." + name + " built-over-wrapper"
		f := ms[name]
		if f == nil {
			rc.bad(cons, token.NoPos, "method missing")
			continue
		}
		bad := ""
		for _, bc := range enumBaseCalls(f) {
			e, _ := bc.effect()
			if e.e != effPure {
				bad = "forwards to the base's " + bc.Method + ": the primitives inside the composite are never consulted"
			}
		}
		helper := false
		eachCall(f, func(ci ssa.CallInstruction) {
			fn := calleeFunc(ci)
			if fn != nil && isPkgFunc(fn, modPath, name) && len(ci.Common().Args) > 0 && strip(ci.Common().Args[0]) == ssa.Value(f.Params[0]) {
				helper = true
			}
		})
		switch {
		case bad != "":
			rc.bad(cons, f.Pos(), bad)
		case !helper:
			rc.bad(cons, f.Pos(), "does not call the generic helper avfs."+name+" on the wrapper")
		default:
			rc.good(cons, f.Pos(), "avfs."+name+"(vfs, ...) over the wrapper: inner primitives go through FailFS")
		}
	}
}

func c12Forward(rc *RuleCtx) {
	wrapNames := map[string]bool{"OpenFile": true, "CreateTemp": true, "Sub": true}
	for _, t := range failTypes {
		ms := rc.C.methodsOf("failfs", t.typ)
		var names []string
		for n := range t.tbl {
			names = append(names, n)
		}
		sort.Strings(names)
		for _, name := range names {
			f := ms[name]
			if f == nil {
				continue
			}
			cons := fmt.Sprintf("failfs.(*%s).%s forwards", t.typ, name)
			// the main forward: base call of the same name, or helper avfs.<name>(recv, ...)
			var main ssa.CallInstruction
			kind := ""
			others := 0
			for _, bc := range enumBaseCalls(f) {
				e, _ := bc.effect()
				if bc.Method == name {
					main, kind = bc.Call, "base"
					if st, ok := loadOfField(bc.Recv, t.field); !ok || st != ssa.Value(f.Params[0]) {
						kind = "foreign"
					}
				} else if e.e != effPure {
					others++
				}
			}
			eachCall(f, func(ci ssa.CallInstruction) {
				fn := calleeFunc(ci)
				if fn != nil && isPkgFunc(fn, modPath, name) && len(ci.Common().Args) > 0 && strip(ci.Common().Args[0]) == ssa.Value(f.Params[0]) {
					main, kind = ci, "helper"
				}
			})
			if main == nil {
				if d := selfDelegate(f, t.typ); d != "" {
					rc.good(cons, f.Pos(), "delegates to the wrapper's own "+d)
				} else if others == 0 {
					rc.good(cons, f.Pos(), "answers locally")
				} else {
					rc.bad(cons, f.Pos(), "reaches the base through a differently named method")
				}
				continue
			}
			if kind == "foreign" {
				rc.bad(cons, main.Pos(), "forwards to an object that is not the wrapper's own "+t.field)
				continue
			}
			if others > 0 {
				rc.bad(cons, main.Pos(), "makes additional effectful base calls besides the forward")
				continue
			}
			// positional
			args := main.Common().Args
			if kind == "helper" {
				args = args[1:]
			}
			np := len(f.Params) - 1
			okPos := len(args) == np
			for i := 0; okPos && i < len(args); i++ {
				if paramIndex(f, args[i]) != i {
					okPos = false
				}
			}
			if !okPos {
				rc.bad(cons, main.Pos(), "the forwarded arguments are not the method's own parameters in order")
				continue
			}
			call, isCall := main.(*ssa.Call)
			if !isCall {
				rc.bad(cons, main.Pos(), "the forward is deferred")
				continue
			}
			if wrapNames[name] {
				rc.good(cons, main.Pos(), "positional forward; result wrapped (see C12.escape)")
				continue
			}
			if f.Signature.Results().Len() > 0 {
				if ok, why := returnsCallResults(f, call); !ok {
					rc.bad(cons, main.Pos(), why)
					continue
				}
			}
			rc.good(cons, main.Pos(), "positional "+kind+" forward returning its results")
		}
	}
}

func c12ReadOnly(rc *RuleCtx) {
	f := rc.C.fn("failfs", "ReadOnlyFunc")
	if f == nil {
		rc.anchor("failfs.ReadOnlyFunc")
		return
	}
	ids := fnVFSConsts(rc.C)
	if len(f.Params) < 3 {
		rc.anchor("parameters of failfs.ReadOnlyFunc")
		return
	}
	fnParam := f.Params[1]
	composite := map[string]bool{}
	for _, n := range c12Composites {
		composite["Fn"+n] = true
	}
	// required ids
	required := map[string]string{}
	for _, t := range failTypes {
		for name, e := range t.tbl {
			if e.e == effMutate {
				if _, has := ids[t.prefix+name]; has {
					required[t.prefix+name] = t.typ + "." + name + " forwards to a mutating method (" + e.reason + ")"
				}
			}
		}
	}
	var names []string
	for n := range ids {
		names = append(names, n)
	}
	sort.Strings(names)
	for _, id := range names {
		val := ids[id]
		env := func(v ssa.Value) (constant.Value, bool) {
			if v == ssa.Value(fnParam) {
				return val, true
			}
			return nil, false
		}
		paths := evalPaths(f, env, 64)
		allRefuse, anyNil := true, false
		var nilPaths []PathResult
		for _, p := range paths {
			leaves := errLeaves(rc.C, p.Ret.Results[0], 0)
			for _, l := range leaves {
				if !l.nonNil {
					allRefuse = false
					anyNil = true
					nilPaths = append(nilPaths, p)
				}
			}
		}
		_ = anyNil
		cons := "failfs.ReadOnlyFunc " + id
		if id == "FnOpenFile" {
			ok := len(paths) > 0
			why := ""
			for _, p := range nilPaths {
				if !pathImpliesFlagRDONLY(p) {
					ok = false
					why = "ReadOnlyFunc lets an OpenFile through on a path that does not establish Flag == O_RDONLY (O_CREATE, O_TRUNC and O_APPEND combined with O_RDONLY change the base)"
				}
			}
			if len(nilPaths) == len(paths) {
				ok, why = false, "ReadOnlyFunc never refuses OpenFile"
			}
			if ok {
				rc.good(cons, f.Pos(), "nil is returned only under Flag == O_RDONLY")
			} else {
				rc.bad(cons, f.Pos(), why)
			}
			continue
		}
		reason, req := required[id]
		if !req {
			continue
		}
		if composite[id] {
			// the method is built over the wrapper: its inner primitives are themselves required
			if allRefuse {
				rc.good(cons, f.Pos(), "refused (although the composite is built over refused primitives)")
			} else {
				rc.good(cons, f.Pos(), "let through, but the composite is implemented over the wrapper (C12.composite) and its mutating inner primitives are refused")
			}
			continue
		}
		if len(paths) == 0 {
			rc.bad(cons, f.Pos(), "no path through ReadOnlyFunc could be evaluated for this primitive")
		} else if allRefuse {
			rc.good(cons, f.Pos(), "refused on every path: "+reason)
		} else {
			rc.bad(cons, f.Pos(), "the read-only plan lets this primitive through although "+reason)
		}
	}
}

// pathImpliesFlagRDONLY: among the residual conditions of the path there is `<load of field Flag> == O_RDONLY`.
func pathImpliesFlagRDONLY(p PathResult) bool {
	for _, c := range p.Conds {
		v, truth := normCond(c.Cond, c.Truth)
		b, ok := v.(*ssa.BinOp)
		if !ok {
			continue
		}
		var fld, other ssa.Value
		if isFieldLoad(b.X, "Flag") {
			fld, other = b.X, b.Y
		} else if isFieldLoad(b.Y, "Flag") {
			fld, other = b.Y, b.X
		}
		if fld == nil {
			continue
		}
		k, isC := constInt(other)
		if !isC || k != int64(os.O_RDONLY) {
			continue
		}
		if (b.Op == token.EQL && truth) || (b.Op == token.NEQ && !truth) {
			return true
		}
	}
	return false
}

func isFieldLoad(v ssa.Value, field string) bool {
	u, ok := v.(*ssa.UnOp)
	if !ok || u.Op != token.MUL {
		return false
	}
	fa, ok := u.X.(*ssa.FieldAddr)
	return ok && fieldName(fa.X.Type(), fa.Field) == field
}
