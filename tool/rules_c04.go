package main

import (
	"fmt"
	"go/constant"
	"go/token"
	"go/types"
	"sort"

	"golang.org/x/tools/go/ssa"
)

// C04 — symbolic links resolve as the kernel resolves them (structural clauses).

func init() {
	notDecided["C04"] = []string{
		"the splice / restart arithmetic of PathIterator.ReplacePart (cursor positions after a relative or absolute target is spliced in)",
		"which object a given path reaches on a given link graph; the string returned by EvalSymlinks",
		"error selection for dangling links in intermediate position",
	}
	register(&Rule{ID: "C04.mode", Floor: 18,
		Text: "each exported MemFS method passes to the path walk, for each of its path arguments, the symlink mode the property states: follow (slmStat for Stat, which reports the link's own name; slmEval, which hands back the resolved path, for OpenFile, Chmod, Chown, Truncate, Mkdir, MkdirAll, EvalSymlinks, Sub, Chdir; no-follow (slmLstat) for Lstat, Readlink, Remove, RemoveAll, Rename (both), Lchown, Link (both), Symlink (new name), Chtimes is not judged",
		Also: []string{"C05", "C01"},
		Run:  c04Mode})
	register(&Rule{ID: "C04.budget", Floor: 1,
		Text: "the link-expansion loop is bounded: every splice of a link target (ReplacePart) is dominated by the not-exceeded branch of a counter that is incremented on each link and compared with a constant, whose exceeded branch returns TooManySymlinks; the constant is the kernel's MAXSYMLINKS = 40",
		Run:  c04Budget})
	register(&Rule{ID: "C04.follow", Floor: 2,
		Text: "the walk returns a symbolic link as the found node only in no-follow mode (slmLstat), and after an absolute link target it restarts from a root selected as the starting root was: the view's root, or the root of the volume that the new path names (looked up again in the volumes map after the splice) - not from a fixed root, and not from the volume of the link when the target names another one",
		Also: []string{"C17", "C11", "C01", "C14", "C05"},
		Run:  c04Follow})
	register(&Rule{ID: "C04.store", Floor: 2,
		Text: "Symlink stores Clean(oldname) as the link target and Readlink returns exactly that stored field",
		Run:  c04Store})
}

// expected mode per method and per path-parameter position (0-based among string parameters): true = follow.
var c04Expect = map[string][]string{
	"Stat": {"follow"}, "OpenFile": {"follow"}, "Chmod": {"follow"}, "Chown": {"follow"}, "Truncate": {"follow"},
	"Mkdir": {"follow"}, "MkdirAll": {"follow"}, "EvalSymlinks": {"follow"}, "Sub": {"follow"}, "Chdir": {"follow"},
	"Lstat": {"nofollow"}, "Readlink": {"nofollow"}, "Remove": {"nofollow"}, "RemoveAll": {"nofollow"},
	"Rename": {"nofollow", "nofollow"}, "Lchown": {"nofollow"}, "Link": {"nofollow", "nofollow"},
	"Symlink": {"-", "nofollow"}, // oldname is link content, not resolved
	"Chtimes": {"any"},           // not named by the property
}

func slModeConsts(c *Config) map[string]constant.Value {
	out := map[string]constant.Value{}
	p := c.pkg("memfs")
	if p == nil {
		return out
	}
	sc := p.Types.Scope()
	n := c.named("memfs", "slMode")
	for _, nm := range sc.Names() {
		if k, ok := sc.Lookup(nm).(*types.Const); ok && n != nil && types.Identical(k.Type(), n) {
			out[nm] = k.Val()
		}
	}
	return out
}

func c04Mode(rc *RuleCtx) {
	modes := slModeConsts(rc.C)
	if len(modes) < 3 {
		rc.anchor("memfs.slMode constants")
		return
	}
	search := rc.C.method("memfs", "MemFS", "searchNode")
	if search == nil {
		rc.anchor("memfs.(*MemFS).searchNode")
		return
	}
	ms := map[string]*ssa.Function{}
	for _, t := range []string{"MemFS", "MemIOFS"} {
		for n, f := range rc.C.methodsOf("memfs", t) {
			if isEntryPoint(f) {
				ms[t+"."+n] = f
			}
		}
	}
	var names []string
	for n := range ms {
		names = append(names, n)
	}
	sort.Strings(names)
	for _, n := range names {
		f := ms[n]
		eachCall(f, func(ci ssa.CallInstruction) {
			var args []ssa.Value
			switch sc := ci.Common().StaticCallee(); {
			case sc == search:
				args = callArgs(ci)
			case sc != nil && sc.Pkg == f.Pkg && !isEntryPoint(sc) && len(sc.Blocks) > 0:
				// an unexported helper that makes the walk for its caller: the path and the mode of the walk are what
				// the helper computes from the arguments of this call (its body is evaluated with them)
				pa, ma, ok := walkThroughHelper(sc, search, ci)
				if !ok {
					return
				}
				args = []ssa.Value{pa, ma}
			default:
				return
			}
			// which string parameter of f is walked?
			pidx := -1
			si := 0
			for i, p := range f.Params {
				if i == 0 {
					continue
				}
				if b, ok := p.Type().Underlying().(*types.Basic); ok && b.Kind() == types.String {
					if strip(args[0]) == ssa.Value(p) {
						pidx = si
					}
					si++
				}
			}
			cons := fmt.Sprintf("%s walk of path-arg#%d", funcName(f), pidx+1)
			mv, isC := strip(args[1]).(*ssa.Const)
			if !isC || mv.Value == nil {
				rc.bad(cons, ci.Pos(), "the symlink mode passed to the walk is not a constant")
				return
			}
			got := "?"
			for nm, v := range modes {
				if constant.Compare(v, token.EQL, mv.Value) {
					got = nm
				}
			}
			exp, listed := c04Expect[f.Name()]
			if !listed {
				rc.bad(cons, ci.Pos(), "method "+f.Name()+" walks a path but has no entry in the follow/no-follow table: the rule cannot judge it")
				return
			}
			if pidx < 0 || pidx >= len(exp) {
				rc.bad(cons, ci.Pos(), "the walked path is not one of the method's own path parameters")
				return
			}
			want := exp[pidx]
			ok := false
			switch want {
			case "follow":
				// slmStat follows a final link but hands back the iterator of the link itself (its name and path): only
				// Stat, which reports the link's own name, may use it; every other caller names or stores what the
				// iterator says after the walk and needs the resolved path (slmEval)
				if f.Name() == "Stat" {
					ok = got == "slmStat"
				} else {
					ok = got == "slmEval"
				}
			case "nofollow":
				ok = got == "slmLstat"
			case "any":
				ok = true
			}
			if ok {
				rc.good(cons, ci.Pos(), got+" ("+want+")")
			} else {
				rc.bad(cons, ci.Pos(), fmt.Sprintf("the walk is made in mode %s but the call must %s a symbolic link in final position", got, map[string]string{"follow": "follow", "nofollow": "act on (not follow)", "-": "not resolve"}[want]))
			}
		})
	}
}

func c04Budget(rc *RuleCtx) {
	f := rc.C.method("memfs", "MemFS", "searchNode")
	if f == nil {
		rc.anchor("memfs.(*MemFS).searchNode")
		return
	}
	n := 0
	eachCall(f, func(ci ssa.CallInstruction) {
		fn := calleeFunc(ci)
		if fn == nil || fn.Name() != "ReplacePart" {
			return
		}
		n++
		cons := fmt.Sprintf("%s splice#%d bounded", funcName(f), n)
		var limit int64 = -1
		okBound := false
		for _, fa := range factsAt(ci.Block()) {
			v, truth := normCond(fa.Cond, fa.Truth)
			b, ok := v.(*ssa.BinOp)
			if !ok || (b.Op != token.GTR && b.Op != token.GEQ) || truth {
				continue
			}
			k, isC := constInt(b.Y)
			if !isC {
				continue
			}
			// b.X must be an incremented counter: x + 1 where x is a phi / cell of the same counter
			inc, ok := strip(resolve1(b.X)).(*ssa.BinOp)
			if !ok || inc.Op != token.ADD {
				continue
			}
			if one, isC := constInt(inc.Y); !isC || one != 1 {
				continue
			}
			// the exceeded branch returns TooManySymlinks
			exceeded := fa.If.Block().Succs[0]
			retOK := false
			for _, in := range exceeded.Instrs {
				if st, ok := in.(*ssa.Store); ok {
					for _, l := range errLeaves(rc.C, st.Val, 0) {
						if l.name == "avfs.ErrTooManySymlinks" {
							retOK = true
						}
					}
				}
			}
			if !retOK {
				// the error may be read from vfs.err.TooManySymlinks
				for _, in := range exceeded.Instrs {
					if fa2, ok := in.(*ssa.FieldAddr); ok && fieldName(fa2.X.Type(), fa2.Field) == "TooManySymlinks" {
						retOK = true
					}
				}
			}
			if !retOK {
				continue
			}
			limit = k
			if b.Op == token.GEQ {
				limit = k - 1
			}
			okBound = true
		}
		switch {
		case !okBound:
			rc.bad(cons, ci.Pos(), "a link target is spliced into the path without a dominating `counter++ ; counter > limit -> TooManySymlinks`: a cyclic link graph makes the walk loop forever")
		case limit != 40:
			rc.bad(cons, ci.Pos(), fmt.Sprintf("the walk follows up to %d links where the kernel (MAXSYMLINKS) follows 40: chains between the two limits resolve here and fail with ELOOP on Linux (or the reverse)", limit))
		default:
			rc.good(cons, ci.Pos(), "counter incremented per link, compared with 40, exceeded branch returns TooManySymlinks")
		}
	})
	if n == 0 {
		rc.bad(funcName(f)+" splice bounded", f.Pos(), "no splice of a link target found in the walk")
	}
}

func c04Follow(rc *RuleCtx) {
	f := rc.C.method("memfs", "MemFS", "searchNode")
	modes := slModeConsts(rc.C)
	if f == nil || modes["slmLstat"] == nil {
		rc.anchor("memfs.(*MemFS).searchNode / slmLstat")
		return
	}
	modeParam := f.Params[2]
	// (a) a return inside the symlink case that reports "found" must be under slMode == slmLstat
	cons := funcName(f) + " link-returned-only-in-lstat-mode"
	bad := ""
	nFound := 0
	for _, r := range returnsOf(f) {
		inLink := false
		lstat := false
		for _, fa := range factsAt(r.Block()) {
			v, truth := normCond(fa.Cond, fa.Truth)
			if ex, ok := v.(*ssa.Extract); ok && ex.Index == 1 && truth {
				if ta, ok := ex.Tuple.(*ssa.TypeAssert); ok && typeStr(ta.AssertedType) == "*memfs.symlinkNode" {
					inLink = true
				}
			}
			if b, ok := v.(*ssa.BinOp); ok && strip(b.X) == ssa.Value(modeParam) {
				if k, ok := strip(b.Y).(*ssa.Const); ok && k.Value != nil && constant.Compare(k.Value, token.EQL, modes["slmLstat"]) {
					if (b.Op == token.EQL && truth) || (b.Op == token.NEQ && !truth) {
						lstat = true
					}
				}
			}
		}
		if !inLink {
			continue
		}
		// does this return report FileExists (found)?
		found := false
		for _, in := range r.Block().Instrs {
			if fa2, ok := in.(*ssa.FieldAddr); ok && fieldName(fa2.X.Type(), fa2.Field) == "FileExists" {
				found = true
			}
		}
		if !found {
			continue
		}
		nFound++
		if !lstat {
			bad = "the walk reports a symbolic link as the found node (" + rc.C.pos(r.Pos()) + ") outside no-follow mode: Stat/Open-like calls would act on the link itself"
		}
	}
	if bad != "" {
		rc.bad(cons, f.Pos(), bad)
	} else if nFound == 0 {
		rc.bad(cons, f.Pos(), "no return of a symbolic link in no-follow mode found: Lstat-like calls cannot see links")
	} else {
		rc.good(cons, f.Pos(), "a link is the found node only under slMode == slmLstat")
	}
	// (b) restart root
	cons = funcName(f) + " absolute-target-restarts-at-starting-root"
	var cell *ssa.Alloc
	for _, r := range returnsOf(f) {
		if al, ok := cellOf(r.Results[0]).(*ssa.Alloc); ok {
			cell = al
		}
	}
	if cell == nil {
		rc.bad(cons, f.Pos(), "cannot identify the walk cursor")
		return
	}
	// the initial store: the one not inside the loop (dominates the loop header) — take the store whose block dominates all others
	stores := storesTo(cell)
	var initial *ssa.Store
	for _, s := range stores {
		dom := true
		for _, t := range stores {
			if t != s && !domInstr(s, t) {
				dom = false
			}
		}
		if dom {
			initial = s
		}
	}
	var restart *ssa.Store
	for _, s := range stores {
		for _, fa := range factsAt(s.Block()) {
			if c, truth, ok := callFact(fa, "ReplacePart"); ok && truth && c != nil {
				restart = s
			}
		}
	}
	if initial == nil {
		rc.bad(cons, f.Pos(), "no initial assignment of the cursor dominates the walk")
		return
	}
	if restart == nil {
		rc.bad(cons, f.Pos(), "after ReplacePart reports a restart the cursor is not reset")
		return
	}
	var replaceCall *ssa.Call
	for _, fa := range factsAt(restart.Block()) {
		if c, truth, ok := callFact(fa, "ReplacePart"); ok && truth && c != nil {
			replaceCall = c
		}
	}
	isVolLookup := func(v ssa.Value) *ssa.Lookup {
		var l *ssa.Lookup
		switch x := v.(type) {
		case *ssa.Extract:
			l, _ = x.Tuple.(*ssa.Lookup)
		case *ssa.Lookup:
			l = x
		}
		if l == nil {
			return nil
		}
		if ld, ok := stripCT(l.X).(*ssa.UnOp); ok && ld.Op == token.MUL {
			if fa, ok := ld.X.(*ssa.FieldAddr); ok && fieldName(fa.X.Type(), fa.Field) == "volumes" {
				return l
			}
		}
		return nil
	}
	initO := map[string]bool{}
	initHasVol := false
	for _, o := range originsOf(initial.Val) {
		initO[sym(o)] = true
		if isVolLookup(o) != nil {
			initHasVol = true
		}
	}
	bad = ""
	reselected := false
	for _, o := range originsOf(restart.Val) {
		if l := isVolLookup(o); l != nil {
			if replaceCall != nil && domInstr(replaceCall, l) {
				reselected = true
			}
			continue
		}
		if !initO[sym(o)] {
			bad = "after an absolute link target the walk restarts from " + prettyVal(o, 0) + ", which is neither the root it started from nor the root of a volume looked up by name: on a file system with several roots (volumes, views) the link resolves in another tree"
		}
	}
	switch {
	case bad != "":
		rc.bad(cons, restart.Pos(), bad)
	case initHasVol && !reselected:
		rc.bad(cons, restart.Pos(), "the starting root is selected by the volume name of the path, but after an absolute link target - which can name another volume - the walk restarts without selecting the root again (no lookup of the volumes map after ReplacePart): a link to another volume resolves on the volume of the link")
	case initHasVol:
		rc.good(cons, restart.Pos(), "the root is selected again by the volume name of the new path; otherwise the root the walk started from")
	default:
		rc.good(cons, restart.Pos(), "restart value is the value the cursor started from ("+prettyVal(initial.Val, 0)+")")
	}
}

func c04Store(rc *RuleCtx) {
	// Symlink: createSymlink(parent, part, link) with link = Clean(oldname)
	if f := rc.C.method("memfs", "MemFS", "Symlink"); f == nil {
		rc.anchor("memfs.(*MemFS).Symlink")
	} else {
		cons := funcName(f) + " stores-cleaned-target"
		ok := false
		why := "Symlink does not create the link node through createSymlink"
		eachCall(f, func(ci ssa.CallInstruction) {
			if fn := calleeFunc(ci); fn != nil && nm(fn) == "createSymlink" {
				args := callArgs(ci)
				c, _ := resultOfCall(resolve1(args[len(args)-1]))
				if c != nil && calleeFunc(c) != nil && calleeFunc(c).Name() == "Clean" {
					ca := callArgs(c)
					if paramIndex(f, ca[len(ca)-1]) == 0 {
						ok = true
					} else {
						why = "the stored target is the Clean of something other than oldname"
					}
				} else {
					why = "the stored link target is not Clean(oldname)"
				}
			}
		})
		if ok {
			rc.good(cons, f.Pos(), "createSymlink(..., Clean(oldname))")
		} else {
			rc.bad(cons, f.Pos(), why)
		}
	}
	if f := rc.C.method("memfs", "MemFS", "createSymlink"); f != nil {
		cons := funcName(f) + " link-field"
		ok := false
		eachInstr(f, func(in ssa.Instruction) {
			if st, isSt := in.(*ssa.Store); isSt {
				if fa, isFA := st.Addr.(*ssa.FieldAddr); isFA && fieldName(fa.X.Type(), fa.Field) == "link" && paramIdxRaw(f, st.Val) == 3 {
					ok = true
				}
			}
		})
		if ok {
			rc.good(cons, f.Pos(), "the link parameter is stored unchanged in symlinkNode.link")
		} else {
			rc.bad(cons, f.Pos(), "createSymlink does not store its link parameter in the node")
		}
	}
	if f := rc.C.method("memfs", "MemFS", "Readlink"); f == nil {
		rc.anchor("memfs.(*MemFS).Readlink")
	} else {
		cons := funcName(f) + " returns-stored-target"
		ok := false
		for _, r := range returnsOf(f) {
			v := resolve1(r.Results[0])
			if isFieldLoad(v, "link") {
				ok = true
			} else if k, isC := v.(*ssa.Const); !isC || k.Value == nil || k.Value.ExactString() != `""` {
				ok = false
				break
			}
		}
		if ok {
			rc.good(cons, f.Pos(), "returns symlinkNode.link (or \"\" with an error)")
		} else {
			rc.bad(cons, f.Pos(), "Readlink returns something other than the stored target")
		}
	}
}

// walkThroughHelper: helper g calls the walk exactly once on every path that returns; the walk's path argument is one of
// g's parameters and its mode argument evaluates to one constant when g's parameters are bound to the constant
// arguments of the call `at`. Returns the caller's path argument and the mode constant.
func walkThroughHelper(g, search *ssa.Function, at ssa.CallInstruction) (pathArg, modeArg ssa.Value, ok bool) {
	var wc ssa.CallInstruction
	n := 0
	eachCall(g, func(ci ssa.CallInstruction) {
		if ci.Common().StaticCallee() == search {
			wc = ci
			n++
		}
	})
	if n != 1 {
		return nil, nil, false
	}
	wargs := callArgs(wc)
	if len(wargs) < 2 {
		return nil, nil, false
	}
	actual := at.Common().Args
	bind := func(v ssa.Value) ssa.Value {
		if p, isP := strip(v).(*ssa.Parameter); isP {
			for i, gp := range g.Params {
				if gp == p && i < len(actual) {
					return actual[i]
				}
			}
		}
		return nil
	}
	pathArg = bind(wargs[0])
	if pathArg == nil {
		return nil, nil, false
	}
	if k, isC := strip(wargs[1]).(*ssa.Const); isC {
		return pathArg, k, true
	}
	env := func(v ssa.Value) (constant.Value, bool) {
		if a := bind(v); a != nil {
			if k, isC := strip(a).(*ssa.Const); isC && k.Value != nil {
				return k.Value, true
			}
		}
		return nil, false
	}
	var mode *ssa.Const
	for _, p := range evalPaths(g, env, 512) {
		through := false
		for _, b := range p.Blocks {
			if b == wc.Block() {
				through = true
			}
		}
		if !through {
			continue
		}
		v := valueOnPath(wargs[1], p.Blocks)
		if a := bind(v); a != nil {
			v = a
		}
		k, isC := strip(v).(*ssa.Const)
		if !isC || k.Value == nil {
			return pathArg, wargs[1], true // not a constant: reported by the caller
		}
		if mode != nil && !constant.Compare(mode.Value, token.EQL, k.Value) {
			return pathArg, wargs[1], true
		}
		mode = k
	}
	if mode == nil {
		return nil, nil, false
	}
	return pathArg, mode, true
}
