package main

import (
	"fmt"
	"go/constant"
	"go/token"
	"go/types"
	"os"
	"sort"
	"strings"

	"golang.org/x/tools/go/ssa"
)

// C01 — emulated namespace operations behave as on Linux (structural clauses only).

func init() {
	notDecided["C01"] = []string{
		"which errno a call returns in which tree state; equality of the two trees after each call (all of the behavioural statement)",
		"createtemp / mkdirtemp naming; preconditions of Rename / Link / Remove beyond what C03, C05 and C06 decide",
		"OrefaFS resolves no symbolic links and checks no permissions (it advertises neither feature)",
	}
	register(&Rule{ID: "C01.errno", Floor: 40,
		Text: "avfs's Linux error numbers ARE Linux's: each avfs.LinuxError constant equals the same-meaning constant of package syscall for linux/amd64 (taken from this toolchain's GOROOT), and LinuxError.Is agrees with syscall.Errno.Is for every (errno, fs.ErrPermission | fs.ErrExist | fs.ErrNotExist) pair — both functions are partially evaluated from their source",
		Run:  c01Errno})
	register(&Rule{ID: "C01.flags", Floor: 12, Also: []string{"C02", "C03", "C16"}, AlsoOnly: map[string][]string{"C03": {"options imply OpenWrite"}, "C16": {"option bits follow their flags"}}, AlsoFloor: map[string]int{"C03": 1, "C16": 1},
		Text: "the open-flag decoder, evaluated from its source for all 48 combinations of an access mode (O_RDONLY, O_WRONLY, O_RDWR) with O_APPEND/O_CREATE/O_EXCL/O_TRUNC, sets OpenRead / OpenWrite as the access mode says, OpenAppend/OpenCreate/OpenTruncate iff the flag is present, OpenCreateExcl iff O_CREATE|O_EXCL, and never sets OpenTruncate, OpenAppend or OpenCreate without OpenWrite (the permission rules rely on it)",
		Run:  c01Flags})
	register(&Rule{ID: "C01.clean", Floor: 20,
		Text: "a path that is not lexically clean behaves as its Clean() form: no string parameter of an exported OrefaFS method reaches an index of the path map (directly or through an unexported helper) except through Abs / SplitAbs of it; MemFS indexes its directories only with parts produced by the path iterator over the absolute path",
		Also: []string{"C05", "C04"},
		Run:  c01Clean})
	register(&Rule{ID: "C01.last", Floor: 4, Also: []string{"C04", "C05"},
		Text: "an entry named after the element at which the walk stopped is created only when that element is the last one of the path (pi.IsLast()): a missing intermediate directory is ENOENT, never a creation under the wrong name (MkdirAll, which creates the intermediate directories, excepted)",
		Run:  c01Last})
}

var errnoTable = map[string]string{
	"ErrBadFileDesc": "EBADF", "ErrCrossDevLink": "EXDEV", "ErrDirNotEmpty": "ENOTEMPTY", "ErrFileExists": "EEXIST",
	"ErrInvalidArgument": "EINVAL", "ErrIsADirectory": "EISDIR", "ErrNoSuchFileOrDir": "ENOENT", "ErrNotADirectory": "ENOTDIR",
	"ErrOpNotPermitted": "EPERM", "ErrPermDenied": "EACCES", "ErrTooManySymlinks": "ELOOP",
}

// evalOnPath evaluates v to a constant along a concrete block path (phis resolved by the path).
func evalOnPath(v ssa.Value, blocks []*ssa.BasicBlock, env func(ssa.Value) (constant.Value, bool), depth int) (constant.Value, bool) {
	if depth > 40 || v == nil {
		return nil, false
	}
	if env != nil {
		if c, ok := env(v); ok {
			return c, true
		}
	}
	switch x := v.(type) {
	case *ssa.Const:
		if x.Value != nil {
			return x.Value, true
		}
	case *ssa.Phi:
		if e := phiOnPath(x, blocks); e != nil {
			return evalOnPath(e, blocks, env, depth+1)
		}
	case *ssa.ChangeType:
		return evalOnPath(x.X, blocks, env, depth+1)
	case *ssa.Convert:
		return evalOnPath(x.X, blocks, env, depth+1)
	case *ssa.UnOp:
		if x.Op == token.NOT {
			if c, ok := evalOnPath(x.X, blocks, env, depth+1); ok && c.Kind() == constant.Bool {
				return constant.MakeBool(!constant.BoolVal(c)), true
			}
		}
	case *ssa.BinOp:
		a, ok1 := evalOnPath(x.X, blocks, env, depth+1)
		b, ok2 := evalOnPath(x.Y, blocks, env, depth+1)
		if ok1 && ok2 {
			switch x.Op {
			case token.EQL, token.NEQ, token.LSS, token.LEQ, token.GTR, token.GEQ:
				return constant.MakeBool(constant.Compare(a, x.Op, b)), true
			case token.AND, token.OR, token.XOR, token.AND_NOT, token.ADD, token.SUB:
				if a.Kind() == constant.Int && b.Kind() == constant.Int {
					return constant.BinaryOp(a, x.Op, b), true
				}
			}
		}
	}
	return nil, false
}

// evalBoolFunc fully evaluates a loop-free function returning one value, under env. ok=false when a branch or the
// result cannot be evaluated.
func evalFunc(f *ssa.Function, env func(ssa.Value) (constant.Value, bool)) (constant.Value, bool) {
	if f == nil || len(f.Blocks) == 0 {
		return nil, false
	}
	b := f.Blocks[0]
	var blocks []*ssa.BasicBlock
	for steps := 0; steps < 500; steps++ {
		blocks = append(blocks, b)
		switch x := b.Instrs[len(b.Instrs)-1].(type) {
		case *ssa.Return:
			return evalOnPath(x.Results[0], blocks, env, 0)
		case *ssa.Jump:
			b = b.Succs[0]
		case *ssa.If:
			c, ok := evalOnPath(x.Cond, blocks, env, 0)
			if !ok || c.Kind() != constant.Bool {
				return nil, false
			}
			if constant.BoolVal(c) {
				b = b.Succs[0]
			} else {
				b = b.Succs[1]
			}
		default:
			return nil, false
		}
	}
	return nil, false
}

func c01Errno(rc *RuleCtx) {
	avfsP := rc.C.pkg("avfs")
	sysP := rc.C.Pkgs["syscall"]
	if avfsP == nil || sysP == nil || sysP.Types == nil {
		rc.anchor("packages avfs / syscall")
		return
	}
	var names []string
	for n := range errnoTable {
		names = append(names, n)
	}
	sort.Strings(names)
	// totality: every LinuxError constant has a table entry
	lt := rc.C.named("avfs", "LinuxError")
	sc := avfsP.Types.Scope()
	for _, nm := range sc.Names() {
		if k, ok := sc.Lookup(nm).(*types.Const); ok && lt != nil && types.Identical(k.Type(), lt) {
			if _, listed := errnoTable[nm]; !listed {
				rc.bad("avfs."+nm+" = syscall.?", k.Pos(), "a LinuxError constant without a counterpart in the errno table: the rule cannot judge it")
			}
		}
	}
	vals := map[string]constant.Value{}
	for _, n := range names {
		cons := "avfs." + n + " = syscall." + errnoTable[n]
		a, ok1 := sc.Lookup(n).(*types.Const)
		s, ok2 := sysP.Types.Scope().Lookup(errnoTable[n]).(*types.Const)
		if !ok1 || !ok2 {
			rc.bad(cons, token.NoPos, "constant not found")
			continue
		}
		vals[n] = a.Val()
		if constant.Compare(a.Val(), token.EQL, s.Val()) {
			rc.good(cons, a.Pos(), "both "+a.Val().ExactString())
		} else {
			rc.bad(cons, a.Pos(), fmt.Sprintf("avfs uses %s where Linux uses %s: a refusal carries a different errno than the kernel's", a.Val().ExactString(), s.Val().ExactString()))
		}
	}
	// Is tables
	aIs := rc.C.method("avfs", "LinuxError", "Is")
	var sIs *ssa.Function
	if sp := rc.C.Prog.ImportedPackage("syscall"); sp != nil {
		if en, ok := sp.Pkg.Scope().Lookup("Errno").(*types.TypeName); ok {
			if sel := rc.C.Prog.MethodSets.MethodSet(en.Type()).Lookup(sp.Pkg, "Is"); sel != nil {
				sIs = rc.C.Prog.MethodValue(sel)
			}
		}
	}
	if aIs == nil || sIs == nil || len(aIs.Blocks) == 0 || len(sIs.Blocks) == 0 {
		rc.anchor("avfs.LinuxError.Is / syscall.Errno.Is bodies")
		return
	}
	targets := []string{"ErrPermission", "ErrExist", "ErrNotExist"}
	mkEnv := func(f *ssa.Function, errno constant.Value, target string) func(ssa.Value) (constant.Value, bool) {
		return func(v ssa.Value) (constant.Value, bool) {
			if v == ssa.Value(f.Params[0]) {
				return errno, true
			}
			// target == <global error>
			if b, ok := v.(*ssa.BinOp); ok && (b.Op == token.EQL || b.Op == token.NEQ) {
				var g *ssa.Global
				other := b.Y
				if b.X == ssa.Value(f.Params[1]) {
					other = b.Y
				} else if b.Y == ssa.Value(f.Params[1]) {
					other = b.X
				} else {
					return nil, false
				}
				if ld, ok := other.(*ssa.UnOp); ok && ld.Op == token.MUL {
					g, _ = ld.X.(*ssa.Global)
				}
				if g == nil {
					return nil, false
				}
				eq := g.Name() == target
				if b.Op == token.NEQ {
					eq = !eq
				}
				return constant.MakeBool(eq), true
			}
			return nil, false
		}
	}
	for _, n := range names {
		for _, t := range targets {
			cons := fmt.Sprintf("avfs.%s.Is(fs.%s) = syscall.%s.Is(...)", n, t, errnoTable[n])
			av, ok1 := evalFunc(aIs, mkEnv(aIs, vals[n], t))
			sv, ok2 := evalFunc(sIs, mkEnv(sIs, vals[n], t))
			switch {
			case !ok1 || !ok2:
				rc.bad(cons, aIs.Pos(), fmt.Sprintf("could not evaluate (avfs ok=%v, syscall ok=%v)", ok1, ok2))
			case constant.BoolVal(av) != constant.BoolVal(sv):
				rc.bad(cons, aIs.Pos(), fmt.Sprintf("errors.Is(%s, fs.%s) is %v for avfs but %v for the kernel's errno: portable code that tests the error class takes the other branch", n, t, constant.BoolVal(av), constant.BoolVal(sv)))
			default:
				rc.good(cons, aIs.Pos(), fmt.Sprintf("both %v", constant.BoolVal(av)))
			}
		}
	}
}

func c01Flags(rc *RuleCtx) {
	f := rc.C.fn("avfs", "ToOpenMode")
	if f == nil || len(f.Blocks) == 0 {
		rc.anchor("avfs.ToOpenMode")
		return
	}
	bit := func(n string) int64 { return openModeBit(rc.C, n) }
	R, W, A, C, X, T := bit("OpenRead"), bit("OpenWrite"), bit("OpenAppend"), bit("OpenCreate"), bit("OpenCreateExcl"), bit("OpenTruncate")
	if R < 0 || W < 0 || A < 0 || C < 0 || X < 0 || T < 0 {
		rc.anchor("avfs.OpenMode constants")
		return
	}
	accs := []struct {
		name string
		v    int
	}{{"O_RDONLY", os.O_RDONLY}, {"O_WRONLY", os.O_WRONLY}, {"O_RDWR", os.O_RDWR}}
	opts := []struct {
		name string
		v    int
	}{{"O_APPEND", os.O_APPEND}, {"O_CREATE", os.O_CREATE}, {"O_EXCL", os.O_EXCL}, {"O_TRUNC", os.O_TRUNC}}
	for _, acc := range accs {
		clauses := map[string][]string{"readable": nil, "writable": nil, "option bits follow their flags": nil, "options imply OpenWrite": nil}
		evaluated := 0
		for m := 0; m < 16; m++ {
			flag := acc.v
			name := acc.name
			for i, o := range opts {
				if m&(1<<i) != 0 {
					flag |= o.v
					name += "|" + o.name
				}
			}
			fv := constant.MakeInt64(int64(flag))
			res, ok := evalFunc(f, func(v ssa.Value) (constant.Value, bool) {
				if v == ssa.Value(f.Params[0]) {
					return fv, true
				}
				return nil, false
			})
			if !ok {
				clauses["readable"] = append(clauses["readable"], name+": not evaluable")
				continue
			}
			evaluated++
			om, _ := constant.Int64Val(res)
			has := func(b int64) bool { return om&b == b }
			wantR := acc.v == os.O_RDONLY || acc.v == os.O_RDWR
			wantW := acc.v == os.O_WRONLY || acc.v == os.O_RDWR
			if wantR != has(R) {
				clauses["readable"] = append(clauses["readable"], fmt.Sprintf("%s -> %#o", name, om))
			}
			if wantW && !has(W) {
				clauses["writable"] = append(clauses["writable"], fmt.Sprintf("%s -> %#o", name, om))
			}
			for _, p := range []struct {
				os int
				b  int64
				nm string
			}{{os.O_APPEND, A, "OpenAppend"}, {os.O_CREATE, C, "OpenCreate"}, {os.O_TRUNC, T, "OpenTruncate"}} {
				if (flag&p.os != 0) != has(p.b) && !(acc.v == os.O_RDONLY && m == 0) {
					clauses["option bits follow their flags"] = append(clauses["option bits follow their flags"], fmt.Sprintf("%s: %s", name, p.nm))
				}
				if has(p.b) && !has(W) {
					clauses["options imply OpenWrite"] = append(clauses["options imply OpenWrite"], fmt.Sprintf("%s: %s without OpenWrite", name, p.nm))
				}
			}
			if (flag&(os.O_CREATE|os.O_EXCL) == os.O_CREATE|os.O_EXCL) != has(X) {
				clauses["option bits follow their flags"] = append(clauses["option bits follow their flags"], name+": OpenCreateExcl")
			}
		}
		var cn []string
		for c := range clauses {
			cn = append(cn, c)
		}
		sort.Strings(cn)
		for _, c := range cn {
			cons := fmt.Sprintf("avfs.ToOpenMode(%s|*) %s", acc.name, c)
			if len(clauses[c]) == 0 {
				rc.good(cons, f.Pos(), fmt.Sprintf("holds for all %d combinations of O_APPEND, O_CREATE, O_EXCL, O_TRUNC", evaluated))
			} else {
				msg := map[string]string{
					"readable":                       "the decoded mode is not readable exactly when the access mode says so",
					"writable":                       "the decoded mode is not writable although the access mode is write",
					"option bits follow their flags": "an option bit does not follow its flag",
					"options imply OpenWrite":        "an option that changes the file is decoded without OpenWrite, so the permission check made with the decoded mode does not require write permission",
				}[c]
				rc.bad(cons, f.Pos(), msg+": "+strings.Join(clauses[c], "; "))
			}
		}
	}
}

// ---- C01.clean: taint of raw path parameters ----

// rawParamReaches: value v is computed from a string parameter of f without passing through a sanitiser call.
func taintedBy(f *ssa.Function, v ssa.Value, depth int, seen map[ssa.Value]bool) (*ssa.Parameter, bool) {
	if v == nil || depth > 12 || seen[v] {
		return nil, false
	}
	seen[v] = true
	switch x := v.(type) {
	case *ssa.Parameter:
		if b, ok := x.Type().Underlying().(*types.Basic); ok && b.Kind() == types.String {
			return x, true
		}
	case *ssa.Call:
		fn := calleeFunc(x)
		if fn != nil {
			switch nm(fn) {
			case "Abs", "Clean", "Join":
				return nil, false // sanitisers
			case "SplitAbs", "Split", "Dir", "Base":
				for _, a := range callArgs(x) {
					if p, t := taintedBy(f, a, depth+1, seen); t {
						return p, true
					}
				}
				return nil, false
			}
		}
		return nil, false
	case *ssa.Extract:
		return taintedBy(f, x.Tuple, depth+1, seen)
	case *ssa.BinOp:
		if p, t := taintedBy(f, x.X, depth+1, seen); t {
			return p, true
		}
		return taintedBy(f, x.Y, depth+1, seen)
	case *ssa.Slice:
		return taintedBy(f, x.X, depth+1, seen)
	case *ssa.Phi:
		for _, e := range x.Edges {
			if p, t := taintedBy(f, e, depth+1, seen); t {
				return p, true
			}
		}
	case *ssa.UnOp:
		if x.Op == token.MUL {
			if al, ok := x.X.(*ssa.Alloc); ok {
				for _, st := range storesTo(al) {
					if p, t := taintedBy(f, st.Val, depth+1, seen); t {
						return p, true
					}
				}
			}
		}
	case *ssa.ChangeType:
		return taintedBy(f, x.X, depth+1, seen)
	case *ssa.Convert:
		return taintedBy(f, x.X, depth+1, seen)
	}
	return nil, false
}

func c01Clean(rc *RuleCtx) {
	// sink summaries: parameters of unexported orefafs functions that flow into an index of `nodes`
	funcs := rc.C.srcFuncs("orefafs")
	sinkParams := map[*ssa.Function]map[int]bool{}
	nodesIndexKeys := func(f *ssa.Function) []struct {
		in  ssa.Instruction
		key ssa.Value
	} {
		var out []struct {
			in  ssa.Instruction
			key ssa.Value
		}
		isNodes := func(m ssa.Value) bool {
			ld, ok := stripCT(m).(*ssa.UnOp)
			if !ok || ld.Op != token.MUL {
				return false
			}
			fa, ok := ld.X.(*ssa.FieldAddr)
			return ok && fieldName(fa.X.Type(), fa.Field) == "nodes"
		}
		eachInstr(f, func(in ssa.Instruction) {
			switch x := in.(type) {
			case *ssa.Lookup:
				if isNodes(x.X) {
					out = append(out, struct {
						in  ssa.Instruction
						key ssa.Value
					}{x, x.Index})
				}
			case *ssa.MapUpdate:
				if isNodes(x.Map) {
					out = append(out, struct {
						in  ssa.Instruction
						key ssa.Value
					}{x, x.Key})
				}
			case *ssa.Call:
				if b, ok := x.Call.Value.(*ssa.Builtin); ok && nm(b) == "delete" && len(x.Call.Args) == 2 && isNodes(x.Call.Args[0]) {
					out = append(out, struct {
						in  ssa.Instruction
						key ssa.Value
					}{x, x.Call.Args[1]})
				}
			}
		})
		return out
	}
	for round := 0; round < 4; round++ {
		for _, f := range funcs {
			if isEntryPoint(f) || f.Parent() != nil {
				continue
			}
			mark := func(v ssa.Value) {
				if p, t := taintedBy(f, v, 0, map[ssa.Value]bool{}); t {
					if sinkParams[f] == nil {
						sinkParams[f] = map[int]bool{}
					}
					sinkParams[f][paramIdxRaw(f, p)] = true
				}
			}
			for _, k := range nodesIndexKeys(f) {
				mark(k.key)
			}
			eachCall(f, func(ci ssa.CallInstruction) {
				if sc := ci.Common().StaticCallee(); sc != nil {
					for i := range sinkParams[sc] {
						if i < len(ci.Common().Args) {
							mark(ci.Common().Args[i])
						}
					}
				}
			})
		}
	}
	for _, f := range funcs {
		if !isEntryPoint(f) || f.Signature.Recv() == nil {
			continue
		}
		if n := namedOf(f.Signature.Recv().Type()); n == nil || n.Obj().Name() != "OrefaFS" {
			continue
		}
		seq := 0
		check := func(in ssa.Instruction, key ssa.Value, what string) {
			seq++
			cons := fmt.Sprintf("%s %s#%d", funcName(f), what, seq)
			if p, t := taintedBy(f, key, 0, map[ssa.Value]bool{}); t {
				rc.bad(cons, in.Pos(), "the caller's path "+p.Name()+" reaches the path index without being made absolute and cleaned (Abs): a relative or unclean path names a different key than its Clean() form")
			} else {
				rc.good(cons, in.Pos(), "the key derives from Abs(...) of the argument")
			}
		}
		for _, k := range nodesIndexKeys(f) {
			check(k.in, k.key, "index of nodes")
		}
		eachCall(f, func(ci ssa.CallInstruction) {
			if sc := ci.Common().StaticCallee(); sc != nil {
				var idxs []int
				for i := range sinkParams[sc] {
					idxs = append(idxs, i)
				}
				sort.Ints(idxs)
				for _, i := range idxs {
					if i < len(ci.Common().Args) {
						check(ci, ci.Common().Args[i], "path passed to "+sc.Name())
					}
				}
			}
		})
	}
	// MemFS: every index of a children map uses a value produced by PathIterator.Part(), a range key, or a parameter of
	// an unexported helper
	for _, f := range rc.C.srcFuncs("memfs") {
		seq := 0
		eachInstr(f, func(in ssa.Instruction) {
			lk, ok := in.(*ssa.Lookup)
			if !ok {
				return
			}
			ld, ok := stripCT(lk.X).(*ssa.UnOp)
			if !ok || ld.Op != token.MUL {
				return
			}
			fa, ok := ld.X.(*ssa.FieldAddr)
			if !ok || fieldName(fa.X.Type(), fa.Field) != "children" {
				return
			}
			seq++
			cons := fmt.Sprintf("%s index of children#%d", funcName(f), seq)
			k := resolve1(lk.Index)
			c, _ := resultOfCall(k)
			switch {
			case c != nil && calleeFunc(c) != nil && calleeFunc(c).Name() == "Part":
				rc.good(cons, lk.Pos(), "key is PathIterator.Part() of the absolute path")
			case !isEntryPoint(f) && paramIdxRaw(f, k) >= 0:
				rc.good(cons, lk.Pos(), "key is a parameter of an unexported helper")
			default:
				if p, t := taintedBy(f, k, 0, map[ssa.Value]bool{}); t && isEntryPoint(f) {
					rc.bad(cons, lk.Pos(), "a directory is indexed with the caller's raw string "+p.Name())
				} else {
					rc.good(cons, lk.Pos(), "key does not derive from a raw path parameter")
				}
			}
		})
	}
}

func c01Last(rc *RuleCtx) {
	a := lockAnalysisFor(rc.C)
	prims := computeMapPrims(rc.C, a, map[string]bool{"memfs": true})
	for _, f := range rc.C.srcFuncs("memfs") {
		if !isEntryPoint(f) || f.Signature.Recv() == nil || f.Name() == "MkdirAll" {
			continue
		}
		if n := namedOf(f.Signature.Recv().Type()); n == nil || n.Obj().Name() != "MemFS" {
			continue
		}
		seq := 0
		eachCall(f, func(ci ssa.CallInstruction) {
			args := ci.Common().Args
			for _, callee := range a.calleesOf(ci) {
				if isEntryPoint(callee) {
					continue
				}
				for _, p := range prims[callee] {
					if p.del || p.mapField != "children" || p.keyParam < 0 || p.keyParam >= len(args) {
						continue
					}
					key := resolve1(args[p.keyParam])
					pc, _ := resultOfCall(key)
					if pc == nil || calleeFunc(pc) == nil || calleeFunc(pc).Name() != "Part" {
						if objKeyOf(args[p.objParam]).fresh {
							continue
						}
						seq++
						rc.bad(fmt.Sprintf("%s create %s#%d", funcName(f), prettyVal(key, 0), seq), ci.Pos(),
							"an entry is created in the directory where the walk stopped under a name that is not the walk iterator's current part ("+prettyVal(key, 0)+"): when symbolic links were followed, the element where the walk stopped is not the last element of the caller's string")
						continue
					}
					iter := callRecv(pc)
					seq++
					cons := fmt.Sprintf("%s create %s.Part()#%d", funcName(f), prettyVal(iter, 0), seq)
					paths, complete := pathsTo(f, ci, 4000)
					bad := !complete
					// the error result of the walk that produced the iterator
					var walkErr ssa.Value
					if e, isE := stripToExtract(resolve1(iter)); isE {
						for _, u := range referrersOf(e.Tuple) {
							if e2, ok := u.(*ssa.Extract); ok && isErrorType(e2.Type()) {
								walkErr = e2
							}
						}
					}
					for _, pth := range paths {
						if !feasiblePath(pth) {
							continue
						}
						ok := false
						for _, fa := range pth {
							if c, truth, k := callFact(fa, "IsLast"); k && truth && sameValue(callRecv(c), iter) {
								ok = true
							}
							// the walk reported "found": it consumed the whole path, its iterator stands on the last element
							v, truth := normCond(fa.Cond, fa.Truth)
							if b, isB := v.(*ssa.BinOp); isB && walkErr != nil && ((b.Op == token.EQL && truth) || (b.Op == token.NEQ && !truth)) {
								if (resolve1(b.X) == walkErr && isFieldLoad(b.Y, "FileExists")) || (resolve1(b.Y) == walkErr && isFieldLoad(b.X, "FileExists")) {
									ok = true
								}
							}
						}
						if !ok {
							bad = true
						}
					}
					if bad {
						rc.bad(cons, ci.Pos(), "an entry named after the element where the walk stopped is created on a path that has not established that it is the last element of the path: for a destination whose parent directory is missing, the first missing element is created instead of failing with ENOENT")
					} else {
						rc.good(cons, ci.Pos(), fmt.Sprintf("IsLast() established on all %d paths", len(paths)))
					}
				}
			}
		})
	}
}
