package main

import (
	"fmt"
	"go/token"
	"go/types"
	"strings"

	"golang.org/x/tools/go/ssa"
)

// C10 — BasePathFS confines all access to its base directory and acts as a chroot.

func init() {
	notDecided["C10"] = []string{
		"call-by-call equivalence with a standalone file system holding B's content",
		"symbolic links already present in the base that point outside B (BasePathFS itself refuses Symlink/Readlink/EvalSymlinks)",
		"contents of error strings beyond the translated Path/Old/New fields",
	}
	register(&Rule{ID: "C10.in", Floor: 18,
		Text: "every string argument of every call on the base file system is the direct result of ToBasePath applied to a parameter of the enclosing method (table of non-path string parameters: user name, temp-name pattern), and the base is never handed to a generic helper",
		Run:  c10In})
	register(&Rule{ID: "C10.out", Floor: 28,
		Text: "every path the base returns (Getwd, Abs, Glob, File.Name, ...) passes through FromBasePath before it is returned, and every error through FromPathError (FromLinkError for Link/Rename/Symlink, which are documented to return *LinkError)",
		Run:  c10Out})
	register(&Rule{ID: "C10.confine", Floor: 2,
		Text: "every value ToBasePath can return is the base path itself or the base path joined with the OS-aware Clean of a rooted (IsAbs) virtual path, so that '..' elements are clamped at the virtual root; never the unmodified parameter",
		Run:  c10Confine})
	register(&Rule{ID: "C10.prefix", Floor: 1, Also: []string{"C14", "C07"},
		Text: "the stored base path prefix is the absolute, cleaned form computed by the base file system (result of baseFS.Abs), so that prefix tests and prefix stripping agree with the paths the base returns",
		Run:  c10Prefix})
	register(&Rule{ID: "C10.total", Floor: 4,
		Text: "FromBasePath panics on a path outside the base: every call of it is dominated by a HasPrefix(path, basePath) test on the same argument (as fromErrorPath does)",
		Also: []string{"C07"},
		Run:  c10Total})
	register(&Rule{ID: "C10.escape", Floor: 2,
		Text: "no base file reaches a caller unwrapped (BasePathFile{baseFile:..}); exceptions by contract: a file returned together with its own non-nil error, and the base's Sub view, which is itself rooted below the base path",
		Run:  c10Escape})
}

// non-path string parameters of base methods: method -> arg index -> reason
var c10NonPath = map[string]map[int]string{
	"SetUserByName": {0: "a user name"},
	"CreateTemp":    {1: "temp-name pattern, a single element"},
	"MkdirTemp":     {1: "temp-name prefix, a single element"},
	"Match":         {0: "pattern matched lexically", 1: "name matched lexically"},
	"Symlink":       {0: "link content, stored verbatim"},
}

// path-valued string results of base methods (result index)
var c10PathResults = map[string]map[string]int{
	"VFS":  {"Abs": 0, "EvalSymlinks": 0, "Getwd": 0, "Glob": 0, "MkdirTemp": 0, "Readlink": 0, "TempDir": 0},
	"File": {"Name": 0},
}

var c10LinkErr = map[string]bool{"Link": true, "Rename": true, "Symlink": true}

func bpMethod(rc *RuleCtx, name string) *ssa.Function {
	return rc.C.method("basepathfs", "BasePathFS", name)
}

// isCallTo: v is the result (or result #idx) of a static call to target; returns the call.
func isCallTo(v ssa.Value, target *ssa.Function) *ssa.Call {
	c, _ := resultOfCall(v)
	call, ok := c.(*ssa.Call)
	if !ok || target == nil || call.Call.StaticCallee() != target {
		return nil
	}
	return call
}

func c10In(rc *RuleCtx) {
	toBase := bpMethod(rc, "ToBasePath")
	if toBase == nil {
		rc.anchor("basepathfs.(*BasePathFS).ToBasePath")
		return
	}
	for _, f := range rc.C.srcFuncs("basepathfs") {
		if f == toBase || f.Name() == "NewWithErr" || f.Name() == "New" {
			continue // the constructor works on base paths by definition
		}
		seq := map[string]int{}
		for _, bc := range enumBaseCalls(f) {
			if bc.isFile() {
				continue
			}
			args := callArgs(bc.Call)
			for i, a := range args {
				if b, ok := a.Type().Underlying().(*types.Basic); !ok || b.Kind() != types.String {
					continue
				}
				k := fmt.Sprintf("%s arg%d", bc.Method, i)
				seq[k]++
				cons := fmt.Sprintf("%s base %s#%d", funcName(f), k, seq[k])
				if why, ok := c10NonPath[bc.Method][i]; ok {
					rc.good(cons, bc.Call.Pos(), "not a path: "+why)
					continue
				}
				tc := isCallTo(a, toBase)
				if tc == nil {
					rc.bad(cons, bc.Call.Pos(), "a path reaches the base file system without passing through ToBasePath ("+accessPath(a)+")")
					continue
				}
				targs := callArgs(tc)
				if len(targs) != 1 || paramIndex(f, targs[0]) < 0 {
					rc.bad(cons, bc.Call.Pos(), "ToBasePath is not applied directly to a parameter of the method")
					continue
				}
				rc.good(cons, bc.Call.Pos(), "ToBasePath("+accessPath(targs[0])+")")
			}
		}
	}
}

func c10Out(rc *RuleCtx) {
	fromBase := bpMethod(rc, "FromBasePath")
	fromPE := bpMethod(rc, "FromPathError")
	fromLE := bpMethod(rc, "FromLinkError")
	if fromBase == nil || fromPE == nil || fromLE == nil {
		rc.anchor("basepathfs FromBasePath/FromPathError/FromLinkError")
		return
	}
	for _, f := range rc.C.srcFuncs("basepathfs") {
		if f.Name() == "NewWithErr" || f.Name() == "New" {
			continue
		}
		seq := map[string]int{}
		for _, bc := range enumBaseCalls(f) {
			call, ok := bc.Call.(*ssa.Call)
			if !ok {
				continue
			}
			res := call.Call.Signature().Results()
			iface := "VFS"
			if bc.isFile() {
				iface = "File"
			}
			for i := 0; i < res.Len(); i++ {
				var v ssa.Value = call
				if res.Len() > 1 {
					v = nil
					for _, r := range referrersOf(call) {
						if e, ok := r.(*ssa.Extract); ok && e.Index == i {
							v = e
						}
					}
				}
				isErr := isErrorType(res.At(i).Type())
				if isErr && !bc.isFile() && !c10HasPathArg(bc) && bc.Method != "Getwd" {
					continue // SetUser, SetUMask, SetIdm ...: the error carries no path
				}
				idx, isPath := c10PathResults[iface][bc.Method]
				isPath = isPath && idx == i
				if !isErr && !isPath {
					continue
				}
				kind := "path"
				if isErr {
					kind = "error"
				}
				k := fmt.Sprintf("%s.%s %s", bc.Iface, bc.Method, kind)
				seq[k]++
				cons := fmt.Sprintf("%s result %s#%d", funcName(f), k, seq[k])
				if v == nil {
					rc.good(cons, call.Pos(), "result discarded")
					continue
				}
				if isErr {
					want := fromPE
					wn := "FromPathError"
					if c10LinkErr[bc.Method] && !bc.isFile() {
						want, wn = fromLE, "FromLinkError"
					}
					if bc.Method == "Glob" {
						// the only error of Glob is ErrBadPattern, which carries no path
						rc.good(cons, call.Pos(), "Glob's only error is ErrBadPattern, which carries no path")
						continue
					}
					st, why := flowsOnlyThrough(v, want)
					if st {
						rc.good(cons, call.Pos(), "returned only through "+wn)
					} else {
						rc.bad(cons, call.Pos(), "an error of the base reaches the caller without "+wn+": "+why)
					}
					continue
				}
				// path result
				if _, isSlice := res.At(i).Type().Underlying().(*types.Slice); isSlice {
					if sliceElemsTranslated(v, fromBase) {
						rc.good(cons, call.Pos(), "every element is replaced by FromBasePath(element) before the slice is returned")
					} else {
						rc.bad(cons, call.Pos(), "a list of base paths is returned without translating each element with FromBasePath")
					}
					continue
				}
				st, why := flowsOnlyThrough(v, fromBase)
				if st {
					rc.good(cons, call.Pos(), "returned only through FromBasePath")
				} else {
					rc.bad(cons, call.Pos(), "a path of the base reaches the caller without FromBasePath: "+why)
				}
			}
		}
	}
}

// flowsOnlyThrough: every flow of v to a Return passes through a call of `via` (v is an argument of via, and it is
// via's result that is returned). Uses that do not lead to a return (tests, stores to locals never returned) are ignored.
func flowsOnlyThrough(v ssa.Value, via *ssa.Function) (bool, string) {
	wrap := func(u ssa.Instruction, val ssa.Value) bool {
		if c, ok := u.(ssa.CallInstruction); ok && c.Common().StaticCallee() == via {
			return true
		}
		return false
	}
	if ret, _ := flowsToReturn(v, wrap); ret != nil {
		return false, "returned raw"
	}
	return true, ""
}

// sliceElemsTranslated: there is a store s[i] = via(x) where x is an element of the same slice s.
func sliceElemsTranslated(s ssa.Value, via *ssa.Function) bool {
	// s may be spilled to a named-result cell: collect aliases (loads of the cell it is stored to)
	aliases := map[ssa.Value]bool{s: true}
	for _, u := range referrersOf(s) {
		if st, ok := u.(*ssa.Store); ok && st.Val == s {
			if a, ok := st.Addr.(*ssa.Alloc); ok {
				for _, lu := range referrersOf(a) {
					if ld, ok := lu.(*ssa.UnOp); ok && ld.Op == token.MUL {
						aliases[ld] = true
					}
				}
			}
		}
	}
	ok := false
	for al := range aliases {
		for _, u := range referrersOf(al) {
			ia, isIA := u.(*ssa.IndexAddr)
			if !isIA {
				continue
			}
			for _, st := range storesTo(ia) {
				if derivesFromTranslation(st.Val, via, 0) {
					ok = true
				}
			}
		}
	}
	return ok
}

// derivesFromTranslation: the value is FromBasePath(x), or was computed from such a value by a lexical function of the
// library (Rel, Clean, Join ...), on every path that reaches it.
func derivesFromTranslation(v ssa.Value, via *ssa.Function, depth int) bool {
	if v == nil || depth > 6 {
		return false
	}
	if isCallTo(v, via) != nil {
		return true
	}
	switch x := v.(type) {
	case *ssa.Phi:
		for _, e := range x.Edges {
			if !derivesFromTranslation(e, via, depth+1) {
				return false
			}
		}
		return len(x.Edges) > 0
	case *ssa.Extract:
		return derivesFromTranslation(x.Tuple, via, depth+1)
	case *ssa.Call:
		if fn := calleeFunc(x); fn != nil {
			switch fn.Name() {
			case "Rel", "Clean", "Join", "ToSlash", "FromSlash":
				for _, a := range callArgs(x) {
					if derivesFromTranslation(a, via, depth+1) {
						return true
					}
				}
			}
		}
	}
	rs := resolveRaw(v)
	if len(rs) == 0 || (len(rs) == 1 && rs[0] == v) {
		return false
	}
	for _, rv := range rs {
		if !derivesFromTranslation(rv, via, depth+1) {
			return false
		}
	}
	return true
}

func c10Confine(rc *RuleCtx) {
	f := bpMethod(rc, "ToBasePath")
	if f == nil {
		rc.anchor("basepathfs.(*BasePathFS).ToBasePath")
		return
	}
	param := f.Params[1]
	// obligations are keyed by WHAT is returned, not by the ordinal of the return statement: splitting or merging
	// the conditions that lead to the same result must not change the keys
	for _, r := range returnsOf(f) {
		v := resolve1(r.Results[0])
		if isFieldLoad(v, "basePath") {
			rc.good(funcName(f)+" returns the base path", r.Pos(), "returns the base path itself")
			continue
		}
		if strip(v) == ssa.Value(param) {
			rc.bad(funcName(f)+" returns the caller's path unchanged", r.Pos(), "returns the caller's path unmodified: a relative path is resolved by the base against its own working directory, so '..' elements leave the base directory")
			continue
		}
		cons := funcName(f) + " returns a path built from the argument"
		how, ok := confinedJoin(rc, f, v, param, r)
		if ok {
			rc.good(cons, r.Pos(), how)
		} else {
			rc.bad(cons, r.Pos(), how)
		}
	}
}

// confinedJoin recognises Join(basePath, Clean(param)[vl:]) (or basePath + Clean(param)[vl:]) under the fact IsAbs(param).
func confinedJoin(rc *RuleCtx, f *ssa.Function, v ssa.Value, param *ssa.Parameter, at ssa.Instruction) (string, bool) {
	var parts []ssa.Value
	switch x := v.(type) {
	case *ssa.BinOp:
		if x.Op != token.ADD {
			return "returns an expression that is not basePath joined with a cleaned path", false
		}
		parts = []ssa.Value{x.X, x.Y}
	case *ssa.Call:
		fn := calleeFunc(x)
		if fn == nil || fn.Name() != "Join" || fn.Pkg() == nil || !strings.HasPrefix(fn.Pkg().Path(), modPath) {
			return "returns the result of " + accessPath(v) + ", not of the OS-aware Join", false
		}
		args := callArgs(x)
		if len(args) == 0 {
			return "Join without arguments", false
		}
		// variadic slice: Slice(Alloc)
		sl, ok := args[len(args)-1].(*ssa.Slice)
		if !ok {
			return "cannot see the elements joined", false
		}
		al, ok := sl.X.(*ssa.Alloc)
		if !ok {
			return "cannot see the elements joined", false
		}
		byIdx := map[int64]ssa.Value{}
		for _, u := range referrersOf(al) {
			if ia, ok := u.(*ssa.IndexAddr); ok {
				if k, ok := constInt(ia.Index); ok {
					for _, st := range storesTo(ia) {
						byIdx[k] = st.Val
					}
				}
			}
		}
		for i := int64(0); i < int64(len(byIdx)); i++ {
			parts = append(parts, byIdx[i])
		}
	default:
		return "returns " + accessPath(v) + ": neither the base path nor a cleaned rooted path below it", false
	}
	if len(parts) != 2 || !isFieldLoad(resolve1(parts[0]), "basePath") {
		return "the first joined element is not the base path", false
	}
	// second: Slice(X, low, nil) or X, with X = Clean(param)
	x := resolve1(parts[1])
	if sl, ok := x.(*ssa.Slice); ok {
		x = resolve1(sl.X)
	}
	cc, _ := resultOfCall(x)
	if cc == nil {
		return "the joined path is not the result of Clean", false
	}
	cfn := calleeFunc(cc)
	if cfn == nil || cfn.Name() != "Clean" || cfn.Pkg() == nil || !strings.HasPrefix(cfn.Pkg().Path(), modPath) {
		name := "?"
		if cfn != nil {
			name = cfn.FullName()
		}
		return "the joined path is cleaned by " + name + ", not by the Clean of the emulated OS type: on a file system whose separator differs from the host's, '..' elements are not clamped", false
	}
	cargs := callArgs(cc)
	if len(cargs) == 0 {
		return "Clean without argument", false
	}
	// what is cleaned is, on every path, the path parameter known to be rooted (IsAbs), or the parameter joined to the
	// file system's own working directory (rooted: C10.cwd)
	isAbsFact := func(b *ssa.BasicBlock, truthWanted bool) bool {
		for _, fa := range factsAt(b) {
			c, truth := normCond(fa.Cond, fa.Truth)
			if ic, _ := resultOfCall(c); ic != nil && truth == truthWanted {
				if ifn := calleeFunc(ic); ifn != nil && ifn.Name() == "IsAbs" {
					ia := callArgs(ic)
					if len(ia) > 0 && strip(ia[len(ia)-1]) == ssa.Value(param) {
						return true
					}
				}
			}
		}
		return false
	}
	var rootedVal func(v ssa.Value, at *ssa.BasicBlock, depth int) (string, bool)
	rootedVal = func(v ssa.Value, at *ssa.BasicBlock, depth int) (string, bool) {
		if depth > 4 {
			return "too deep", false
		}
		v = strip(v)
		if v == ssa.Value(param) {
			if isAbsFact(at, true) {
				return "", true
			}
			return "the path is cleaned without being known to be rooted: Clean keeps leading '..' elements of a relative path", false
		}
		if phi, ok := v.(*ssa.Phi); ok {
			for i, e := range phi.Edges {
				pred := phi.Block().Preds[i]
				// the decision taken on the edge itself (`if !IsAbs(p) { p = Join(cwd, p) }`: the skipping edge is IsAbs(p))
				if strip(e) == ssa.Value(param) {
					if iff, isIf := pred.Instrs[len(pred.Instrs)-1].(*ssa.If); isIf {
						c, truth := normCond(iff.Cond, pred.Succs[0] == phi.Block())
						if ic, _ := resultOfCall(c); ic != nil && truth {
							if ifn := calleeFunc(ic); ifn != nil && ifn.Name() == "IsAbs" {
								if ia := callArgs(ic); len(ia) > 0 && strip(ia[len(ia)-1]) == ssa.Value(param) {
									continue
								}
							}
						}
					}
				}
				if why, ok := rootedVal(e, pred, depth+1); !ok {
					return why, false
				}
			}
			return "", true
		}
		if jc, _ := resultOfCall(v); jc != nil {
			if jf := calleeFunc(jc); jf != nil && jf.Name() == "Join" && jf.Pkg() != nil && strings.HasPrefix(jf.Pkg().Path(), modPath) {
				parts := joinParts(jc)
				if len(parts) == 2 && strip(resolve1(parts[1])) == ssa.Value(param) {
					if cd, _ := resultOfCall(resolve1(parts[0])); cd != nil && calleeFunc(cd) != nil && calleeFunc(cd).Name() == "CurDir" {
						return "", true
					}
				}
				return "the relative path is joined to something other than the working directory of this file system", false
			}
		}
		rs := resolveRaw(v)
		if len(rs) == 0 || (len(rs) == 1 && rs[0] == v) {
			return "Clean is applied to " + accessPath(v) + ", not to the path parameter (rooted) or to the parameter joined to the working directory of this file system", false
		}
		for _, rv := range rs {
			if why, ok := rootedVal(rv, at, depth+1); !ok {
				return why, false
			}
		}
		return "", true
	}
	if why, ok := rootedVal(cargs[len(cargs)-1], cc.Block(), 0); !ok {
		return why, false
	}
	return "basePath joined with Clean(p), p being the rooted path argument or the argument joined to the working directory of this file system: '..' is clamped at the virtual root", true
}

// joinParts: the elements of a variadic Join(...) call.
func joinParts(x ssa.CallInstruction) []ssa.Value {
	args := callArgs(x)
	if len(args) == 0 {
		return nil
	}
	sl, ok := args[len(args)-1].(*ssa.Slice)
	if !ok {
		return nil
	}
	al, ok := sl.X.(*ssa.Alloc)
	if !ok {
		return nil
	}
	byIdx := map[int64]ssa.Value{}
	for _, u := range referrersOf(al) {
		if ia, ok := u.(*ssa.IndexAddr); ok {
			if k, ok := constInt(ia.Index); ok {
				for _, st := range storesTo(ia) {
					byIdx[k] = st.Val
				}
			}
		}
	}
	var parts []ssa.Value
	for i := int64(0); i < int64(len(byIdx)); i++ {
		parts = append(parts, byIdx[i])
	}
	return parts
}

func init() {
	register(&Rule{ID: "C10.cwd", Floor: 0, Also: []string{"C14", "C16"},
		Text: "the working directory a BasePathFS keeps for itself is always a path of its own name space: every SetCurDir in the package receives a FromBasePath result (an absolute virtual path), or a field that is only ever assigned such a result - relative paths are joined to it, never handed to the base file system",
		Run:  c10Cwd})
}

func c10Cwd(rc *RuleCtx) {
	fromBase := bpMethod(rc, "FromBasePath")
	// fields of the package that only ever receive a FromBasePath result
	virtualField := map[*types.Var]bool{}
	written := map[*types.Var]bool{}
	for _, f := range rc.C.srcFuncs("basepathfs") {
		eachInstr(f, func(in ssa.Instruction) {
			st, ok := in.(*ssa.Store)
			if !ok {
				return
			}
			fa, ok := st.Addr.(*ssa.FieldAddr)
			if !ok || !isStringType(st.Val.Type()) {
				return
			}
			fv := fieldVar(fa)
			if fv == nil {
				return
			}
			if !written[fv] {
				written[fv] = true
				virtualField[fv] = true
			}
			if fromBase == nil || !derivesFromTranslation(st.Val, fromBase, 0) {
				virtualField[fv] = false
			}
		})
	}
	for _, f := range rc.C.srcFuncs("basepathfs") {
		n := 0
		eachCall(f, func(ci ssa.CallInstruction) {
			if fn := calleeFunc(ci); fn == nil || fn.Name() != "SetCurDir" {
				return
			}
			n++
			cons := fmt.Sprintf("%s SetCurDir#%d", funcName(f), n)
			arg := callArgs(ci)[0]
			ok := fromBase != nil && derivesFromTranslation(arg, fromBase, 0)
			if !ok {
				if ld, isLd := strip(resolve1(arg)).(*ssa.UnOp); isLd && ld.Op == token.MUL {
					if fa, isFA := ld.X.(*ssa.FieldAddr); isFA {
						if fv := fieldVar(fa); fv != nil && virtualField[fv] {
							ok = true
						}
					}
				}
			}
			if ok {
				rc.good(cons, ci.Pos(), "an absolute path of the virtual name space (FromBasePath result)")
			} else {
				rc.bad(cons, ci.Pos(), "the working directory is set to a value that is not a translated (virtual, absolute) path: relative paths joined to it can leave the base directory")
			}
		})
	}
}

func c10Prefix(rc *RuleCtx) {
	n := 0
	for _, f := range rc.C.srcFuncs("basepathfs") {
		eachInstr(f, func(in ssa.Instruction) {
			st, ok := in.(*ssa.Store)
			if !ok {
				return
			}
			fa, ok := st.Addr.(*ssa.FieldAddr)
			if !ok || fieldName(fa.X.Type(), fa.Field) != "basePath" || !isNamed(fa.X.Type(), longPath("basepathfs"), "BasePathFS") {
				return
			}
			n++
			cons := fmt.Sprintf("%s store basePath#%d", funcName(f), n)
			c, idx := resultOfCall(resolve1(st.Val))
			if c != nil && idx == 0 {
				if fn := calleeFunc(c); fn != nil && fn.Name() == "Abs" && c.Common().IsInvoke() {
					rc.good(cons, st.Pos(), "the prefix is baseFS.Abs(basePath)")
					return
				}
			}
			rc.bad(cons, st.Pos(), "the stored prefix is "+accessPath(st.Val)+", not the absolute cleaned form returned by baseFS.Abs: prefix tests and stripping disagree with the paths the base returns")
		})
	}
}

func c10Total(rc *RuleCtx) {
	fromBase := bpMethod(rc, "FromBasePath")
	if fromBase == nil {
		rc.anchor("basepathfs.(*BasePathFS).FromBasePath")
		return
	}
	hasPanic := false
	eachInstr(fromBase, func(in ssa.Instruction) {
		if _, ok := in.(*ssa.Panic); ok {
			hasPanic = true
		}
	})
	if !hasPanic {
		rc.good("basepathfs.(*BasePathFS).FromBasePath total", fromBase.Pos(), "FromBasePath contains no panic")
	}
	for _, f := range rc.C.srcFuncs("basepathfs") {
		if f == fromBase {
			continue
		}
		n := 0
		eachCall(f, func(c ssa.CallInstruction) {
			if c.Common().StaticCallee() != fromBase {
				return
			}
			n++
			cons := fmt.Sprintf("%s call FromBasePath#%d", funcName(f), n)
			if !hasPanic {
				rc.good(cons, c.Pos(), "callee is total")
				return
			}
			arg := callArgs(c)[0]
			// a path this file system translated itself starts with the base path: every value ToBasePath returns is the
			// base path or a Join under it (that is C10.confine), and so is the base path field
			ra := resolve1(arg)
			if isFieldLoad(ra, "basePath") {
				rc.good(cons, c.Pos(), "the argument is the base path itself")
				return
			}
			if tc, _ := resultOfCall(ra); tc != nil {
				if tf := calleeFunc(tc); tf != nil && nm(tf) == "ToBasePath" {
					rc.good(cons, c.Pos(), "the argument was produced by ToBasePath, whose results start with the base path (C10.confine)")
					return
				}
			}
			for _, fa := range factsAt(c.Block()) {
				cv, truth := normCond(fa.Cond, fa.Truth)
				if hc, _ := resultOfCall(cv); hc != nil && truth {
					if hf := calleeFunc(hc); hf != nil && isPkgFunc(hf, "strings", "HasPrefix") {
						ha := callArgs(hc)
						if len(ha) == 2 && sameValue(ha[0], arg) && isFieldLoad(resolve1(ha[1]), "basePath") {
							rc.good(cons, c.Pos(), "dominated by HasPrefix(path, basePath)")
							return
						}
					}
				}
			}
			rc.bad(cons, c.Pos(), "FromBasePath panics when its argument does not start with the base path, and this call is not guarded: the path comes from the base file system (e.g. its working directory, which starts outside the base directory)")
		})
	}
}

func c10Escape(rc *RuleCtx) {
	pkgPath := longPath("basepathfs")
	wrap := ownWrapper(pkgPath, map[string]bool{})
	for _, f := range rc.C.srcFuncs("basepathfs") {
		if f.Name() == "NewWithErr" || f.Name() == "New" {
			continue
		}
		seq := map[string]int{}
		for _, bc := range enumBaseCalls(f) {
			call, ok := bc.Call.(*ssa.Call)
			if !ok {
				continue
			}
			res := call.Call.Signature().Results()
			for i := 0; i < res.Len(); i++ {
				if _, isBase := baseIfaceName(res.At(i).Type()); !isBase {
					continue
				}
				k := bc.Iface + "." + bc.Method
				seq[k]++
				cons := fmt.Sprintf("%s result of %s#%d", funcName(f), k, seq[k])
				var v, errv ssa.Value
				for _, r := range referrersOf(call) {
					if e, ok := r.(*ssa.Extract); ok {
						if e.Index == i {
							v = e
						} else if isErrorType(e.Type()) {
							errv = e
						}
					}
				}
				if v == nil {
					rc.good(cons, call.Pos(), "discarded")
					continue
				}
				if bc.Method == "Sub" {
					rc.good(cons, call.Pos(), "the base's Sub view is rooted at ToBasePath(dir), below the base path: confinement is inherited (C11)")
					continue
				}
				ret, _ := flowsToReturn(v, wrap)
				if ret == nil {
					rc.good(cons, call.Pos(), "wrapped in the package's own file type")
					continue
				}
				// accepted idiom: returned together with the call's own non-nil error
				okIdiom := false
				for _, fa := range factsAt(ret.Block()) {
					if x, isNil, kk := nilTest(fa); kk && !isNil && errv != nil && resolve1(x) == errv {
						okIdiom = true
					}
				}
				if okIdiom {
					rc.good(cons, call.Pos(), "returned only together with the call's own non-nil error (by the OpenFile contract the file is then unusable)")
				} else {
					rc.bad(cons, call.Pos(), "an unwrapped base file reaches the caller: its Name and error paths are base paths and it is not confined")
				}
			}
		}
	}
}

// c10HasPathArg: the base method takes at least one path-valued string argument.
func c10HasPathArg(bc baseCall) bool {
	for i, a := range callArgs(bc.Call) {
		if b, ok := a.Type().Underlying().(*types.Basic); ok && b.Kind() == types.String {
			if _, non := c10NonPath[bc.Method][i]; !non {
				return true
			}
		}
	}
	return false
}
