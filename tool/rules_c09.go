package main

import (
	"fmt"
	"go/constant"
	"go/token"
	"go/types"
	"os"
	"sort"
	"strings"

	"golang.org/x/tools/go/ssa"
)

// C09 — a read-only file system never lets the underlying file system change.

func init() {
	notDecided["C09"] = []string{
		"that the base file system's read-only methods are themselves free of effects (C05/C08 for MemFS/OrefaFS, the kernel for OsFS)",
		"equality of returned values with the base's values beyond positional forwarding",
		"Chdir / SetUMask forwarded to the base change the base object's view state (cwd, umask), which the statement does not list among tree, contents, modes, owners, modification times",
	}
	register(&Rule{ID: "C09.table", Floor: 2,
		Text: "the effect table classifies every method of avfs.VFS and avfs.File (a method without a class is an error)",
		Run:  c09Table})
	register(&Rule{ID: "C09.effect", Floor: 40,
		Text: "every interface call in package rofs on a base file system or base file targets a method classified pure, read-only, handle-local, view-state or sub-view; OpenFile only with a flag that is the constant O_RDONLY or is tested equal to it on every path to the call",
		Run:  c09Effect})
	register(&Rule{ID: "C09.escape", Floor: 40,
		Text: "no base file system or base file (result of a base call, or the wrapped field itself) reaches a return operand or a foreign function unless wrapped by the package's own types (RoFile{baseFile:..}, rofs.New(..))",
		Run:  c09Escape})
	register(&Rule{ID: "C09.refuse", Floor: 20,
		Text: "every RoFS/RoFile method whose interface method is classified mutating returns on all paths a provably non-nil error of the permission class (or fs.ErrInvalid under the nil-handle guard); so do the identity setters of RoFS (SetIdm, SetUser, SetUserByName): the wrapper offers no identity manager of its own, and forwarding them would change the user under which every other holder of the base acts",
		Run:  c09Refuse})
	register(&Rule{ID: "C09.forward", Floor: 30,
		Text: "every RoFS/RoFile method classified pure/read-only/handle-local/view-state that calls the base is a positional forward of its own parameters to the same-named base method and returns exactly the base's results",
		Run:  c09Forward})
}

func c09Table(rc *RuleCtx) {
	for _, t := range []struct {
		name string
		tbl  map[string]effEntry
	}{{"VFS", vfsEffects}, {"File", fileEffects}} {
		n := rc.C.named("avfs", t.name)
		if n == nil {
			rc.anchor("avfs." + t.name)
			continue
		}
		missing, extra := tableTotal(t.tbl, n)
		cons := "effect-table avfs." + t.name
		if len(missing) > 0 {
			rc.bad(cons, n.Obj().Pos(), "methods without an effect class: "+strings.Join(missing, ", ")+" -- the wrapper rules cannot judge calls to them")
		} else {
			rc.good(cons, n.Obj().Pos(), fmt.Sprintf("%d methods classified, %d stale table entries %v", len(ifaceMethods(n)), len(extra), extra))
		}
	}
}

func c09Effect(rc *RuleCtx) {
	funcs := rc.C.srcFuncs("rofs")
	if len(funcs) == 0 {
		rc.anchor("package rofs")
		return
	}
	rc.count("functions", len(funcs))
	for _, f := range funcs {
		seq := map[string]int{}
		for _, bc := range enumBaseCalls(f) {
			k := bc.Iface + "." + bc.Method
			seq[k]++
			cons := fmt.Sprintf("%s invoke %s#%d", funcName(f), k, seq[k])
			e, ok := bc.effect()
			if !ok {
				rc.bad(cons, bc.Call.Pos(), "method is not in the effect table")
				continue
			}
			switch e.e {
			case effMutate:
				rc.bad(cons, bc.Call.Pos(), "a read-only wrapper calls a mutating method of the base ("+e.reason+")")
			case effOpen:
				args := callArgs(bc.Call)
				if len(args) < 2 {
					rc.bad(cons, bc.Call.Pos(), "cannot identify the flag argument")
					continue
				}
				if how, ok := provablyRDONLY(args[1], bc.Call); ok {
					rc.good(cons, bc.Call.Pos(), how)
				} else {
					rc.bad(cons, bc.Call.Pos(), "OpenFile on the base with a flag that is not provably O_RDONLY: "+how)
				}
			default:
				rc.good(cons, bc.Call.Pos(), e.e.String()+": "+e.reason)
			}
		}
	}
}

// provablyRDONLY: v is the constant os.O_RDONLY, or a value tested `== O_RDONLY` on every path to `at`.
func provablyRDONLY(v ssa.Value, at ssa.Instruction) (string, bool) {
	if i, ok := constInt(v); ok {
		if i == int64(os.O_RDONLY) {
			return "flag is the constant O_RDONLY", true
		}
		return fmt.Sprintf("flag is the constant %#x", i), false
	}
	v = strip(v)
	for _, fa := range factsAt(at.Block()) {
		c, truth := normCond(fa.Cond, fa.Truth)
		b, ok := c.(*ssa.BinOp)
		if !ok {
			continue
		}
		var other ssa.Value
		if strip(b.X) == v {
			other = b.Y
		} else if strip(b.Y) == v {
			other = b.X
		} else {
			continue
		}
		k, isC := constInt(other)
		if !isC || k != int64(os.O_RDONLY) {
			continue
		}
		if (b.Op == token.EQL && truth) || (b.Op == token.NEQ && !truth) {
			return "flag is tested equal to O_RDONLY on every path to the call", true
		}
	}
	return "no dominating test `flag == O_RDONLY`", false
}

// ownWrapper: the use `u` of base value `val` wraps it in one of the package's own types.
func ownWrapper(pkgPath string, ctor map[string]bool) func(u ssa.Instruction, val ssa.Value) bool {
	return func(u ssa.Instruction, val ssa.Value) bool {
		switch x := u.(type) {
		case *ssa.Store:
			if x.Val != val {
				return false
			}
			if fa, ok := x.Addr.(*ssa.FieldAddr); ok {
				if n := namedOf(fa.X.Type()); n != nil && n.Obj().Pkg() != nil && n.Obj().Pkg().Path() == pkgPath {
					return true
				}
			}
		case ssa.CallInstruction:
			if fn := calleeFunc(x); fn != nil && fn.Pkg() != nil && fn.Pkg().Path() == pkgPath && ctor[fn.Name()] {
				return true
			}
		}
		return false
	}
}

func c09Escape(rc *RuleCtx) {
	wrapperEscape(rc, "rofs", map[string]bool{"New": true})
}

// wrapperEscape implements the escape clause for a wrapper package (shared by C09 and C12).
func wrapperEscape(rc *RuleCtx, short string, ctors map[string]bool) {
	pkgPath := longPath(short)
	wrap := ownWrapper(pkgPath, ctors)
	funcs := rc.C.srcFuncs(short)
	if len(funcs) == 0 {
		rc.anchor("package " + short)
		return
	}
	for _, f := range funcs {
		// sources: results of base calls with a base interface type; loads of base-typed fields
		type src struct {
			v    ssa.Value
			what string
			pos  token.Pos
		}
		var srcs []src
		seq := map[string]int{}
		for _, bc := range enumBaseCalls(f) {
			call, ok := bc.Call.(*ssa.Call)
			if !ok {
				continue
			}
			res := call.Call.Signature().Results()
			for i := 0; i < res.Len(); i++ {
				if _, isBase := baseIfaceName(res.At(i).Type()); !isBase {
					continue
				}
				k := bc.Iface + "." + bc.Method
				seq[k]++
				var v ssa.Value = call
				if res.Len() > 1 {
					v = nil
					for _, r := range referrersOf(call) {
						if e, ok := r.(*ssa.Extract); ok && e.Index == i {
							v = e
						}
					}
				}
				w := fmt.Sprintf("result of %s#%d", k, seq[k])
				if v == nil {
					rc.good(fmt.Sprintf("%s %s", funcName(f), w), call.Pos(), "the base object is discarded")
					continue
				}
				srcs = append(srcs, src{v, w, call.Pos()})
			}
		}
		fseq := map[string]int{}
		eachInstr(f, func(in ssa.Instruction) {
			u, ok := in.(*ssa.UnOp)
			if !ok || u.Op != token.MUL {
				return
			}
			fa, ok := u.X.(*ssa.FieldAddr)
			if !ok {
				return
			}
			if _, isBase := baseIfaceName(u.Type()); !isBase {
				return
			}
			fn := fieldName(fa.X.Type(), fa.Field)
			fseq[fn]++
			srcs = append(srcs, src{u, fmt.Sprintf("field %s#%d", fn, fseq[fn]), u.Pos()})
		})
		for _, s := range srcs {
			cons := fmt.Sprintf("%s %s", funcName(f), s.what)
			if ret, _ := flowsToReturn(s.v, wrap); ret != nil {
				rc.bad(cons, s.pos, "the unwrapped base object reaches a return operand ("+rc.C.pos(ret.Pos())+"): callers can act on the base directly")
				continue
			}
			// handed to foreign code?
			bad := ""
			for _, c := range usesAsArgument(s.v) {
				fn := calleeFunc(c)
				if fn != nil && fn.Pkg() != nil && fn.Pkg().Path() == pkgPath && ctors[fn.Name()] {
					continue
				}
				if fn != nil && isPkgFunc(fn, "reflect", "ValueOf") {
					continue // inspection only (nil test of the interface's dynamic value)
				}
				name := "a function value"
				if fn != nil {
					name = fn.FullName()
				}
				bad = "the unwrapped base object is passed to " + name
			}
			if bad != "" {
				rc.bad(cons, s.pos, bad)
				continue
			}
			rc.good(cons, s.pos, "used only as call receiver or wrapped by the package's own type")
		}
	}
}

// ---- refusal ----

// errLeaves collects the leaf error values an error-typed SSA value may carry, looking through &PathError{Err: x}
// / &LinkError{Err: x} composites, phis and local cells. Leaves are rendered as names.
type errLeaf struct {
	name   string // "avfs.ErrPermDenied", "fs.ErrInvalid", "field errPermDenied", "?..."
	nonNil bool
}

func constName(c *ssa.Const) string {
	n, ok := c.Type().(*types.Named)
	if !ok || n.Obj().Pkg() == nil || c.Value == nil {
		return ""
	}
	sc := n.Obj().Pkg().Scope()
	var names []string
	for _, nm := range sc.Names() {
		if k, ok := sc.Lookup(nm).(*types.Const); ok && types.Identical(k.Type(), n) && constant.Compare(k.Val(), token.EQL, c.Value) {
			names = append(names, nm)
		}
	}
	sort.Strings(names)
	if len(names) == 0 {
		return ""
	}
	return n.Obj().Pkg().Name() + "." + names[0]
}

func errLeaves(c *Config, v ssa.Value, depth int) []errLeaf {
	if depth > 8 {
		return []errLeaf{{"?deep", false}}
	}
	v = strip(v)
	switch x := v.(type) {
	case *ssa.Const:
		if x.IsNil() {
			return []errLeaf{{"nil", false}}
		}
		if n := constName(x); n != "" {
			return []errLeaf{{n, true}}
		}
		return []errLeaf{{"const " + x.String(), true}}
	case *ssa.Alloc:
		// &T{... Err: e ...}
		n := namedOf(x.Type())
		if n == nil {
			return []errLeaf{{"?alloc", true}}
		}
		var out []errLeaf
		found := false
		for _, r := range referrersOf(x) {
			if fa, ok := r.(*ssa.FieldAddr); ok && fieldName(fa.X.Type(), fa.Field) == "Err" {
				for _, s := range storesTo(fa) {
					found = true
					out = append(out, errLeaves(c, s.Val, depth+1)...)
				}
			}
		}
		if !found {
			return []errLeaf{{"composite " + n.Obj().Name() + " without Err", true}}
		}
		return out
	case *ssa.Phi:
		var out []errLeaf
		dead := phiDeadEdges(x)
		for i, e := range x.Edges {
			if dead[i] {
				continue
			}
			out = append(out, errLeaves(c, e, depth+1)...)
		}
		return out
	case *ssa.UnOp:
		if x.Op != token.MUL {
			break
		}
		switch a := x.X.(type) {
		case *ssa.Global:
			pk := ""
			if a.Pkg != nil {
				pk = a.Pkg.Pkg.Name()
			}
			return []errLeaf{{pk + "." + a.Name(), strings.HasPrefix(a.Name(), "Err")}}
		case *ssa.FieldAddr:
			fname := fieldName(a.X.Type(), a.Field)
			// resolve through every store to this field in the field's package
			fv := fieldVar(a)
			var out []errLeaf
			if fv != nil && fv.Pkg() != nil {
				for short := range map[string]bool{pkgShort[fv.Pkg().Path()]: true} {
					for _, g := range c.srcFuncs(short) {
						eachInstr(g, func(in ssa.Instruction) {
							if s, ok := in.(*ssa.Store); ok {
								if fa2, ok := s.Addr.(*ssa.FieldAddr); ok && fieldVar(fa2) == fv {
									out = append(out, errLeaves(c, s.Val, depth+1)...)
								}
							}
						})
					}
				}
			}
			if len(out) == 0 {
				return []errLeaf{{"field " + fname + " (never assigned)", false}}
			}
			return out
		case *ssa.Alloc:
			var out []errLeaf
			for _, rv := range resolve(x) {
				if rv == ssa.Value(x) {
					return []errLeaf{{"?cell", false}}
				}
				out = append(out, errLeaves(c, rv, depth+1)...)
			}
			return out
		}
	}
	// an internal helper that builds the error: the leaves of what it returns
	if call, ok := v.(*ssa.Call); ok {
		if callee := call.Call.StaticCallee(); callee != nil && len(callee.Blocks) > 0 && callee.Pkg != nil &&
			strings.HasPrefix(callee.Pkg.Pkg.Path(), modPath) && callee.Signature.Results().Len() == 1 && isErrorType(callee.Signature.Results().At(0).Type()) {
			var out []errLeaf
			for _, r := range returnsOf(callee) {
				for _, rv := range resolveRaw(r.Results[0]) {
					out = append(out, errLeaves(c, rv, depth+2)...)
				}
			}
			if len(out) > 0 {
				return out
			}
		}
	}
	return []errLeaf{{"?" + v.String(), false}}
}

// identitySetters: methods of a file system that replace the identity under which it acts.
var identitySetters = map[string]bool{"SetIdm": true, "SetUser": true, "SetUserByName": true}

func c09Refuse(rc *RuleCtx) {
	for _, t := range []struct {
		typ string
		tbl map[string]effEntry
	}{{"RoFS", vfsEffects}, {"RoFile", fileEffects}} {
		ms := rc.C.methodsOf("rofs", t.typ)
		if len(ms) == 0 {
			rc.anchor("rofs." + t.typ)
			continue
		}
		var names []string
		for n := range t.tbl {
			names = append(names, n)
		}
		sort.Strings(names)
		for _, name := range names {
			e := t.tbl[name]
			// OpenFile's refusing branch is covered by C09.effect (the guard) — here only the unconditional mutators
			if e.e != effMutate && !(t.typ == "RoFS" && identitySetters[name]) {
				continue
			}
			f := ms[name]
			cons := fmt.Sprintf("rofs.(*%s).%s refuses", t.typ, name)
			if f == nil {
				rc.bad(cons, token.NoPos, "mutating interface method has no implementation in the wrapper")
				continue
			}
			// delegation to another mutating method of the same type (WriteString -> Write)
			if d := selfDelegate(f, t.typ); d != "" {
				if de, ok := t.tbl[d]; ok && de.e == effMutate {
					rc.good(cons, f.Pos(), "delegates to "+d+", itself checked")
					continue
				}
			}
			ei := errResultIndex(f.Signature)
			if ei < 0 {
				rc.bad(cons, f.Pos(), "no error result")
				continue
			}
			ok := true
			why := ""
			var leavesSeen []string
			for _, r := range returnsOf(f) {
				leaves := errLeaves(rc.C, r.Results[ei], 0)
				nilGuard := false
				for _, fa := range factsAt(r.Block()) {
					if x, isNil, k := nilTest(fa); k && isNil && len(f.Params) > 0 && x == ssa.Value(f.Params[0]) {
						nilGuard = true
					}
				}
				for _, l := range leaves {
					leavesSeen = append(leavesSeen, l.name)
					if !l.nonNil {
						ok, why = false, "a return may carry a nil or unknown error ("+l.name+")"
						continue
					}
					base := l.name
					if i := strings.LastIndex(base, "."); i >= 0 {
						base = base[i+1:]
					}
					if _, isPerm := permClassErrors[base]; isPerm {
						continue
					}
					if nilGuard && l.name == "fs.ErrInvalid" {
						continue
					}
					ok, why = false, "a refusal carries "+l.name+", which is not a permission-class error"
				}
			}
			if ok {
				sort.Strings(leavesSeen)
				rc.good(cons, f.Pos(), "every return carries a non-nil permission-class error: "+strings.Join(uniq(leavesSeen), ","))
			} else {
				rc.bad(cons, f.Pos(), why)
			}
		}
	}
}

func uniq(s []string) []string {
	var out []string
	for i, x := range s {
		if i == 0 || x != s[i-1] {
			out = append(out, x)
		}
	}
	return out
}

// selfDelegate: f's body is `return recv.Other(...)` on its own receiver; returns Other.
func selfDelegate(f *ssa.Function, typ string) string {
	var name string
	n := 0
	eachCall(f, func(c ssa.CallInstruction) {
		n++
		if sc := c.Common().StaticCallee(); sc != nil && sc.Signature.Recv() != nil && len(f.Params) > 0 {
			if len(c.Common().Args) > 0 && c.Common().Args[0] == ssa.Value(f.Params[0]) {
				if call, ok := c.(*ssa.Call); ok {
					if ok2, _ := returnsCallResults(f, call); ok2 {
						name = sc.Name()
					}
				}
			}
		}
	})
	return name
}

func c09Forward(rc *RuleCtx) {
	for _, t := range []struct {
		typ, field string
		tbl        map[string]effEntry
	}{{"RoFS", "baseFS", vfsEffects}, {"RoFile", "baseFile", fileEffects}} {
		ms := rc.C.methodsOf("rofs", t.typ)
		var names []string
		for n := range t.tbl {
			names = append(names, n)
		}
		sort.Strings(names)
		for _, name := range names {
			e := t.tbl[name]
			if e.e == effMutate || e.e == effOpen || e.e == effSub {
				continue
			}
			f := ms[name]
			if f == nil {
				continue // provided by an embedded type (Features, HasFeature) — not a forward
			}
			cons := fmt.Sprintf("rofs.(*%s).%s forwards", t.typ, name)
			bcs := enumBaseCalls(f)
			if len(bcs) == 0 {
				// local implementation (Idm, SetIdm, SetUser.., Type, Sync refusing, Name via name()).
				if d := selfDelegate(f, t.typ); d != "" {
					rc.good(cons, f.Pos(), "delegates to the wrapper's own "+d)
				} else {
					rc.good(cons, f.Pos(), "answers locally without touching the base")
				}
				continue
			}
			if len(bcs) != 1 {
				rc.bad(cons, f.Pos(), fmt.Sprintf("%d base calls in a method expected to be a single forward", len(bcs)))
				continue
			}
			bc := bcs[0]
			if bc.Method != name {
				rc.bad(cons, bc.Call.Pos(), "forwards to "+bc.Method+" instead of "+name)
				continue
			}
			if st, ok := loadOfField(bc.Recv, t.field); !ok || len(f.Params) == 0 || st != ssa.Value(f.Params[0]) {
				rc.bad(cons, bc.Call.Pos(), "the receiver of the forwarded call is not the wrapper's own "+t.field)
				continue
			}
			if ok, why := isPositionalForward(f, bc.Call); !ok {
				rc.bad(cons, bc.Call.Pos(), why)
				continue
			}
			call, isCall := bc.Call.(*ssa.Call)
			if !isCall {
				rc.bad(cons, bc.Call.Pos(), "forward is deferred or spawned")
				continue
			}
			if f.Signature.Results().Len() > 0 {
				if ok, why := returnsCallResults(f, call); !ok {
					rc.bad(cons, bc.Call.Pos(), why)
					continue
				}
			}
			// every return not reached from the call must be the nil-handle guard
			bad := false
			for _, r := range returnsOf(f) {
				if instrReaches(call, r) {
					continue
				}
				g := false
				for _, fa := range factsAt(r.Block()) {
					if x, isNil, k := nilTest(fa); k && isNil && x == ssa.Value(f.Params[0]) {
						g = true
					}
				}
				if !g {
					bad = true
				}
			}
			if bad {
				rc.bad(cons, f.Pos(), "a path returns without forwarding to the base and outside the nil-handle guard")
				continue
			}
			rc.good(cons, bc.Call.Pos(), "positional forward returning the base's results ("+e.e.String()+")")
		}
	}
}
