package main

import (
	"bytes"
	"fmt"
	"go/ast"
	"go/parser"
	"go/printer"
	"go/token"
	"go/types"
	"os"
	"path/filepath"
	"sort"
	"strings"

	"golang.org/x/tools/go/packages"
)

// Inlining of helpers the rules do not know.
//
// The rules were written against the functions of the tree they were confirmed on (knownFuncs, frozen in
// anchors_gen.go). A behaviour-preserving refactoring often splits one of those functions into new unexported helpers,
// or names a condition with a small predicate method. So that such a change leaves the analysed program as it was, every
// unexported function that is NOT in the frozen list (and does not play the role of a renamed known helper) is inlined
// at its call sites before the program is type-checked and converted to SSA: the rewritten sources are handed to
// go/packages as an overlay, with /*line*/ directives so that positions still name the real files. On the tree the
// rules were written for nothing is inlined, so nothing changes there; a helper added later is analysed as part of its
// callers (which also means that a defect hidden in a new helper is seen where the rules look).
//
// Supported call contexts: expression statement, the only right-hand side of an assignment or definition, the only
// operand of a return, the init statement of an if; and, for helpers whose body is a single `return <expr>`, any
// expression position when the arguments are simple. Helpers with defer, go, goto, labels, recover, type parameters or
// variadic parameters, recursive helpers and promoted methods are left alone (the call stays a call).

type inlCand struct {
	fd    *ast.FuncDecl
	obj   *types.Func
	pkg   *packages.Package
	file  string
	src   []byte
	pure  ast.Expr // body is `return pure`
	nret  int      // number of return statements outside function literals
	named bool     // named results
}

type textEdit struct {
	start, end int
	text       string
}

// funcKey: "dir|recv|name" for a declaration (recv is "*T", "T" or "").
func funcKey(dir string, fd *ast.FuncDecl) string {
	recv := ""
	if fd.Recv != nil && len(fd.Recv.List) > 0 {
		t := fd.Recv.List[0].Type
		star := ""
		if s, ok := t.(*ast.StarExpr); ok {
			t = s.X
			star = "*"
		}
		if ix, ok := t.(*ast.IndexExpr); ok {
			t = ix.X
		}
		if id, ok := t.(*ast.Ident); ok {
			recv = star + id.Name
		}
	}
	return dir + "|" + recv + "|" + fd.Name.Name
}

// scanUnexportedFuncs parses (syntax only) the non-test Go files below repo and lists the unexported functions and
// methods they declare.
func scanUnexportedFuncs(repo string) (map[string]string, error) {
	out := map[string]string{}
	fset := token.NewFileSet()
	err := filepath.Walk(repo, func(path string, info os.FileInfo, err error) error {
		if err != nil {
			return err
		}
		if info.IsDir() {
			if n := info.Name(); path != repo && (strings.HasPrefix(n, ".") || n == "testdata" || n == "vendor") {
				return filepath.SkipDir
			}
			return nil
		}
		if !strings.HasSuffix(path, ".go") || strings.HasSuffix(path, "_test.go") {
			return nil
		}
		f, perr := parser.ParseFile(fset, path, nil, parser.SkipObjectResolution)
		if perr != nil {
			return nil // the type-checking load reports it
		}
		dir, _ := filepath.Rel(repo, filepath.Dir(path))
		if dir == "." {
			dir = ""
		}
		for _, d := range f.Decls {
			if fd, ok := d.(*ast.FuncDecl); ok && !token.IsExported(fd.Name.Name) && fd.Name.Name != "init" && fd.Name.Name != "main" {
				out[funcKey(dir, fd)] = sigText(fset, fd)
			}
		}
		return nil
	})
	return out, err
}

// sigText: the parameter and result lists of a declaration as written (names dropped would be better, but a rename of
// a helper rarely renames its parameters; the text is only used to recognise a renamed helper).
func sigText(fset *token.FileSet, fd *ast.FuncDecl) string {
	var b bytes.Buffer
	ft := *fd.Type
	ft.Func = token.NoPos
	printer.Fprint(&b, fset, &ft)
	return strings.Join(strings.Fields(b.String()), " ")
}

func dumpKnownFuncs(repo string) string {
	m, _ := scanUnexportedFuncs(repo)
	var keys []string
	for k := range m {
		keys = append(keys, k)
	}
	sort.Strings(keys)
	var b strings.Builder
	b.WriteString("\n// knownFuncs: the unexported functions of the tree the rules were written for (\"dir|receiver|name\" -> signature as\n// written); a function that is not listed is inlined at its call sites before the analysis (inline.go).\nvar knownFuncs = map[string]string{\n")
	for _, k := range keys {
		fmt.Fprintf(&b, "\t%q: %q,\n", k, m[k])
	}
	b.WriteString("}\n")
	return b.String()
}

// inlineOverlay returns the rewritten sources (absolute file name -> content) for the configuration with the given
// build tags, and a human-readable list of what was inlined. nil when the tree declares no unknown helper.
func inlineOverlay(repo, tags string) (map[string][]byte, []string, map[string]bool, error) {
	if os.Getenv("AVFSLINT_NOINLINE") != "" {
		return nil, nil, nil, nil
	}
	have, err := scanUnexportedFuncs(repo)
	if err != nil {
		return nil, nil, nil, err
	}
	unknown := false
	for k := range have {
		if _, known := knownFuncs[k]; !known {
			unknown = true
		}
	}
	// known helpers that are gone: an unknown function with the receiver and signature of one of them is that helper
	// under a new name, not a new helper
	renamed := map[string]bool{}
	for k, sig := range knownFuncs {
		if _, still := have[k]; still {
			continue
		}
		parts := strings.SplitN(k, "|", 3)
		for k2, sig2 := range have {
			if _, known := knownFuncs[k2]; known {
				continue
			}
			p2 := strings.SplitN(k2, "|", 3)
			if p2[0] == parts[0] && p2[1] == parts[1] && sig2 == sig {
				renamed[k2] = true
			}
		}
	}
	if !unknown {
		return nil, nil, nil, nil
	}
	cfg := &packages.Config{
		Mode: packages.NeedName | packages.NeedFiles | packages.NeedCompiledGoFiles | packages.NeedImports |
			packages.NeedTypes | packages.NeedTypesInfo | packages.NeedSyntax | packages.NeedTypesSizes,
		Dir:   repo,
		Tests: false,
		Env: append(os.Environ(), "GOFLAGS=-mod=mod", "GOPROXY=off", "GOSUMDB=off",
			"GOTOOLCHAIN=local", "GOWORK=off", "GOOS=linux", "GOARCH=amd64", "CGO_ENABLED=0"),
	}
	if tags != "" {
		cfg.BuildFlags = []string{"-tags=" + tags}
	}
	pkgs, err := packages.Load(cfg, "./...")
	if err != nil {
		return nil, nil, nil, err
	}
	away := map[string]bool{}
	overlay := map[string][]byte{}
	var report []string
	for _, p := range pkgs {
		if !strings.HasPrefix(p.PkgPath, modPath) || len(p.Errors) > 0 || p.TypesInfo == nil {
			continue // errors are reported by the main load
		}
		dir := strings.TrimPrefix(strings.TrimPrefix(p.PkgPath, modPath), "/")
		in := &inliner{repo: repo, p: p, dir: dir, renamed: renamed, cands: map[*types.Func]*inlCand{}, srcs: map[string][]byte{}, done: map[*types.Func]int{}}
		in.collect()
		if len(in.cands) == 0 {
			continue
		}
		for _, f := range p.Syntax {
			name := p.Fset.Position(f.Pos()).Filename
			if strings.HasSuffix(name, "_test.go") {
				continue
			}
			if out, n := in.rewriteFile(f, name); n > 0 {
				overlay[name] = out
			}
		}
		report = append(report, in.report...)
		// helpers all of whose references were inlined calls
		uses := map[*types.Func]int{}
		for _, o := range p.TypesInfo.Uses {
			if fo, ok := o.(*types.Func); ok && in.cands[fo] != nil {
				uses[fo]++
			}
		}
		for fo := range in.cands {
			if in.done[fo] > 0 && in.done[fo] == uses[fo] {
				away[p.PkgPath+"|"+recvString(fo.Type().(*types.Signature))+"|"+fo.Name()] = true
			}
		}
	}
	sort.Strings(report)
	if len(overlay) == 0 {
		return nil, report, nil, nil
	}
	if d := os.Getenv("AVFSLINT_DUMPOVERLAY"); d != "" {
		for name, b := range overlay {
			rel, _ := filepath.Rel(repo, name)
			os.MkdirAll(filepath.Join(d, filepath.Dir(rel)), 0o755)
			os.WriteFile(filepath.Join(d, rel), b, 0o644)
		}
	}
	return overlay, report, away, nil
}

type inliner struct {
	repo    string
	p       *packages.Package
	dir     string
	cands   map[*types.Func]*inlCand
	srcs    map[string][]byte
	report  []string
	renamed map[string]bool // unknown functions that are known helpers under a new name
	seq     int
	done    map[*types.Func]int // calls inlined, per helper
}

func (in *inliner) src(file string) []byte {
	if b, ok := in.srcs[file]; ok {
		return b
	}
	b, _ := os.ReadFile(file)
	in.srcs[file] = b
	return b
}

func (in *inliner) off(pos token.Pos) int { return in.p.Fset.Position(pos).Offset }

// collect finds the inlinable unknown helpers of the package.
func (in *inliner) collect() {
	p := in.p
	// roles whose name is missing in this package: a function with the role's receiver and signature plays it
	short := pkgShort[p.PkgPath]
	present := map[string]bool{}
	for _, f := range p.Syntax {
		for _, d := range f.Decls {
			if fd, ok := d.(*ast.FuncDecl); ok {
				if obj, ok := p.TypesInfo.Defs[fd.Name].(*types.Func); ok {
					present[recvString(obj.Type().(*types.Signature))+"|"+fd.Name.Name] = true
				}
			}
		}
	}
	playsRole := func(obj *types.Func) bool {
		sig := obj.Type().(*types.Signature)
		for role, rs := range anchorSigs {
			if role.pkg != short || present[role.recv+"|"+role.name] {
				continue
			}
			if recvString(sig) == role.recv && sigString(sig) == rs {
				return true
			}
		}
		return false
	}
	for _, f := range p.Syntax {
		file := p.Fset.Position(f.Pos()).Filename
		if strings.HasSuffix(file, "_test.go") {
			continue
		}
		for _, d := range f.Decls {
			fd, ok := d.(*ast.FuncDecl)
			if !ok || fd.Body == nil || token.IsExported(fd.Name.Name) || fd.Name.Name == "init" || fd.Name.Name == "main" {
				continue
			}
			if _, known := knownFuncs[funcKey(in.dir, fd)]; known || in.renamed[funcKey(in.dir, fd)] {
				continue
			}
			obj, ok := p.TypesInfo.Defs[fd.Name].(*types.Func)
			if !ok {
				continue
			}
			sig := obj.Type().(*types.Signature)
			if sig.TypeParams() != nil || sig.RecvTypeParams() != nil || sig.Variadic() || playsRole(obj) {
				continue
			}
			if fd.Recv != nil && len(fd.Recv.List) == 1 && len(fd.Recv.List[0].Names) == 0 {
				// unnamed receiver: nothing refers to it
			}
			c := &inlCand{fd: fd, obj: obj, pkg: p, file: file, src: in.src(file)}
			ok = true
			var walk func(n ast.Node, inLit bool) bool
			walk = func(n ast.Node, inLit bool) bool { return true }
			ast.Inspect(fd.Body, func(n ast.Node) bool {
				switch x := n.(type) {
				case *ast.DeferStmt, *ast.GoStmt, *ast.LabeledStmt:
					ok = false
				case *ast.BranchStmt:
					if x.Tok == token.GOTO || x.Label != nil {
						ok = false
					}
				case *ast.CallExpr:
					if id, isId := x.Fun.(*ast.Ident); isId && id.Name == "recover" {
						ok = false
					}
					if o := calleeObj(p.TypesInfo, x); o != nil && o == obj {
						ok = false // recursive
					}
				}
				return ok
			})
			_ = walk
			if !ok {
				continue
			}
			// returns outside function literals
			var count func(n ast.Node)
			count = func(n ast.Node) {
				ast.Inspect(n, func(m ast.Node) bool {
					switch m.(type) {
					case *ast.FuncLit:
						return false
					case *ast.ReturnStmt:
						c.nret++
					}
					return true
				})
			}
			count(fd.Body)
			if fd.Type.Results != nil {
				for _, fl := range fd.Type.Results.List {
					if len(fl.Names) > 0 {
						c.named = true
					}
				}
			}
			if len(fd.Body.List) == 1 {
				if r, isRet := fd.Body.List[0].(*ast.ReturnStmt); isRet && len(r.Results) == 1 && sig.Results().Len() == 1 {
					lit := false
					ast.Inspect(r.Results[0], func(m ast.Node) bool {
						if _, isLit := m.(*ast.FuncLit); isLit {
							lit = true
						}
						return !lit
					})
					if !lit {
						c.pure = r.Results[0]
					}
				}
			}
			in.cands[obj] = c
		}
	}
}

// calleeObj: the function or method a call expression calls statically, or nil.
func calleeObj(info *types.Info, call *ast.CallExpr) *types.Func {
	fun := call.Fun
	for {
		if pe, ok := fun.(*ast.ParenExpr); ok {
			fun = pe.X
			continue
		}
		break
	}
	switch f := fun.(type) {
	case *ast.Ident:
		if o, ok := info.Uses[f].(*types.Func); ok {
			return o
		}
	case *ast.SelectorExpr:
		if sel, ok := info.Selections[f]; ok {
			if sel.Kind() == types.MethodVal {
				if o, ok := sel.Obj().(*types.Func); ok {
					return o
				}
			}
			return nil
		}
		if o, ok := info.Uses[f.Sel].(*types.Func); ok {
			return o // qualified identifier
		}
	}
	return nil
}

// simpleArg: an expression whose evaluation has no effect and cannot fail in a way that depends on where it is
// evaluated: names, constants, selector chains, &name, conversions / len of those, nil.
func simpleArg(e ast.Expr) bool {
	switch n := e.(type) {
	case *ast.Ident, *ast.BasicLit:
		return true
	case *ast.ParenExpr:
		return simpleArg(n.X)
	case *ast.SelectorExpr:
		return simpleArg(n.X)
	case *ast.UnaryExpr:
		return (n.Op == token.AND || n.Op == token.NOT || n.Op == token.SUB) && simpleArg(n.X)
	case *ast.StarExpr:
		return simpleArg(n.X)
	case *ast.BinaryExpr:
		return simpleArg(n.X) && simpleArg(n.Y)
	case *ast.CallExpr:
		if id, ok := n.Fun.(*ast.Ident); ok && len(n.Args) == 1 {
			switch id.Name {
			case "len", "string", "int", "int64", "byte", "rune", "error":
				return simpleArg(n.Args[0])
			}
		}
	}
	return false
}

// qualifier for type strings inside file f: the local name of an imported package, "" for the package itself; sets
// *failed when a package is not imported by the file.
func (in *inliner) qualifier(f *ast.File, failed *bool) types.Qualifier {
	local := map[string]string{}
	for _, is := range f.Imports {
		path := strings.Trim(is.Path.Value, `"`)
		if is.Name != nil {
			local[path] = is.Name.Name
		} else if pn, ok := in.p.TypesInfo.Implicits[is].(*types.PkgName); ok {
			local[path] = pn.Name()
		}
	}
	return func(q *types.Package) string {
		if q == in.p.Types {
			return ""
		}
		if n, ok := local[q.Path()]; ok && n != "_" && n != "." {
			return n
		}
		*failed = true
		return q.Name()
	}
}

// visibleAs: the object that name denotes at pos in the caller's file.
func (in *inliner) visibleAt(pos token.Pos, name string) types.Object {
	sc := in.p.Types.Scope().Innermost(pos)
	if sc == nil {
		return nil
	}
	_, o := sc.LookupParent(name, pos)
	return o
}

// freeNamesOK: every package-level object or imported package the helper's body (or expr) refers to denotes the same
// thing at the call site.
func (in *inliner) freeNamesOK(c *inlCand, n ast.Node, at token.Pos) bool {
	ok := true
	ast.Inspect(n, func(m ast.Node) bool {
		id, isId := m.(*ast.Ident)
		if !isId || !ok {
			return ok
		}
		o := in.p.TypesInfo.Uses[id]
		if o == nil {
			return true
		}
		switch x := o.(type) {
		case *types.PkgName:
			v, isPkg := in.visibleAt(at, id.Name).(*types.PkgName)
			if !isPkg || v.Imported() != x.Imported() {
				ok = false
			}
		default:
			if o.Parent() == in.p.Types.Scope() || o.Parent() == types.Universe {
				if in.visibleAt(at, id.Name) != o {
					ok = false
				}
			}
		}
		return ok
	})
	return ok
}

// rewriteFile returns the file's source with the calls of unknown helpers inlined, and the number of calls inlined.
func (in *inliner) rewriteFile(f *ast.File, name string) ([]byte, int) {
	src := in.src(name)
	var edits []textEdit
	n := 0
	failedQ := false
	q := in.qualifier(f, &failedQ)

	lineDir := func(file string, pos token.Pos) string {
		p := in.p.Fset.Position(pos)
		return fmt.Sprintf("/*line %s:%d:%d*/", file, p.Line, p.Column)
	}
	text := func(a, b token.Pos) string { return string(src[in.off(a):in.off(b)]) }

	// the statement-level expansion of call `call` to candidate c; lhsFinal is the statement that consumes the results
	// ("x, err := %s", "return %s", "" ...) with %s replaced by the result temporaries.
	// tail: the call is the only operand of a return of a function with the same results: the helper's returns are
	// the caller's returns (no temporaries, no rejoining)
	tail := false
	expand := func(c *inlCand, call *ast.CallExpr, final func(tmps []string) string) (string, bool) {
		sig := c.obj.Type().(*types.Signature)
		if !in.freeNamesOK(c, c.fd.Body, call.Pos()) {
			return "", false
		}
		in.seq++
		id := fmt.Sprintf("__inl%d", in.seq)
		var b strings.Builder
		failedQ = false
		var tmps []string
		for i := 0; i < sig.Results().Len() && !tail; i++ {
			t := fmt.Sprintf("%s_r%d", id, i)
			tmps = append(tmps, t)
			fmt.Fprintf(&b, "var %s %s; ", t, types.TypeString(sig.Results().At(i).Type(), q))
		}
		b.WriteString("{ ")
		// bind receiver and parameters
		var names, vals []string
		if sig.Recv() != nil {
			se, ok := call.Fun.(*ast.SelectorExpr)
			if !ok {
				return "", false
			}
			sel := in.p.TypesInfo.Selections[se]
			if sel == nil || len(sel.Index()) != 1 || !simpleArg(se.X) {
				return "", false
			}
			rname := "_"
			if len(c.fd.Recv.List) == 1 && len(c.fd.Recv.List[0].Names) == 1 {
				rname = c.fd.Recv.List[0].Names[0].Name
			}
			rx := text(se.X.Pos(), se.X.End())
			_, wantPtr := sig.Recv().Type().(*types.Pointer)
			_, havePtr := in.p.TypesInfo.TypeOf(se.X).Underlying().(*types.Pointer)
			switch {
			case wantPtr && !havePtr:
				rx = "&(" + rx + ")"
			case !wantPtr && havePtr:
				rx = "*(" + rx + ")"
			}
			if rname != "_" {
				names = append(names, rname)
				vals = append(vals, rx)
			}
		}
		ai := 0
		for _, fl := range c.fd.Type.Params.List {
			pn := fl.Names
			if len(pn) == 0 {
				ai++ // unnamed parameter: its argument is simple (checked below), nothing to bind
				continue
			}
			for _, nm := range pn {
				if ai >= len(call.Args) {
					return "", false
				}
				arg := call.Args[ai]
				pt := sig.Params().At(ai).Type()
				ai++
				if nm.Name == "_" {
					continue
				}
				at := text(arg.Pos(), arg.End())
				// an untyped argument (constant, nil) takes the parameter's type
				if tv, ok := in.p.TypesInfo.Types[arg]; !ok || tv.Type == nil || isUntyped(tv.Type) || !types.Identical(tv.Type, pt) {
					at = "(" + types.TypeString(pt, q) + ")(" + at + ")"
				}
				names = append(names, nm.Name)
				vals = append(vals, at)
			}
		}
		for _, a := range call.Args {
			if !simpleArg(a) {
				// evaluated exactly once, in order, by the binding below: any expression is fine when it is bound to a
				// named parameter; an argument of an unnamed parameter must have no effect
			}
		}
		if len(names) > 0 {
			fmt.Fprintf(&b, "%s := %s; ", strings.Join(names, ", "), strings.Join(vals, ", "))
			blanks := make([]string, len(names))
			for i := range blanks {
				blanks[i] = "_"
			}
			fmt.Fprintf(&b, "%s = %s; ", strings.Join(blanks, ", "), strings.Join(names, ", "))
		}
		// named results are ordinary variables of the body
		var resNames []string
		if c.named {
			for _, fl := range c.fd.Type.Results.List {
				for _, nm := range fl.Names {
					rn := nm.Name
					if rn == "_" {
						in.seq++
						rn = fmt.Sprintf("__inl%d_b", in.seq)
					}
					resNames = append(resNames, rn)
					fmt.Fprintf(&b, "var %s %s; _ = %s; ", rn, types.TypeString(in.p.TypesInfo.TypeOf(fl.Type), q), rn)
				}
			}
		}
		if failedQ {
			return "", false
		}
		// the body, returns rewritten
		label := id + "_end"
		body := c.fd.Body
		bsrc := c.src
		boff := func(p token.Pos) int { return in.p.Fset.Position(p).Offset }
		start, end := boff(body.Lbrace)+1, boff(body.Rbrace)
		var redits []textEdit
		var visit func(n ast.Node)
		visit = func(n ast.Node) {
			ast.Inspect(n, func(m ast.Node) bool {
				switch x := m.(type) {
				case *ast.FuncLit:
					return false
				case *ast.ReturnStmt:
					var rt string
					switch {
					case tail && len(x.Results) == 0:
						rt = "return " + strings.Join(resNames, ", ")
					case tail:
						return true // the helper's return is the caller's return
					case len(tmps) == 0:
						rt = "break " + label
					case len(x.Results) == 0:
						rt = fmt.Sprintf("{ %s = %s; break %s }", strings.Join(tmps, ", "), strings.Join(resNames, ", "), label)
					default:
						rt = fmt.Sprintf("{ %s = %s; break %s }", strings.Join(tmps, ", "), string(bsrc[boff(x.Results[0].Pos()):boff(x.Results[len(x.Results)-1].End())]), label)
					}
					redits = append(redits, textEdit{boff(x.Pos()), boff(x.End()), rt})
				}
				return true
			})
		}
		visit(body)
		btxt := applyEdits(bsrc, redits, start, end)
		if tail {
			fmt.Fprintf(&b, "{ %s%s } }", lineDir(c.file, body.Lbrace+1), btxt)
			in.done[c.obj]++
			return b.String(), true
		}
		if c.nret > 0 {
			fmt.Fprintf(&b, "%s: switch { default: %s%s }", label, lineDir(c.file, body.Lbrace+1), btxt)
		} else {
			fmt.Fprintf(&b, "{ %s%s }", lineDir(c.file, body.Lbrace+1), btxt)
		}
		b.WriteString(" }; ")
		b.WriteString(final(tmps))
		in.done[c.obj]++
		return b.String(), true
	}

	discard := func(tmps []string) string {
		if len(tmps) == 0 {
			return ""
		}
		bl := make([]string, len(tmps))
		for i := range bl {
			bl[i] = "_"
		}
		return strings.Join(bl, ", ") + " = " + strings.Join(tmps, ", ")
	}

	candOf := func(e ast.Expr) (*inlCand, *ast.CallExpr) {
		call, ok := e.(*ast.CallExpr)
		if !ok {
			return nil, nil
		}
		o := calleeObj(in.p.TypesInfo, call)
		if o == nil {
			return nil, nil
		}
		c := in.cands[o]
		if c == nil {
			return nil, nil
		}
		return c, call
	}

	// a simple statement (expression statement or assignment) whose only call is to a candidate
	simpleStmt := func(s ast.Stmt) (string, bool) {
		switch x := s.(type) {
		case *ast.ExprStmt:
			if c, call := candOf(x.X); c != nil {
				return expand(c, call, discard)
			}
		case *ast.AssignStmt:
			if len(x.Rhs) == 1 && (x.Tok == token.ASSIGN || x.Tok == token.DEFINE) {
				if c, call := candOf(x.Rhs[0]); c != nil && c.obj.Type().(*types.Signature).Results().Len() == len(x.Lhs) {
					lhs := text(x.Lhs[0].Pos(), x.Lhs[len(x.Lhs)-1].End())
					return expand(c, call, func(tmps []string) string {
						return lhs + " " + x.Tok.String() + " " + strings.Join(tmps, ", ")
					})
				}
			}
		}
		return "", false
	}

	var doList func(list []ast.Stmt)
	var doStmt func(s ast.Stmt)
	doList = func(list []ast.Stmt) {
		for _, s := range list {
			doStmt(s)
		}
	}
	var encl *ast.FuncType
	doStmt = func(s ast.Stmt) {
		switch x := s.(type) {
		case *ast.ExprStmt, *ast.AssignStmt:
			if t, ok := simpleStmt(s); ok {
				edits = append(edits, textEdit{in.off(s.Pos()), in.off(s.End()), t + " " + lineDir(name, s.End())})
				n++
				return
			}
		case *ast.ReturnStmt:
			if len(x.Results) == 1 && encl != nil {
				if c, call := candOf(x.Results[0]); c != nil {
					want := 0
					if encl.Results != nil {
						want = encl.Results.NumFields()
					}
					if c.obj.Type().(*types.Signature).Results().Len() == want && want > 0 {
						tail = true
						t, ok := expand(c, call, nil)
						tail = false
						if ok {
							edits = append(edits, textEdit{in.off(s.Pos()), in.off(s.End()), t + " " + lineDir(name, s.End())})
							n++
							return
						}
					}
				}
			}
			// several operands, some of them single-result candidate calls, the others simple: the calls are expanded
			// in order before the return
			if len(x.Results) > 1 {
				var pre []string
				ops := make([]string, len(x.Results))
				okAll, any := true, false
				for i, r := range x.Results {
					if c, call := candOf(r); c != nil && c.obj.Type().(*types.Signature).Results().Len() == 1 {
						var tmp string
						t, ok := expand(c, call, func(tmps []string) string { tmp = tmps[0]; return "" })
						if !ok {
							okAll = false
							break
						}
						pre = append(pre, t)
						ops[i] = tmp
						any = true
					} else if simpleArg(r) {
						ops[i] = text(r.Pos(), r.End())
					} else {
						okAll = false
						break
					}
				}
				if okAll && any {
					edits = append(edits, textEdit{in.off(s.Pos()), in.off(s.End()), strings.Join(pre, " ") + " return " + strings.Join(ops, ", ") + " " + lineDir(name, s.End())})
					n++
					return
				}
			}
		case *ast.IfStmt:
			if x.Init != nil {
				if t, ok := simpleStmt(x.Init); ok {
					// `if init; cond {` -> `{ init'; if cond { ... } }`
					edits = append(edits, textEdit{in.off(x.Pos()), in.off(x.Cond.Pos()), "{ " + t + "; " + lineDir(name, x.Cond.Pos()) + "if "})
					edits = append(edits, textEdit{in.off(x.End()), in.off(x.End()), " }"})
					n++
				}
			}
			doList(x.Body.List)
			if x.Else != nil {
				doStmt(x.Else)
			}
			return
		case *ast.BlockStmt:
			doList(x.List)
			return
		case *ast.ForStmt:
			doList(x.Body.List)
			return
		case *ast.RangeStmt:
			doList(x.Body.List)
			return
		case *ast.SwitchStmt:
			for _, cc := range x.Body.List {
				doList(cc.(*ast.CaseClause).Body)
			}
			return
		case *ast.TypeSwitchStmt:
			for _, cc := range x.Body.List {
				doList(cc.(*ast.CaseClause).Body)
			}
			return
		case *ast.SelectStmt:
			for _, cc := range x.Body.List {
				doList(cc.(*ast.CommClause).Body)
			}
			return
		case *ast.LabeledStmt:
			doStmt(x.Stmt)
			return
		}
	}
	for _, d := range f.Decls {
		fd, ok := d.(*ast.FuncDecl)
		if !ok || fd.Body == nil {
			continue
		}
		encl = fd.Type
		doList(fd.Body.List)
	}
	// predicate helpers (`return <expr>`) in expression position, outside the spans already rewritten
	covered := func(a, b int) bool {
		for _, e := range edits {
			if a < e.end && b > e.start && !(e.start == e.end) {
				return true
			}
		}
		return false
	}
	ast.Inspect(f, func(m ast.Node) bool {
		call, ok := m.(*ast.CallExpr)
		if !ok {
			return true
		}
		o := calleeObj(in.p.TypesInfo, call)
		c := in.cands[o]
		if o == nil || c == nil || c.pure == nil {
			return true
		}
		a, b := in.off(call.Pos()), in.off(call.End())
		if covered(a, b) {
			return true
		}
		// substitution map: parameter / receiver name -> argument text
		sub := map[types.Object]string{}
		sig := c.obj.Type().(*types.Signature)
		if sig.Recv() != nil {
			se, isSel := call.Fun.(*ast.SelectorExpr)
			if !isSel || !simpleArg(se.X) {
				return true
			}
			sel := in.p.TypesInfo.Selections[se]
			if sel == nil || len(sel.Index()) != 1 {
				return true
			}
			if len(c.fd.Recv.List) == 1 && len(c.fd.Recv.List[0].Names) == 1 {
				ro := in.p.TypesInfo.Defs[c.fd.Recv.List[0].Names[0]]
				rx := "(" + text(se.X.Pos(), se.X.End()) + ")"
				_, wantPtr := sig.Recv().Type().(*types.Pointer)
				_, havePtr := in.p.TypesInfo.TypeOf(se.X).Underlying().(*types.Pointer)
				if wantPtr != havePtr {
					// field selections auto-dereference; an explicit form is only needed when the receiver is used whole
					whole := false
					ast.Inspect(c.pure, func(k ast.Node) bool {
						if se2, ok := k.(*ast.SelectorExpr); ok {
							if id, ok := se2.X.(*ast.Ident); ok && in.p.TypesInfo.Uses[id] == ro {
								return false
							}
						}
						if id, ok := k.(*ast.Ident); ok && in.p.TypesInfo.Uses[id] == ro {
							whole = true
						}
						return true
					})
					if whole {
						return true
					}
				}
				if ro != nil {
					sub[ro] = rx
				}
			}
		}
		ai := 0
		for _, fl := range c.fd.Type.Params.List {
			if len(fl.Names) == 0 {
				ai++
				continue
			}
			for _, nm := range fl.Names {
				if ai >= len(call.Args) || !simpleArg(call.Args[ai]) {
					return true
				}
				arg := call.Args[ai]
				pt := sig.Params().At(ai).Type()
				ai++
				at := "(" + text(arg.Pos(), arg.End()) + ")"
				if tv, ok := in.p.TypesInfo.Types[arg]; !ok || tv.Type == nil || isUntyped(tv.Type) || !types.Identical(tv.Type, pt) {
					failedQ = false
					at = "(" + types.TypeString(pt, q) + ")" + at
					if failedQ {
						return true
					}
				}
				if po := in.p.TypesInfo.Defs[nm]; po != nil {
					sub[po] = at
				}
			}
		}
		if !in.freeNamesOK(c, c.pure, call.Pos()) {
			return true
		}
		// print the expression with parameters substituted
		var redits []textEdit
		boff := func(p token.Pos) int { return in.p.Fset.Position(p).Offset }
		ast.Inspect(c.pure, func(k ast.Node) bool {
			if id, ok := k.(*ast.Ident); ok {
				if t, has := sub[in.p.TypesInfo.Uses[id]]; has {
					redits = append(redits, textEdit{boff(id.Pos()), boff(id.End()), t})
				}
			}
			return true
		})
		etxt := applyEdits(c.src, redits, boff(c.pure.Pos()), boff(c.pure.End()))
		etxt = strings.ReplaceAll(etxt, "\n", " ")
		edits = append(edits, textEdit{a, b, "(" + etxt + ")"})
		in.done[c.obj]++
		n++
		return false
	})
	if n == 0 {
		return nil, 0
	}
	out := applyEdits(src, edits, 0, len(src))
	rel, _ := filepath.Rel(in.repo, name)
	in.report = append(in.report, fmt.Sprintf("%s: %d call(s) of helpers unknown to the rules inlined", rel, n))
	return []byte(out), n
}

func isUntyped(t types.Type) bool {
	b, ok := t.(*types.Basic)
	return ok && b.Info()&types.IsUntyped != 0
}

// applyEdits applies non-overlapping edits (offsets into src) to src[start:end].
func applyEdits(src []byte, edits []textEdit, start, end int) string {
	sort.SliceStable(edits, func(i, j int) bool {
		if edits[i].start != edits[j].start {
			return edits[i].start < edits[j].start
		}
		return edits[i].end < edits[j].end
	})
	var b bytes.Buffer
	pos := start
	for _, e := range edits {
		if e.start < pos || e.end > end {
			continue // nested or outside: skipped
		}
		b.Write(src[pos:e.start])
		b.WriteString(e.text)
		pos = e.end
	}
	b.Write(src[pos:end])
	return b.String()
}
