package main

import (
	"fmt"
	"go/token"
	"go/types"
	"os"
	"strings"

	"golang.org/x/tools/go/ssa"
)

// Rules added after the second round of independently seeded changes (DESIGN.md 11.6).

func init() {
	register(&Rule{ID: "C03.like", Floor: 6,
		Text: "identities are compared like with like: a user id (field uid, Uid()) is only ever compared with, or assigned from, a user id, and a group id (gid, Gid()) only a group id — the owner class is selected by uid == Uid() and the group class by gid == Gid()",
		Run:  c03Like})
	register(&Rule{ID: "C12.sub", Floor: 1,
		Text: "the file system returned by FailFS.Sub carries the receiver's failure function (whole-struct copy of the receiver, or an explicit copy of failFunc): a failure plan or the read-only plan keeps applying through the view",
		Run:  c12Sub})
	register(&Rule{ID: "C16.trunc", Floor: 1,
		Text: "CopyFileHash opens the destination so that it holds exactly the copied bytes afterwards: through Create, or OpenFile with a constant flag containing O_CREATE|O_TRUNC and write access",
		Run:  c16Trunc})
	register(&Rule{ID: "C17.volkey", Floor: 4, Also: []string{"C11"},
		Text: "every index of the volumes map of MemFS uses a volume name: the result of VolumeName(...) / PathIterator.VolumeName(), or the DefaultVolume constant — never a caller's raw path",
		Run:  c17VolKey})
	register(&Rule{ID: "C17.errcmp", Floor: 20,
		Text: "MemFS and OrefaFS classify errors through their per-OS error table (vfs.err.X): no error value is compared with a constant of one OS family (avfs.LinuxError / avfs.WindowsError)",
		Run:  c17ErrCmp})
}

func idKind(v ssa.Value) string {
	v = strip(v)
	switch x := v.(type) {
	case *ssa.UnOp:
		if x.Op == token.MUL {
			if fa, ok := x.X.(*ssa.FieldAddr); ok {
				switch fieldName(fa.X.Type(), fa.Field) {
				case "uid":
					return "uid"
				case "gid":
					return "gid"
				}
			}
		}
	case *ssa.Call:
		if fn := calleeFunc(x); fn != nil {
			switch fn.Name() {
			case "Uid":
				return "uid"
			case "Gid":
				return "gid"
			}
		}
	case *ssa.Parameter:
		switch x.Name() {
		case "uid":
			return "uid"
		case "gid":
			return "gid"
		}
	}
	return ""
}

func c03Like(rc *RuleCtx) {
	for _, pk := range []string{"memfs", "orefafs", "memidm", "avfs"} {
		for _, f := range rc.C.srcFuncs(pk) {
			n := 0
			eachInstr(f, func(in ssa.Instruction) {
				switch x := in.(type) {
				case *ssa.BinOp:
					if x.Op != token.EQL && x.Op != token.NEQ {
						return
					}
					a, b := idKind(x.X), idKind(x.Y)
					if a == "" || b == "" {
						return
					}
					n++
					cons := fmt.Sprintf("%s compare#%d %s with %s", funcName(f), n, a, b)
					if a != b {
						rc.bad(cons, x.Pos(), "a "+a+" is compared with a "+b+": the permission class (owner / group / other) is selected by comparing identities of different kinds, so group members are treated as others (or strangers as group members) whenever uid and gid numbers differ")
					} else {
						rc.good(cons, x.Pos(), "like with like")
					}
				case *ssa.Store:
					fa, ok := x.Addr.(*ssa.FieldAddr)
					if !ok {
						return
					}
					fld := fieldName(fa.X.Type(), fa.Field)
					if fld != "uid" && fld != "gid" {
						return
					}
					k := idKind(x.Val)
					if k == "" {
						return
					}
					n++
					cons := fmt.Sprintf("%s store#%d %s <- %s", funcName(f), n, fld, k)
					if k != fld {
						rc.bad(cons, x.Pos(), "a "+k+" is stored into a "+fld+" field")
					} else {
						rc.good(cons, x.Pos(), "like with like")
					}
				case ssa.CallInstruction:
					// arguments named uid/gid in the callee receive values of the same kind
					sc := x.Common().StaticCallee()
					if sc == nil || len(sc.Params) != len(x.Common().Args) {
						return
					}
					for i, p := range sc.Params {
						want := ""
						if p.Name() == "uid" || p.Name() == "gid" {
							want = p.Name()
						}
						got := idKind(x.Common().Args[i])
						if want == "" || got == "" {
							continue
						}
						n++
						cons := fmt.Sprintf("%s call#%d %s(%s <- %s)", funcName(f), n, sc.Name(), want, got)
						if want != got {
							rc.bad(cons, x.Pos(), "a "+got+" is passed where the callee expects a "+want)
						} else {
							rc.good(cons, x.Pos(), "like with like")
						}
					}
				}
			})
		}
	}
}

func c12Sub(rc *RuleCtx) {
	f := rc.C.method("failfs", "FailFS", "Sub")
	if f == nil {
		rc.anchor("failfs.(*FailFS).Sub")
		return
	}
	cons := funcName(f) + " keeps-failure-function"
	recv := f.Params[0]
	bad := ""
	n := 0
	for _, r := range returnsOf(f) {
		v := strip(resolve1(r.Results[0]))
		if isNilConst(v) {
			continue
		}
		n++
		ok := false
		switch x := v.(type) {
		case *ssa.Alloc:
			for _, u := range referrersOf(x) {
				switch y := u.(type) {
				case *ssa.Store:
					// *x = *recv
					if y.Addr == ssa.Value(x) {
						if ld, isLd := y.Val.(*ssa.UnOp); isLd && ld.Op == token.MUL && rootAlloc(ld.X) == ssa.Value(recv) {
							ok = true
						}
					}
				case *ssa.FieldAddr:
					if fieldName(y.X.Type(), y.Field) == "failFunc" {
						for _, st := range storesTo(y) {
							if isRecvFieldLoad(f, strip(st.Val), "failFunc") {
								ok = true
							}
						}
					}
				}
			}
		case *ssa.Call:
			// a constructor call: the result must then receive the receiver's failFunc
			for _, u := range referrersOf(x) {
				if fa, isFA := u.(*ssa.FieldAddr); isFA && fieldName(fa.X.Type(), fa.Field) == "failFunc" {
					for _, st := range storesTo(fa) {
						if isRecvFieldLoad(f, strip(st.Val), "failFunc") {
							ok = true
						}
					}
				}
				if c, isC := u.(ssa.CallInstruction); isC {
					if fn := calleeFunc(c); fn != nil && fn.Name() == "SetFailFunc" {
						if a := callArgs(c); len(a) == 1 && isRecvFieldLoad(f, strip(a[0]), "failFunc") {
							ok = true
						}
					}
				}
			}
		}
		if !ok {
			bad = "the file system returned by Sub does not carry the receiver's failure function: calls through the view are never made to fail, and with the read-only plan the view is writable"
		}
	}
	if n == 0 {
		bad = "no successful return found"
	}
	if bad != "" {
		rc.bad(cons, f.Pos(), bad)
	} else {
		rc.good(cons, f.Pos(), "the returned FailFS is a copy of the receiver (or receives its failFunc)")
	}
}

func c16Trunc(rc *RuleCtx) {
	f := rc.C.fn("avfs", "CopyFileHash")
	if f == nil {
		rc.anchor("avfs.CopyFileHash")
		return
	}
	cons := "avfs.CopyFileHash destination-truncated"
	dstFs := f.Params[0]
	ok, why := false, "the destination is not opened through dstFs.Create or dstFs.OpenFile"
	eachCall(f, func(ci ssa.CallInstruction) {
		fn := calleeFunc(ci)
		if fn == nil || !ci.Common().IsInvoke() || ci.Common().Value != ssa.Value(dstFs) {
			return
		}
		switch fn.Name() {
		case "Create":
			ok = true
		case "OpenFile":
			flag, isC := constInt(callArgs(ci)[1])
			need := int64(os.O_CREATE | os.O_TRUNC)
			switch {
			case !isC:
				why = "the destination is opened with a flag that is not a constant"
			case flag&need != need:
				why = fmt.Sprintf("the destination is opened with flag %#x, without O_CREATE|O_TRUNC: when it already exists and is longer than the source, the old tail stays and the copy is reported as successful", flag)
			case flag&int64(os.O_WRONLY|os.O_RDWR) == 0:
				why = "the destination is not opened for writing"
			default:
				ok = true
			}
		}
	})
	if ok {
		rc.good(cons, f.Pos(), "destination created or truncated before the copy")
	} else {
		rc.bad(cons, f.Pos(), why)
	}
}

func c17VolKey(rc *RuleCtx) {
	n := 0
	for _, f := range rc.C.srcFuncs("memfs") {
		check := func(in ssa.Instruction, m, key ssa.Value, what string) {
			ld, ok := stripCT(m).(*ssa.UnOp)
			if !ok || ld.Op != token.MUL {
				return
			}
			fa, ok := ld.X.(*ssa.FieldAddr)
			if !ok || fieldName(fa.X.Type(), fa.Field) != "volumes" {
				return
			}
			n++
			cons := fmt.Sprintf("%s %s volumes[%s]", funcName(f), what, prettyVal(key, 0))
			k := resolve1(key)
			if c, _ := resultOfCall(k); c != nil && calleeFunc(c) != nil && calleeFunc(c).Name() == "VolumeName" {
				rc.good(cons, in.Pos(), "key is a VolumeName(...) result")
				return
			}
			if cst, isC := strip(k).(*ssa.Const); isC && cst.Value != nil {
				rc.good(cons, in.Pos(), "key is a constant volume name")
				return
			}
			// a local holding one of the above on every path
			allOK := true
			for _, rv := range resolve(key) {
				c, _ := resultOfCall(rv)
				_, isC := strip(rv).(*ssa.Const)
				if !(isC || (c != nil && calleeFunc(c) != nil && calleeFunc(c).Name() == "VolumeName")) {
					allOK = false
				}
			}
			if allOK && len(resolve(key)) > 0 && resolve(key)[0] != strip(key) {
				rc.good(cons, in.Pos(), "key is a local that always holds a volume name")
				return
			}
			rc.bad(cons, in.Pos(), "the volumes map is indexed with "+prettyVal(key, 0)+", which is not a volume name computed by VolumeName: a volume registered or looked up under a raw path (\"D:\\\\\" instead of \"D:\") is never found by the path walk")
		}
		eachInstr(f, func(in ssa.Instruction) {
			switch x := in.(type) {
			case *ssa.Lookup:
				check(x, x.X, x.Index, "lookup")
			case *ssa.MapUpdate:
				check(x, x.Map, x.Key, "insert")
			case *ssa.Call:
				if b, ok := x.Call.Value.(*ssa.Builtin); ok && b.Name() == "delete" && len(x.Call.Args) == 2 {
					check(x, x.Call.Args[0], x.Call.Args[1], "delete")
				}
			}
		})
	}
	if n == 0 {
		rc.anchor("indexes of MemFS.volumes")
	}
}

func c17ErrCmp(rc *RuleCtx) {
	for _, pk := range []string{"memfs", "orefafs"} {
		for _, f := range rc.C.srcFuncs(pk) {
			n := 0
			eachInstr(f, func(in ssa.Instruction) {
				b, ok := in.(*ssa.BinOp)
				if !ok || (b.Op != token.EQL && b.Op != token.NEQ) || !isErrorType(b.X.Type()) {
					return
				}
				if isNilConst(b.X) || isNilConst(b.Y) {
					return
				}
				n++
				cons := fmt.Sprintf("%s error-compare#%d", funcName(f), n)
				fam := ""
				for _, o := range []ssa.Value{b.X, b.Y} {
					if mi, isMI := o.(*ssa.MakeInterface); isMI {
						if nt, isN := mi.X.Type().(*types.Named); isN && nt.Obj().Pkg() != nil && nt.Obj().Pkg().Path() == modPath &&
							(nt.Obj().Name() == "LinuxError" || nt.Obj().Name() == "WindowsError") {
							if _, isC := mi.X.(*ssa.Const); isC {
								fam = nt.Obj().Name()
							}
						}
					}
				}
				if fam != "" {
					// allowed when the function has established the matching OS type on this path
					guarded := false
					for _, fa := range factsAt(b.Block()) {
						v, _ := normCond(fa.Cond, fa.Truth)
						if bo, isB := v.(*ssa.BinOp); isB && isCallNamed(bo.X, "OSType") {
							guarded = true
						}
					}
					if !guarded {
						rc.bad(cons, b.Pos(), "an error value is compared with a "+fam+" constant instead of the entry of the per-OS error table (vfs.err.X): on a file system of the other OS family the comparison never holds")
						return
					}
				}
				rc.good(cons, b.Pos(), "compared through the per-OS error table")
			})
		}
	}
	_ = strings.Join
}
