package main

import (
	"fmt"
	"go/constant"
	"go/token"
	"go/types"
	"os"
	"sort"
	"strings"

	"golang.org/x/tools/go/ssa"
)

// Rules added after the second round of independently seeded changes (DESIGN.md 11.6).

func init() {
	register(&Rule{ID: "C03.like", Floor: 6,
		Text: "identities are compared like with like: a user id (field uid, Uid()) is only ever compared with, or assigned from, a user id, and a group id (gid, Gid()) only a group id — the owner class is selected by uid == Uid() and the group class by gid == Gid()",
		Run:  c03Like})
	register(&Rule{ID: "C12.sub", Floor: 1,
		Text: "the file system returned by FailFS.Sub carries the receiver's failure function (whole-struct copy of the receiver, or an explicit copy of failFunc): a failure plan or the read-only plan keeps applying through the view",
		Run:  c12Sub})
	register(&Rule{ID: "C16.trunc", Floor: 2, Also: []string{"C02"},
		Text: "CopyFileHash opens the destination so that it holds exactly the copied bytes afterwards: through Create, or OpenFile with a constant flag containing O_CREATE|O_TRUNC and write access; and the generic Create behind the Create method of the module's file systems opens with such a flag",
		Run:  c16Trunc})
	register(&Rule{ID: "C17.volkey", Floor: 4, Also: []string{"C11"},
		Text: "every index of the volumes map of MemFS uses a volume name: the result of VolumeName(...) / PathIterator.VolumeName(), or the DefaultVolume constant — never a caller's raw path",
		Run:  c17VolKey})
	register(&Rule{ID: "C17.errcmp", Floor: 20, Also: []string{"C16"}, AlsoOnly: map[string][]string{"C16": {").Stat ", ").OpenFile ", ").Chmod "}}, AlsoFloor: map[string]int{"C16": 1},
		Text: "MemFS and OrefaFS classify errors through their per-OS error table (vfs.err.X): no error value is compared with a constant of one OS family (avfs.LinuxError / avfs.WindowsError)",
		Run:  c17ErrCmp})
}

func idKind(v ssa.Value) string {
	v = strip(v)
	switch x := v.(type) {
	case *ssa.UnOp:
		if x.Op == token.MUL {
			if fa, ok := x.X.(*ssa.FieldAddr); ok {
				switch fieldName(fa.X.Type(), fa.Field) {
				case "uid":
					return "uid"
				case "gid":
					return "gid"
				}
			}
		}
	case *ssa.Call:
		if fn := calleeFunc(x); fn != nil {
			switch nm(fn) {
			case "Uid":
				return "uid"
			case "Gid":
				return "gid"
			}
		}
	case *ssa.Parameter:
		switch nm(x) {
		case "uid":
			return "uid"
		case "gid":
			return "gid"
		}
	}
	return ""
}

func c03Like(rc *RuleCtx) {
	for _, pk := range []string{"memfs", "orefafs", "memidm", "avfs"} {
		for _, f := range rc.C.srcFuncs(pk) {
			n := 0
			eachInstr(f, func(in ssa.Instruction) {
				switch x := in.(type) {
				case *ssa.BinOp:
					if x.Op != token.EQL && x.Op != token.NEQ {
						return
					}
					a, b := idKind(x.X), idKind(x.Y)
					if a == "" || b == "" {
						return
					}
					n++
					cons := fmt.Sprintf("%s compare#%d %s with %s", funcName(f), n, a, b)
					if a != b {
						rc.bad(cons, x.Pos(), "a "+a+" is compared with a "+b+": the permission class (owner / group / other) is selected by comparing identities of different kinds, so group members are treated as others (or strangers as group members) whenever uid and gid numbers differ")
					} else {
						rc.good(cons, x.Pos(), "like with like")
					}
				case *ssa.Store:
					fa, ok := x.Addr.(*ssa.FieldAddr)
					if !ok {
						return
					}
					fld := fieldName(fa.X.Type(), fa.Field)
					if fld != "uid" && fld != "gid" {
						return
					}
					k := idKind(x.Val)
					if k == "" {
						return
					}
					n++
					cons := fmt.Sprintf("%s store#%d %s <- %s", funcName(f), n, fld, k)
					if k != fld {
						rc.bad(cons, x.Pos(), "a "+k+" is stored into a "+fld+" field")
					} else {
						rc.good(cons, x.Pos(), "like with like")
					}
				case ssa.CallInstruction:
					// arguments named uid/gid in the callee receive values of the same kind
					sc := x.Common().StaticCallee()
					if sc == nil || len(sc.Params) != len(x.Common().Args) {
						return
					}
					for i, p := range sc.Params {
						want := ""
						if p.Name() == "uid" || p.Name() == "gid" {
							want = p.Name()
						}
						got := idKind(x.Common().Args[i])
						if want == "" || got == "" {
							continue
						}
						n++
						cons := fmt.Sprintf("%s call#%d %s(%s <- %s)", funcName(f), n, sc.Name(), want, got)
						if want != got {
							rc.bad(cons, x.Pos(), "a "+got+" is passed where the callee expects a "+want)
						} else {
							rc.good(cons, x.Pos(), "like with like")
						}
					}
				}
			})
		}
	}
}

func c12Sub(rc *RuleCtx) {
	f := rc.C.method("failfs", "FailFS", "Sub")
	if f == nil {
		rc.anchor("failfs.(*FailFS).Sub")
		return
	}
	cons := funcName(f) + " keeps-failure-function"
	recv := f.Params[0]
	bad := ""
	n := 0
	for _, r := range returnsOf(f) {
		v := strip(resolve1(r.Results[0]))
		if isNilConst(v) {
			continue
		}
		n++
		ok := false
		switch x := v.(type) {
		case *ssa.Alloc:
			for _, u := range referrersOf(x) {
				switch y := u.(type) {
				case *ssa.Store:
					// *x = *recv
					if y.Addr == ssa.Value(x) {
						if ld, isLd := y.Val.(*ssa.UnOp); isLd && ld.Op == token.MUL && rootAlloc(ld.X) == ssa.Value(recv) {
							ok = true
						}
					}
				case *ssa.FieldAddr:
					if fieldName(y.X.Type(), y.Field) == "failFunc" {
						for _, st := range storesTo(y) {
							if isRecvFieldLoad(f, strip(st.Val), "failFunc") {
								ok = true
							}
						}
					}
				}
			}
		case *ssa.Call:
			// a constructor call: the result must then receive the receiver's failFunc
			for _, u := range referrersOf(x) {
				if fa, isFA := u.(*ssa.FieldAddr); isFA && fieldName(fa.X.Type(), fa.Field) == "failFunc" {
					for _, st := range storesTo(fa) {
						if isRecvFieldLoad(f, strip(st.Val), "failFunc") {
							ok = true
						}
					}
				}
				if c, isC := u.(ssa.CallInstruction); isC {
					if fn := calleeFunc(c); fn != nil && fn.Name() == "SetFailFunc" {
						if a := callArgs(c); len(a) == 1 && isRecvFieldLoad(f, strip(a[0]), "failFunc") {
							ok = true
						}
					}
				}
			}
		}
		if !ok {
			bad = "the file system returned by Sub does not carry the receiver's failure function: calls through the view are never made to fail, and with the read-only plan the view is writable"
		}
	}
	if n == 0 {
		bad = "no successful return found"
	}
	if bad != "" {
		rc.bad(cons, f.Pos(), bad)
	} else {
		rc.good(cons, f.Pos(), "the returned FailFS is a copy of the receiver (or receives its failFunc)")
	}
}

func c16Trunc(rc *RuleCtx) {
	f := rc.C.fn("avfs", "CopyFileHash")
	if f == nil {
		rc.anchor("avfs.CopyFileHash")
		return
	}
	cons := "avfs.CopyFileHash destination-truncated"
	dstFs := f.Params[0]
	ok, why := false, "the destination is not opened through dstFs.Create or dstFs.OpenFile"
	eachCall(f, func(ci ssa.CallInstruction) {
		fn := calleeFunc(ci)
		if fn == nil || !ci.Common().IsInvoke() || ci.Common().Value != ssa.Value(dstFs) {
			return
		}
		switch nm(fn) {
		case "Create":
			ok = true
		case "OpenFile":
			flag, isC := constInt(callArgs(ci)[1])
			need := int64(os.O_CREATE | os.O_TRUNC)
			switch {
			case !isC:
				why = "the destination is opened with a flag that is not a constant"
			case flag&need != need:
				why = fmt.Sprintf("the destination is opened with flag %#x, without O_CREATE|O_TRUNC: when it already exists and is longer than the source, the old tail stays and the copy is reported as successful", flag)
			case flag&int64(os.O_WRONLY|os.O_RDWR) == 0:
				why = "the destination is not opened for writing"
			default:
				ok = true
			}
		}
	})
	if ok {
		rc.good(cons, f.Pos(), "destination created or truncated before the copy")
	} else {
		rc.bad(cons, f.Pos(), why)
	}
	// Create itself: the generic helper behind the Create method of the file systems of the module
	cf := rc.C.fn("avfs", "Create")
	cons = "avfs.Create opens with O_CREATE|O_TRUNC"
	if cf == nil || len(cf.Blocks) == 0 {
		rc.anchor("avfs.Create")
		return
	}
	ok, why = false, "Create does not open the file through OpenFile"
	eachCall(cf, func(ci ssa.CallInstruction) {
		fn := calleeFunc(ci)
		if fn == nil || nm(fn) != "OpenFile" {
			return
		}
		args := callArgs(ci)
		if len(args) < 2 {
			return
		}
		flag, isC := constInt(args[1])
		need := int64(os.O_CREATE | os.O_TRUNC)
		switch {
		case !isC:
			why = "Create opens with a flag that is not a constant"
		case flag&need != need:
			why = fmt.Sprintf("Create opens with flag %#x, without O_CREATE|O_TRUNC: an existing file keeps its content, so a copy over a longer destination leaves the old tail and is reported as successful", flag)
		case flag&int64(os.O_WRONLY|os.O_RDWR) == 0:
			why = "Create does not open for writing"
		default:
			ok = true
		}
	})
	if ok {
		rc.good(cons, cf.Pos(), "constant flag with O_CREATE|O_TRUNC and write access")
	} else {
		rc.bad(cons, cf.Pos(), why)
	}
}

func c17VolKey(rc *RuleCtx) {
	n := 0
	for _, f := range rc.C.srcFuncs("memfs") {
		check := func(in ssa.Instruction, m, key ssa.Value, what string) {
			ld, ok := stripCT(m).(*ssa.UnOp)
			if !ok || ld.Op != token.MUL {
				return
			}
			fa, ok := ld.X.(*ssa.FieldAddr)
			if !ok || fieldName(fa.X.Type(), fa.Field) != "volumes" {
				return
			}
			n++
			cons := fmt.Sprintf("%s %s volumes[%s]", funcName(f), what, prettyVal(key, 0))
			k := resolve1(key)
			if c, _ := resultOfCall(k); c != nil && calleeFunc(c) != nil && calleeFunc(c).Name() == "VolumeName" {
				rc.good(cons, in.Pos(), "key is a VolumeName(...) result")
				return
			}
			if cst, isC := strip(k).(*ssa.Const); isC && cst.Value != nil {
				rc.good(cons, in.Pos(), "key is a constant volume name")
				return
			}
			// a local holding one of the above on every path
			allOK := true
			for _, rv := range resolve(key) {
				c, _ := resultOfCall(rv)
				_, isC := strip(rv).(*ssa.Const)
				if !(isC || (c != nil && calleeFunc(c) != nil && calleeFunc(c).Name() == "VolumeName")) {
					allOK = false
				}
			}
			if allOK && len(resolve(key)) > 0 && resolve(key)[0] != strip(key) {
				rc.good(cons, in.Pos(), "key is a local that always holds a volume name")
				return
			}
			rc.bad(cons, in.Pos(), "the volumes map is indexed with "+prettyVal(key, 0)+", which is not a volume name computed by VolumeName: a volume registered or looked up under a raw path (\"D:\\\\\" instead of \"D:\") is never found by the path walk")
		}
		eachInstr(f, func(in ssa.Instruction) {
			switch x := in.(type) {
			case *ssa.Lookup:
				check(x, x.X, x.Index, "lookup")
			case *ssa.MapUpdate:
				check(x, x.Map, x.Key, "insert")
			case *ssa.Call:
				if b, ok := x.Call.Value.(*ssa.Builtin); ok && nm(b) == "delete" && len(x.Call.Args) == 2 {
					check(x, x.Call.Args[0], x.Call.Args[1], "delete")
				}
			}
		})
	}
	if n == 0 {
		rc.anchor("indexes of MemFS.volumes")
	}
}

func c17ErrCmp(rc *RuleCtx) {
	for _, pk := range []string{"memfs", "orefafs"} {
		for _, f := range rc.C.srcFuncs(pk) {
			n := 0
			eachInstr(f, func(in ssa.Instruction) {
				b, ok := in.(*ssa.BinOp)
				if !ok || (b.Op != token.EQL && b.Op != token.NEQ) || !isErrorType(b.X.Type()) {
					return
				}
				if isNilConst(b.X) || isNilConst(b.Y) {
					return
				}
				n++
				cons := fmt.Sprintf("%s error-compare#%d", funcName(f), n)
				fam := ""
				for _, o := range []ssa.Value{b.X, b.Y} {
					if mi, isMI := o.(*ssa.MakeInterface); isMI {
						if nt, isN := mi.X.Type().(*types.Named); isN && nt.Obj().Pkg() != nil && nt.Obj().Pkg().Path() == modPath &&
							(nt.Obj().Name() == "LinuxError" || nt.Obj().Name() == "WindowsError") {
							if _, isC := mi.X.(*ssa.Const); isC {
								fam = nt.Obj().Name()
							}
						}
					}
				}
				if fam != "" {
					// allowed when the function has established the matching OS type on this path
					guarded := false
					for _, fa := range factsAt(b.Block()) {
						v, _ := normCond(fa.Cond, fa.Truth)
						if bo, isB := v.(*ssa.BinOp); isB && isCallNamed(bo.X, "OSType") {
							guarded = true
						}
					}
					if !guarded {
						rc.bad(cons, b.Pos(), "an error value is compared with a "+fam+" constant instead of the entry of the per-OS error table (vfs.err.X): on a file system of the other OS family the comparison never holds")
						return
					}
				}
				rc.good(cons, b.Pos(), "compared through the per-OS error table")
			})
		}
	}
	_ = strings.Join
}

func init() {
	register(&Rule{ID: "C05.rootpair", Floor: 3, Also: []string{"C07", "C01", "C11"},
		Text: "the path walk of MemFS returns the root directory as its own parent: a call that removes an entry from the parent result of a walk (Remove, RemoveAll, Rename) does so only after testing that the (parent, child) results of that walk are distinct objects - otherwise the root is locked twice, or re-inserted below one of its descendants (a cyclic tree)",
		Run:  c05RootPair})
}

func c05RootPair(rc *RuleCtx) {
	for _, f := range rc.C.srcFuncs("memfs") {
		n := 0
		eachCall(f, func(ci ssa.CallInstruction) {
			fn := calleeFunc(ci)
			if fn == nil || nm(fn) != "removeChild" {
				return
			}
			recv := callRecv(ci)
			if recv == nil {
				return
			}
			pe, ok := stripToExtract(recv)
			if !ok || pe.Index != 0 {
				return
			}
			wc, isCall := pe.Tuple.(*ssa.Call)
			if !isCall || calleeFunc(wc) == nil || nm(calleeFunc(wc)) != "searchNode" {
				return
			}
			var ce *ssa.Extract
			for _, u := range referrersOf(wc) {
				if e, isE := u.(*ssa.Extract); isE && e.Index == 1 {
					ce = e
				}
			}
			n++
			cons := fmt.Sprintf("%s removeChild#%d on %s", funcName(f), n, prettyVal(recv, 0))
			if ce == nil {
				rc.bad(cons, ci.Pos(), "an entry is removed from the parent result of a walk whose child result is ignored")
				return
			}
			if distinctFact(ci, objKeyOf(pe), objKeyOf(ce)) {
				rc.good(cons, ci.Pos(), "(parent, child) of the walk tested to be distinct before the entry is removed")
			} else {
				rc.bad(cons, ci.Pos(), "the entry is removed without a test that the walk's parent and child results are distinct: for the path of the root directory they are the same node (Remove/RemoveAll lock it twice and never return; Rename inserts the root below its own descendant and the tree becomes cyclic)")
			}
		})
	}
}

func init() {
	register(&Rule{ID: "C05.pardir", Floor: 5, Also: []string{"C01"},
		Text: "OrefaFS keeps directories and files in one node type: an entry is added below a node (addChild, createDir, createFile) only after that node's mode has been tested to be a directory on the path to the act, or the node is a directory created by the same call - otherwise a file acquires children and the index holds paths that no walk can reach",
		Run:  c05ParDir})
}

func isDirFactOn(site ssa.Instruction, v ssa.Value) bool {
	want := objKeyOf(v).s
	for _, fa := range factsAt(site.Block()) {
		c, truth := normCond(fa.Cond, fa.Truth)
		call, ok := c.(*ssa.Call)
		if !ok || !truth {
			continue
		}
		fn := calleeFunc(call)
		if fn == nil || fn.Name() != "IsDir" {
			continue
		}
		args := callArgs(call)
		var x ssa.Value
		if r := callRecv(call); r != nil {
			x = r
		} else if len(args) > 0 {
			x = args[0]
		}
		ld, ok := strip(x).(*ssa.UnOp)
		if !ok || ld.Op != token.MUL {
			continue
		}
		fad, ok := ld.X.(*ssa.FieldAddr)
		if !ok || fieldName(fad.X.Type(), fad.Field) != "mode" {
			continue
		}
		if fad.X == v || objKeyOf(fad.X).s == want {
			return true
		}
	}
	return false
}

func knownDir(site ssa.Instruction, v ssa.Value, depth int) bool {
	if depth > 4 {
		return false
	}
	if c, _ := resultOfCall(v); c != nil {
		if fn := calleeFunc(c); fn != nil && nm(fn) == "createDir" {
			return true
		}
	}
	if isDirFactOn(site, v) {
		return true
	}
	if phi, ok := v.(*ssa.Phi); ok {
		for _, e := range phi.Edges {
			if e == ssa.Value(phi) {
				continue
			}
			if !knownDir(site, e, depth+1) {
				return false
			}
		}
		return true
	}
	for _, rv := range resolve(v) {
		if rv == v {
			return false
		}
		if !knownDir(site, rv, depth+1) {
			return false
		}
	}
	return len(resolve(v)) > 0
}

func c05ParDir(rc *RuleCtx) {
	for _, f := range rc.C.srcFuncs("orefafs") {
		n := 0
		eachCall(f, func(ci ssa.CallInstruction) {
			fn := calleeFunc(ci)
			if fn == nil {
				return
			}
			var parent ssa.Value
			switch nm(fn) {
			case "addChild":
				parent = callRecv(ci)
			case "createDir", "createFile", "createNode":
				if a := callArgs(ci); len(a) > 0 {
					parent = a[0]
				}
			default:
				return
			}
			if parent == nil || recvNamed(fn) == nil || recvNamed(fn).Obj().Pkg().Path() != modPath+"/vfs/orefafs" {
				return
			}
			if _, isParam := strip(parent).(*ssa.Parameter); isParam && !isEntryPoint(f) {
				return // internal helper: the obligation is on its callers
			}
			n++
			cons := fmt.Sprintf("%s %s#%d below %s", funcName(f), fn.Name(), n, prettyVal(parent, 0))
			if knownDir(ci, parent, 0) {
				rc.good(cons, ci.Pos(), "the node was tested to be a directory (or created as one) before the entry is added")
			} else {
				rc.bad(cons, ci.Pos(), "an entry is added below "+prettyVal(parent, 0)+" without a test that it is a directory: with a regular file in that position the call succeeds (Linux answers ENOTDIR) and the file acquires children")
			}
		})
	}
}

func init() {
	register(&Rule{ID: "C01.rootkey", Floor: 30, Also: []string{"C14", "C05", "C17"},
		Text: "OrefaFS registers the root directory of a volume under the volume name (the absolute path without its trailing separator), which Abs never returns: every key of the path index is produced by absKey (Abs, then the root's separator removed), by SplitAbs / concatenation of such keys, or by ranging over the index - never by a raw Abs result, under which the root directory cannot be found (Stat, Chdir, ReadDir and WalkDir of \"/\" fail, Mkdir(\"/\") creates a second root)",
		Run:  c01RootKey})
}

// rawAbsSource walks the definition of a string value backwards and reports a call of Abs whose result reaches it
// without passing through absKey.
func rawAbsSource(c *Config, v ssa.Value, depth int, seen map[ssa.Value]bool) ssa.Instruction {
	if v == nil || depth > 14 || seen[v] {
		return nil
	}
	seen[v] = true
	switch x := v.(type) {
	case *ssa.Call:
		fn := calleeFunc(x)
		if fn == nil {
			return nil
		}
		switch nm(fn) {
		case "absKey":
			return nil
		case "Abs":
			return x
		case "SplitAbs", "Split", "Dir", "Clean", "Join", "TrimSuffix", "TrimPrefix", "TrimRight":
			for _, a := range callArgs(x) {
				if s := rawAbsSource(c, a, depth+1, seen); s != nil {
					return s
				}
			}
			return nil
		}
		if sc := x.Call.StaticCallee(); sc != nil && sc.Pkg != nil && sc.Pkg.Pkg.Path() == modPath+"/vfs/orefafs" {
			for _, r := range returnsOf(sc) {
				for _, res := range r.Results {
					if isStringType(res.Type()) {
						if s := rawAbsSource(c, res, depth+1, seen); s != nil {
							return s
						}
					}
				}
			}
		}
		return nil
	case *ssa.Extract:
		return rawAbsSource(c, x.Tuple, depth+1, seen)
	case *ssa.BinOp:
		if s := rawAbsSource(c, x.X, depth+1, seen); s != nil {
			return s
		}
		return rawAbsSource(c, x.Y, depth+1, seen)
	case *ssa.Slice:
		return rawAbsSource(c, x.X, depth+1, seen)
	case *ssa.Phi:
		for _, e := range x.Edges {
			if s := rawAbsSource(c, e, depth+1, seen); s != nil {
				return s
			}
		}
	case *ssa.UnOp:
		if x.Op == token.MUL {
			if al, ok := x.X.(*ssa.Alloc); ok {
				for _, st := range storesTo(al) {
					if s := rawAbsSource(c, st.Val, depth+1, seen); s != nil {
						return s
					}
				}
			}
		}
	case *ssa.ChangeType:
		return rawAbsSource(c, x.X, depth+1, seen)
	case *ssa.Convert:
		return rawAbsSource(c, x.X, depth+1, seen)
	case *ssa.Parameter:
		// an unexported helper: look at what its callers pass
		f := x.Parent()
		if f == nil || isEntryPoint(f) {
			return nil
		}
		idx := paramIdxRaw(f, x)
		for _, g := range c.srcFuncs("orefafs") {
			var found ssa.Instruction
			eachCall(g, func(ci ssa.CallInstruction) {
				if found != nil || ci.Common().StaticCallee() != f || idx >= len(ci.Common().Args) {
					return
				}
				found = rawAbsSource(c, ci.Common().Args[idx], depth+1, seen)
			})
			if found != nil {
				return found
			}
		}
	}
	return nil
}

func isStringType(t types.Type) bool {
	b, ok := t.Underlying().(*types.Basic)
	return ok && b.Info()&types.IsString != 0
}

func c01RootKey(rc *RuleCtx) {
	ak := rc.C.method("orefafs", "OrefaFS", "absKey")
	if ak == nil {
		rc.anchor("orefafs.(*OrefaFS).absKey (the function that turns a caller's path into a key of the path index)")
	} else {
		// shape: one return is the Abs result, the other a prefix of it whose length is VolumeNameLen
		callsAbs, slices := false, false
		eachCall(ak, func(ci ssa.CallInstruction) {
			if fn := calleeFunc(ci); fn != nil && fn.Name() == "Abs" {
				callsAbs = true
			}
		})
		for _, r := range returnsOf(ak) {
			for _, rv := range resolve(r.Results[0]) {
				if sl, ok := strip(rv).(*ssa.Slice); ok && sl.High != nil && sl.Low == nil {
					// the prefix is cut at the volume-name length OF THE ABSOLUTE PATH being cut (not of the caller's
					// string, which may name the root without its volume)
					if c, _ := resultOfCall(sl.High); c != nil && calleeFunc(c) != nil && calleeFunc(c).Name() == "VolumeNameLen" {
						args := callArgs(c)
						if len(args) > 0 && sameValue(resolve1(args[len(args)-1]), resolve1(sl.X)) {
							slices = true
						}
					}
				}
			}
		}
		cons := funcName(ak) + " shape"
		if callsAbs && slices {
			rc.good(cons, ak.Pos(), "Abs of the argument; a root directory is cut to its volume name")
		} else {
			rc.bad(cons, ak.Pos(), "absKey no longer maps the absolute path of a root directory to the volume name under which the constructor registers it")
		}
	}
	isNodes := func(m ssa.Value) bool {
		ld, ok := stripCT(m).(*ssa.UnOp)
		if !ok || ld.Op != token.MUL {
			return false
		}
		fa, ok := ld.X.(*ssa.FieldAddr)
		return ok && fieldName(fa.X.Type(), fa.Field) == "nodes"
	}
	for _, f := range rc.C.srcFuncs("orefafs") {
		if f == ak {
			continue
		}
		n := 0
		check := func(in ssa.Instruction, key ssa.Value, what string) {
			n++
			cons := fmt.Sprintf("%s %s#%d nodes[%s]", funcName(f), what, n, prettyVal(key, 0))
			if src := rawAbsSource(rc.C, key, 0, map[ssa.Value]bool{}); src != nil {
				rc.bad(cons, in.Pos(), "the key derives from the raw result of Abs at "+rc.C.pos(src.Pos())+": for the path of a root directory Abs returns the volume name followed by a separator, a key under which nothing is registered")
			} else {
				rc.good(cons, in.Pos(), "key produced by absKey / SplitAbs of a key / a key of the index / a volume name")
			}
		}
		eachInstr(f, func(in ssa.Instruction) {
			switch x := in.(type) {
			case *ssa.Lookup:
				if isNodes(x.X) {
					check(x, x.Index, "lookup")
				}
			case *ssa.MapUpdate:
				if isNodes(x.Map) {
					check(x, x.Key, "insert")
				}
			case *ssa.Call:
				if b, ok := x.Call.Value.(*ssa.Builtin); ok && nm(b) == "delete" && len(x.Call.Args) == 2 && isNodes(x.Call.Args[0]) {
					check(x, x.Call.Args[1], "delete")
				}
			}
		})
	}
}

func init() {
	register(&Rule{ID: "C07.walkerr", Floor: 15, Also: []string{"C17"},
		Text: "the path walk of MemFS returns a nil directory when the volume of the path does not exist: every use of the walk's directory result as an object (field access, lock, method call) is reached only on paths that established it is there - the walk's status compared with 'found', a non-nil child, the iterator at its last part (a fresh iterator is not: an absolute path is longer than its volume name), or an explicit nil test",
		Run:  c07WalkErr})
}

func c07WalkErr(rc *RuleCtx) {
	for _, f := range rc.C.srcFuncs("memfs") {
		var walks []*ssa.Call
		eachCall(f, func(ci ssa.CallInstruction) {
			if c, ok := ci.(*ssa.Call); ok {
				if fn := calleeFunc(c); fn != nil && nm(fn) == "searchNode" {
					walks = append(walks, c)
				}
			}
		})
		for wi, w := range walks {
			var pe, ce, ee *ssa.Extract
			for _, u := range referrersOf(w) {
				if e, ok := u.(*ssa.Extract); ok {
					switch e.Index {
					case 0:
						pe = e
					case 1:
						ce = e
					case 3:
						ee = e
					}
				}
			}
			if pe == nil {
				continue
			}
			// values that carry the directory result: the extract, and cells it is stored into
			isParent := func(v ssa.Value) bool {
				for _, rv := range resolve(v) {
					if strip(rv) == ssa.Value(pe) {
						return true
					}
				}
				return strip(v) == ssa.Value(pe)
			}
			var evidence func(facts []Fact) bool
			established := func(at ssa.Instruction) bool {
				if evidence(factsAt(at.Block())) {
					return true
				}
				// disjunctive guards: decide on every acyclic path to the use
				paths, complete := pathsTo(f, at, 3000)
				if !complete || len(paths) == 0 {
					return false
				}
				for _, p := range paths {
					if !feasiblePath(p) {
						continue
					}
					if !evidence(p) {
						return false
					}
				}
				return true
			}
			evidence = func(facts []Fact) bool {
				for _, fa := range facts {
					v, truth := normCond(fa.Cond, fa.Truth)
					switch x := v.(type) {
					case *ssa.BinOp:
						if x.Op != token.EQL && x.Op != token.NEQ {
							continue
						}
						eq := (x.Op == token.EQL) == truth
						for _, pair := range [][2]ssa.Value{{x.X, x.Y}, {x.Y, x.X}} {
							a, b := pair[0], pair[1]
							// parent / child compared with nil
							if isNilConst(b) && !eq {
								if isParent(a) {
									return true
								}
								if ce != nil && strip(resolve1(a)) == ssa.Value(ce) {
									return true
								}
							}
							// status compared with the 'found' marker (err.FileExists)
							if ee != nil && eq && strip(resolve1(a)) == ssa.Value(ee) {
								if ld, ok := strip(resolve1(b)).(*ssa.UnOp); ok && ld.Op == token.MUL {
									if fad, ok := ld.X.(*ssa.FieldAddr); ok && fieldName(fad.X.Type(), fad.Field) == "FileExists" {
										return true
									}
								}
							}
						}
					// pi.IsLast() is no evidence: for a path equal to the name of a volume that does not exist
					// (\\host\share) the walk returns a nil directory and the fresh iterator has no part left,
					// so IsLast() is true.
					case *ssa.Extract:
						// comma-ok type assertion on the child
						if ta, ok := x.Tuple.(*ssa.TypeAssert); ok && truth && x.Index == 1 && ce != nil && strip(resolve1(ta.X)) == ssa.Value(ce) {
							return true
						}
					}
				}
				return false
			}
			n := 0
			seenSite := map[ssa.Instruction]bool{}
			eachInstr(f, func(in ssa.Instruction) {
				var used ssa.Value
				switch x := in.(type) {
				case *ssa.FieldAddr:
					used = x.X
				case ssa.CallInstruction:
					if r := callRecv(x); r != nil && !x.Common().IsInvoke() {
						used = r
					}
				}
				if used == nil || !isParent(used) || seenSite[in] {
					return
				}
				// only the first use in each block matters
				seenSite[in] = true
				n++
				cons := fmt.Sprintf("%s walk#%d directory use#%d", funcName(f), wi+1, n)
				if established(in) {
					rc.good(cons, in.Pos(), "reached only after the walk's status / child / directory was tested")
				} else if !instrReaches(w, in) {
					rc.good(cons, in.Pos(), "not reachable from this walk")
				} else {
					rc.bad(cons, in.Pos(), "the directory returned by the walk is used without any test that the walk found one: for a path on a volume that does not exist it is nil and the call panics")
				}
			})
		}
	}
}

func init() {
	register(&Rule{ID: "C17.volroot", Floor: 6, Also: []string{"C07"},
		Text: "a volume name denotes the root directory of the volume: it is used as a key of the volumes map or compared, never handed to a path-taking call that refuses (or used to lock twice) a root directory - Remove, RemoveAll, Rename",
		Run:  c17VolRoot})
}

func c17VolRoot(rc *RuleCtx) {
	refuses := map[string]bool{"Remove": true, "RemoveAll": true, "Rename": true}
	for _, f := range rc.C.srcFuncs("memfs") {
		n := 0
		eachCall(f, func(ci ssa.CallInstruction) {
			c, ok := ci.(*ssa.Call)
			if !ok {
				return
			}
			if fn := calleeFunc(c); fn == nil || fn.Name() != "VolumeName" {
				return
			}
			for _, u := range referrersOf(c) {
				if _, isDbg := u.(*ssa.DebugRef); isDbg {
					continue
				}
				n++
				cons := fmt.Sprintf("%s volume-name use#%d", funcName(f), n)
				if uc, isCall := u.(ssa.CallInstruction); isCall {
					if fn := calleeFunc(uc); fn != nil && refuses[fn.Name()] && recvNamed(fn) != nil && recvNamed(fn).Obj().Name() == "MemFS" {
						rc.bad(cons, u.Pos(), "the volume name is passed to "+fn.Name()+", which refuses the root directory of a volume: the call can never succeed (VolumeDelete could not delete a volume)")
						continue
					}
				}
				rc.good(cons, u.Pos(), "map key, comparison or a call that accepts a root")
			}
		})
	}
}

// ---- rules added after the third round of independent changes ----

func init() {
	register(&Rule{ID: "C17.seplit", Floor: 5, Also: []string{"C05"},
		Text: "MemFS and OrefaFS build and compare paths with the separator of the emulated OS (PathSeparator()): no string concatenation or prefix/suffix operation of these packages has a separator literal (\"/\", \"\\\\\") as operand - with a literal the code is right for one OS type only (a renamed directory keeps its descendants under the old key on the other)",
		Run:  c17SepLit})
	register(&Rule{ID: "C04.resolved", Floor: 1, Also: []string{"C05"},
		Text: "the decision of MemFS.Rename whether the destination lies below the source compares the paths the walk resolved (PathIterator.Path() of the walk results), never the absolute form of the caller's strings: two lexically different names can reach the same entry through a symbolic link to a directory",
		Run:  c04Resolved})
	register(&Rule{ID: "C06.recheck", Floor: 4, Also: []string{"C01"},
		Text: "where a creating call of MemFS finds, under the directory lock, that the name it is about to create exists after all, it answers 'file exists' (the answer of the sequential order in which the other call came first): the error of that branch is the exists-class entry of the error table (or its Windows counterpart), never the stale status of the unlocked walk; MkdirAll, for which an existing directory is success, does not take a name that appeared below the locked directory for the whole path: from that outcome no success return is reachable without a new walk",
		Run:  c06Recheck})
	register(&Rule{ID: "C11.holders", Floor: 6,
		Text: "the per-view state holders embedded in MemFS (current directory, current user, umask) keep their state in their own fields: their methods neither store to a package-level variable nor read one that some function writes, so a setter called on one view cannot reach another view or the parent",
		Run:  c11Holders})
	register(&Rule{ID: "C16.pool", Floor: 1, Also: []string{"C08"},
		Text: "a buffer taken from the copy pool is owned by the function that took it until it puts it back: no function that (directly or by defer) returns a buffer to a sync.Pool also returns that buffer, or anything derived from it, to its caller, and a Put that is not deferred is not followed by a use of the buffer - the copy would run on a buffer another copy may be using",
		Run:  c16Pool})
}

func isSepConst(v ssa.Value) bool {
	c, ok := strip(v).(*ssa.Const)
	if !ok || c.Value == nil {
		return false
	}
	switch c.Value.Kind() {
	case constant.String:
		s := constant.StringVal(c.Value)
		return s == "/" || s == "\\"
	case constant.Int:
		if b, ok := c.Type().Underlying().(*types.Basic); ok && (b.Kind() == types.Uint8 || b.Kind() == types.Int32 || b.Kind() == types.UntypedRune) {
			k, _ := constant.Int64Val(c.Value)
			return k == '/' || k == '\\'
		}
	}
	return false
}

func isSepCall(v ssa.Value) bool {
	v = strip(v)
	if c, _ := resultOfCall(v); c != nil {
		if fn := calleeFunc(c); fn != nil && fn.Name() == "PathSeparator" {
			return true
		}
	}
	return false
}

func c17SepLit(rc *RuleCtx) {
	for _, pk := range []string{"memfs", "orefafs"} {
		for _, f := range rc.C.srcFuncs(pk) {
			n := 0
			report := func(in ssa.Instruction, v ssa.Value, what string) {
				lit, call := isSepConst(v), isSepCall(v)
				if !lit && !call {
					return
				}
				n++
				cons := fmt.Sprintf("%s separator#%d in %s", funcName(f), n, what)
				if lit {
					rc.bad(cons, in.Pos(), "a separator literal is used where the separator of the emulated OS type is needed: on a file system of the other type the operation silently works on the wrong strings")
				} else {
					rc.good(cons, in.Pos(), "PathSeparator() of the file system")
				}
			}
			eachInstr(f, func(in ssa.Instruction) {
				switch x := in.(type) {
				case *ssa.BinOp:
					if x.Op == token.ADD && isStringType(x.Type()) {
						report(x, x.X, "concatenation")
						report(x, x.Y, "concatenation")
					}
					if x.Op == token.EQL || x.Op == token.NEQ {
						// a byte of a path compared with a separator
						if _, isIdx := strip(x.X).(*ssa.Index); isIdx {
							report(x, x.Y, "comparison of a path byte")
						}
						if _, isIdx := strip(x.Y).(*ssa.Index); isIdx {
							report(x, x.X, "comparison of a path byte")
						}
					}
				case *ssa.Call:
					if fn := calleeFunc(x); fn != nil && fn.Pkg() != nil && fn.Pkg().Path() == "strings" {
						for _, a := range x.Call.Args {
							report(x, a, "strings."+fn.Name())
						}
					}
				}
			})
		}
	}
}

// fromIteratorPath: the string derives from PathIterator.Path()/Left()/LeftPart() (possibly concatenated with the separator).
func fromIteratorPath(v ssa.Value, depth int) bool {
	if depth > 6 {
		return false
	}
	v = strip(v)
	switch x := v.(type) {
	case *ssa.Call:
		if fn := calleeFunc(x); fn != nil {
			if rn := recvNamed(fn); rn != nil && rn.Obj().Name() == "PathIterator" {
				return true
			}
		}
	case *ssa.BinOp:
		if x.Op == token.ADD {
			l, r := fromIteratorPath(x.X, depth+1), fromIteratorPath(x.Y, depth+1)
			return (l || isSepCall(x.X) || isSepConst(x.X)) && (r || isSepCall(x.Y) || isSepConst(x.Y)) && (l || r)
		}
	case *ssa.Phi:
		for _, e := range x.Edges {
			if !fromIteratorPath(e, depth+1) {
				return false
			}
		}
		return len(x.Edges) > 0
	}
	for _, rv := range resolve(v) {
		if rv != v && fromIteratorPath(rv, depth+1) {
			return true
		}
	}
	return false
}

func c04Resolved(rc *RuleCtx) {
	for _, f := range rc.C.srcFuncs("memfs") {
		walks := 0
		eachCall(f, func(ci ssa.CallInstruction) {
			if fn := calleeFunc(ci); fn != nil && nm(fn) == "searchNode" {
				walks++
			}
		})
		if walks < 2 || !isEntryPoint(f) {
			continue
		}
		n := 0
		check := func(in ssa.Instruction, a, b ssa.Value, what string) {
			if !isStringType(a.Type()) || !isStringType(b.Type()) {
				return
			}
			if _, isC := strip(a).(*ssa.Const); isC {
				return
			}
			if _, isC := strip(b).(*ssa.Const); isC {
				return
			}
			n++
			cons := fmt.Sprintf("%s path comparison#%d (%s)", funcName(f), n, what)
			if fromIteratorPath(a, 0) && fromIteratorPath(b, 0) {
				rc.good(cons, in.Pos(), "both operands are paths resolved by the walk")
			} else {
				rc.bad(cons, in.Pos(), "two paths are compared of which at least one is not the path resolved by the walk ("+prettyVal(a, 0)+" / "+prettyVal(b, 0)+"): names that reach the same entry through a symbolic link to a directory are taken for different entries (Rename then releases the file it is moving)")
			}
		}
		eachInstr(f, func(in ssa.Instruction) {
			switch x := in.(type) {
			case *ssa.Call:
				// (equality of the two paths is not an obligation: the identity of the two nodes is what decides
				// "same entry", see C05.samenode, and makes a lexical comparison next to it harmless)
				if fn := calleeFunc(x); fn != nil && fn.Pkg() != nil && fn.Pkg().Path() == "strings" && (fn.Name() == "HasPrefix" || fn.Name() == "HasSuffix") && len(x.Call.Args) == 2 {
					check(x, x.Call.Args[0], x.Call.Args[1], "strings."+fn.Name())
				}
			}
		})
	}
}

// MkdirAll creates what is missing and succeeds when the whole path exists - but a name that appeared below the
// directory it locked, after the walk, is not "the whole path exists": the remaining directories still have to be
// created. From the exists outcome of the re-check no success return may be reachable without a new walk.
func c06RecheckMkdirAll(rc *RuleCtx, a *lockAnalysis, f *ssa.Function) {
	walkBlocks := map[*ssa.BasicBlock]bool{}
	eachCall(f, func(ci ssa.CallInstruction) {
		if fn := calleeFunc(ci); fn != nil && nm(fn) == "searchNode" {
			walkBlocks[ci.Block()] = true
		}
	})
	ei := errResultIndex(f.Signature)
	n := 0
	eachInstr(f, func(in ssa.Instruction) {
		iff, ok := in.(*ssa.If)
		if !ok {
			return
		}
		c, truth := normCond(iff.Cond, true)
		bo, ok := c.(*ssa.BinOp)
		if !ok || (bo.Op != token.NEQ && bo.Op != token.EQL) {
			return
		}
		var lk *ssa.Lookup
		for _, pair := range [][2]ssa.Value{{bo.X, bo.Y}, {bo.Y, bo.X}} {
			if isNilConst(pair[1]) {
				if l, ok := stripIface(resolve1(pair[0])).(*ssa.Lookup); ok {
					lk = l
				}
				if l, ok := pair[0].(*ssa.Lookup); ok {
					lk = l
				}
			}
		}
		if lk == nil {
			return
		}
		ld, ok := stripCT(lk.X).(*ssa.UnOp)
		if !ok || ld.Op != token.MUL {
			return
		}
		fad, ok := ld.X.(*ssa.FieldAddr)
		if !ok || fieldName(fad.X.Type(), fad.Field) != "children" {
			return
		}
		st := a.stateBefore(lk)
		if st == nil || len(st.must) == 0 {
			return
		}
		existsSucc := 0
		if (bo.Op == token.NEQ) != truth {
			existsSucc = 1
		}
		start := iff.Block().Succs[existsSucc]
		n++
		cons := fmt.Sprintf("%s re-check#%d: a name found below the locked directory is not success", funcName(f), n)
		var path []*ssa.BasicBlock
		onPath := map[*ssa.BasicBlock]bool{}
		var bad *ssa.Return
		var walk func(b *ssa.BasicBlock)
		walk = func(b *ssa.BasicBlock) {
			if bad != nil || onPath[b] || walkBlocks[b] {
				return
			}
			onPath[b] = true
			path = append(path, b)
			defer func() { delete(onPath, b); path = path[:len(path)-1] }()
			last := b.Instrs[len(b.Instrs)-1]
			switch x := last.(type) {
			case *ssa.Return:
				if ei >= 0 && ei < len(x.Results) {
					for _, o := range originsOf(x.Results[ei]) {
						if k, isC := o.(*ssa.Const); isC && k.IsNil() {
							bad = x
						}
					}
				}
				return
			case *ssa.If:
				for k, s := range b.Succs {
					v, t := normCond(x.Cond, k == 0)
					for i := 0; i < 4; i++ {
						ph, isPhi := v.(*ssa.Phi)
						if !isPhi {
							break
						}
						r := phiOnPath(ph, append(append([]*ssa.BasicBlock{iff.Block()}, path...), s))
						if r == nil {
							break
						}
						v, t = normCond(r, t)
					}
					if kc, isC := v.(*ssa.Const); isC && kc.Value != nil && kc.Value.Kind() == constant.Bool && constant.BoolVal(kc.Value) != t {
						continue
					}
					walk(s)
				}
				return
			}
			for _, s := range b.Succs {
				walk(s)
			}
		}
		walk(start)
		if bad != nil {
			rc.bad(cons, iff.Pos(), "when the name turns out to exist below the directory that was locked (created by another call after the walk), the call can answer success ("+rc.C.pos(bad.Pos())+") without resolving the path again: MkdirAll reports success although the rest of the path was not created")
		} else {
			rc.good(cons, iff.Pos(), "the exists outcome leads to a new walk (or an error), never straight to success")
		}
	})
	if n == 0 {
		rc.bad(funcName(f)+" re-check", f.Pos(), "MkdirAll creates directories without looking, under the lock of the directory, whether the name appeared since the walk")
	}
}

func c06Recheck(rc *RuleCtx) {
	existsClass := map[string]bool{"avfs.ErrFileExists": true, "avfs.ErrWinAlreadyExists": true, "avfs.ErrWinFileExists": true, "avfs.ErrWinAccessDenied": true}
	a := lockAnalysisFor(rc.C)
	for _, f := range rc.C.srcFuncs("memfs") {
		if !isEntryPoint(f) {
			continue
		}
		creates := false
		eachCall(f, func(ci ssa.CallInstruction) {
			if fn := calleeFunc(ci); fn != nil {
				switch nm(fn) {
				case "createDir", "createFile", "createSymlink", "addChild":
					creates = true
				}
			}
		})
		if !creates {
			continue
		}
		if f.Name() == "MkdirAll" {
			c06RecheckMkdirAll(rc, a, f)
			continue
		}
		n := 0
		eachInstr(f, func(in ssa.Instruction) {
			iff, ok := in.(*ssa.If)
			if !ok {
				return
			}
			// condition: children[part] != nil (or == nil) on a lookup made with a lock of the directory held
			c, truth := normCond(iff.Cond, true)
			bo, ok := c.(*ssa.BinOp)
			if !ok || (bo.Op != token.NEQ && bo.Op != token.EQL) {
				return
			}
			var lk *ssa.Lookup
			for _, pair := range [][2]ssa.Value{{bo.X, bo.Y}, {bo.Y, bo.X}} {
				if isNilConst(pair[1]) {
					if l, ok := stripIface(resolve1(pair[0])).(*ssa.Lookup); ok {
						lk = l
					}
					if l, ok := pair[0].(*ssa.Lookup); ok {
						lk = l
					}
				}
			}
			if lk == nil {
				return
			}
			ld, ok := stripCT(lk.X).(*ssa.UnOp)
			if !ok || ld.Op != token.MUL {
				return
			}
			fad, ok := ld.X.(*ssa.FieldAddr)
			if !ok || fieldName(fad.X.Type(), fad.Field) != "children" {
				return
			}
			st := a.stateBefore(lk)
			if st == nil || len(st.must) == 0 {
				return // the unlocked walk's lookups are not re-checks
			}
			existsSucc := 0
			if (bo.Op == token.NEQ) != truth {
				existsSucc = 1
			}
			blk := iff.Block().Succs[existsSucc]
			// the exists branch ends in returns (possibly after choosing the error of the emulated OS)
			if len(blk.Preds) != 1 {
				return
			}
			ei := errResultIndex(f.Signature)
			var ret *ssa.Return
			var leaves []string
			seenLeaf := map[string]bool{}
			for _, r := range returnsOf(f) {
				if !blk.Dominates(r.Block()) || ei < 0 || ei >= len(r.Results) {
					continue
				}
				ret = r
				for _, l := range errLeaves(rc.C, r.Results[ei], 0) {
					if !seenLeaf[l.name] {
						seenLeaf[l.name] = true
						leaves = append(leaves, l.name)
					}
				}
			}
			if ret == nil {
				return
			}
			n++
			cons := fmt.Sprintf("%s re-check#%d under the directory lock", funcName(f), n)
			sort.Strings(leaves)
			bad := ""
			for _, l := range leaves {
				if !existsClass[l] {
					bad = l
				}
			}
			switch {
			case len(leaves) == 0:
				rc.bad(cons, ret.Pos(), "the error returned when the name turns out to exist cannot be classified")
			case bad != "":
				rc.bad(cons, ret.Pos(), "the name exists (another call created it first) but the call answers with "+bad+", not with 'file exists': no sequential order of the two calls gives that answer")
			default:
				rc.good(cons, ret.Pos(), "answers 'file exists' ("+strings.Join(leaves, ", ")+")")
			}
		})
	}
}

func c11Holders(rc *RuleCtx) {
	holders := map[string]bool{"CurDirFn": true, "CurUserFn": true, "UMaskFn": true, "IdmFn": true, "FeaturesFn": true, "OSTypeFn": true}
	seen := 0
	// package-level variables that some function (other than the package initialiser) writes, directly or atomically
	mutable := map[*ssa.Global]bool{}
	for _, g := range rc.C.srcFuncs("avfs") {
		if g.Name() == "init" {
			continue
		}
		eachInstr(g, func(in ssa.Instruction) {
			switch x := in.(type) {
			case *ssa.Store:
				if gl, ok := x.Addr.(*ssa.Global); ok {
					mutable[gl] = true
				}
			case ssa.CallInstruction:
				if fn := calleeFunc(x); fn != nil && fn.Pkg() != nil && fn.Pkg().Path() == "sync/atomic" {
					for _, a := range x.Common().Args {
						if gl, ok := a.(*ssa.Global); ok {
							mutable[gl] = true
						}
					}
				}
			}
		})
	}
	for _, f := range rc.C.srcFuncs("avfs") {
		if f.Signature.Recv() == nil {
			continue
		}
		rn := namedOf(f.Signature.Recv().Type())
		if rn == nil || !holders[rn.Obj().Name()] {
			continue
		}
		seen++
		cons := funcName(f) + " state in own fields"
		bad := ""
		eachInstr(f, func(in ssa.Instruction) {
			for _, op := range in.Operands(nil) {
				if op == nil || *op == nil {
					continue
				}
				if g, ok := (*op).(*ssa.Global); ok && g.Pkg != nil && strings.HasPrefix(g.Pkg.Pkg.Path(), modPath) {
					if _, isStore := in.(*ssa.Store); !mutable[g] && !(isStore && in.(*ssa.Store).Addr == ssa.Value(g)) {
						continue // a package-level value nobody writes (a default, an error value) is a constant in practice
					}
					bad = "refers to the package-level variable " + g.Name() + ": the state is shared by every file system (and every view) of the process instead of belonging to the receiver"
				}
			}
		})
		if bad != "" {
			rc.bad(cons, f.Pos(), bad)
		} else {
			rc.good(cons, f.Pos(), "no package-level variable is read or written")
		}
	}
	if seen == 0 {
		rc.anchor("methods of avfs.CurDirFn / CurUserFn / UMaskFn")
	}
}

func c16Pool(rc *RuleCtx) {
	n := 0
	for _, f := range rc.C.srcFuncs("avfs") {
		var puts []ssa.CallInstruction
		eachCall(f, func(ci ssa.CallInstruction) {
			fn := calleeFunc(ci)
			if fn == nil || fn.Name() != "Put" {
				return
			}
			if rn := recvNamed(fn); rn == nil || rn.Obj().Pkg() == nil || rn.Obj().Pkg().Path() != "sync" || rn.Obj().Name() != "Pool" {
				return
			}
			puts = append(puts, ci)
		})
		for _, p := range puts {
			n++
			cons := fmt.Sprintf("%s pool buffer#%d", funcName(f), n)
			args := callArgs(p)
			if len(args) == 0 {
				continue
			}
			buf := strip(args[len(args)-1])
			bad := false
			derives := func(v ssa.Value) bool {
				seen := map[ssa.Value]bool{}
				var walk func(v ssa.Value, d int) bool
				walk = func(v ssa.Value, d int) bool {
					if v == nil || d > 8 || seen[v] {
						return false
					}
					seen[v] = true
					if strip(v) == buf {
						return true
					}
					switch x := v.(type) {
					case *ssa.UnOp:
						if _, isCell := x.X.(*ssa.Alloc); !isCell {
							return walk(x.X, d+1)
						}
					case *ssa.Slice:
						return walk(x.X, d+1)
					case *ssa.MakeInterface:
						return walk(x.X, d+1)
					case *ssa.ChangeType:
						return walk(x.X, d+1)
					case *ssa.Convert:
						return walk(x.X, d+1)
					case *ssa.TypeAssert:
						return walk(x.X, d+1)
					case *ssa.Extract:
						return walk(x.Tuple, d+1)
					case *ssa.Phi:
						for _, e := range x.Edges {
							if walk(e, d+1) {
								return true
							}
						}
					}
					for _, rv := range resolve(v) {
						if rv != v && walk(rv, d+1) {
							return true
						}
					}
					return false
				}
				return walk(v, 0)
			}
			// the value put back may itself be derived from the Get result: compare on the Get result when visible
			if ta, ok := buf.(*ssa.TypeAssert); ok {
				buf = strip(ta.X)
			}
			for _, r := range returnsOf(f) {
				for _, res := range r.Results {
					if derives(res) {
						bad = true
					}
				}
			}
			// a Put that is not deferred must come after the last use of the buffer
			early := false
			if _, isDefer := p.(*ssa.Defer); !isDefer {
				eachInstr(f, func(in ssa.Instruction) {
					if in == ssa.Instruction(p) || early {
						return
					}
					if _, isDbg := in.(*ssa.DebugRef); isDbg {
						return
					}
					for _, op := range in.Operands(nil) {
						if op != nil && *op != nil && derives(*op) && instrReaches(p, in) {
							early = true
						}
					}
				})
			}
			if early {
				rc.bad(cons, p.Pos(), "the buffer is given back to the pool before its last use in this function (the Put is not deferred and a use of the buffer follows it): the next Get hands the same array to a concurrent copy while this one still reads and writes it")
				continue
			}
			if bad {
				rc.bad(cons, p.Pos(), "the function gives the buffer back to the pool (on return) and also hands it to its caller: the caller works on a buffer that the next Get can hand to a concurrent copy, whose bytes then end up in this destination")
			} else {
				rc.good(cons, p.Pos(), "the buffer does not outlive the function that returns it to the pool")
			}
		}
	}
	if n == 0 {
		rc.anchor("sync.Pool.Put in package avfs (copy buffer pool)")
	}
}

func init() {
	register(&Rule{ID: "C01.cwd", Floor: 6, Also: []string{"C07", "C11", "C17", "C03", "C04", "C02", "C05"},
		AlsoOnly: map[string][]string{"C02": {"File).Chdir"}, "C05": {").Chdir"}}, AlsoFloor: map[string]int{"C02": 2, "C05": 2},
		Text: "a fresh MemFS / OrefaFS has a working directory: the constructor calls SetCurDir with the root of the default volume (a non-empty constant, or the volume name followed by the separator) - with an empty working directory a relative path is not made absolute, the walk skips its first byte (Mkdir(\"foo\") creates /oo) and Stat(\"\") panics; every other SetCurDir of the two packages (Chdir of the file system and of an open directory) hands over an absolute path: Path() of the walk's iterator, the first result of Abs, or a handle field assigned only such values - never the name a handle was opened with, nor an index key",
		Run:  c01Cwd})
}

func c01Cwd(rc *RuleCtx) {
	for _, pk := range []string{"memfs", "orefafs"} {
		f := rc.C.fn(pk, "NewWithOptions")
		cons := pk + ".NewWithOptions sets the working directory"
		if f == nil {
			rc.anchor(cons)
			continue
		}
		var set ssa.CallInstruction
		eachCall(f, func(ci ssa.CallInstruction) {
			if fn := calleeFunc(ci); fn != nil && fn.Name() == "SetCurDir" {
				set = ci
			}
		})
		if set == nil {
			rc.bad(cons, f.Pos(), "the constructor never sets the working directory: it stays the empty string until the first Chdir")
			continue
		}
		args := callArgs(set)
		var rootLike func(v ssa.Value, d int) bool
		rootLike = func(v ssa.Value, d int) bool {
			if d > 5 {
				return false
			}
			v = strip(v)
			switch x := v.(type) {
			case *ssa.Const:
				return x.Value != nil && x.Value.Kind() == constant.String && constant.StringVal(x.Value) != ""
			case *ssa.BinOp:
				return x.Op == token.ADD && (isSepCall(x.X) || isSepCall(x.Y) || rootLike(x.X, d+1) || rootLike(x.Y, d+1))
			case *ssa.Phi:
				for _, e := range x.Edges {
					if !rootLike(e, d+1) {
						return false
					}
				}
				return len(x.Edges) > 0
			}
			rs := resolve(v)
			if len(rs) == 0 || (len(rs) == 1 && rs[0] == v) {
				return false
			}
			for _, rv := range rs {
				if !rootLike(rv, d+1) {
					return false
				}
			}
			return true
		}
		if len(args) == 1 && rootLike(args[0], 0) {
			rc.good(cons, set.Pos(), "SetCurDir(root of the default volume)")
		} else {
			rc.bad(cons, set.Pos(), "the working directory set by the constructor is not provably a root path")
		}
		// every other place that sets the working directory hands over an absolute path
		ctor := f
		for _, g := range rc.C.srcFuncs(pk) {
			if g == ctor {
				continue
			}
			n := 0
			eachCall(g, func(ci ssa.CallInstruction) {
				fn := calleeFunc(ci)
				if fn == nil || fn.Name() != "SetCurDir" {
					return
				}
				n++
				cons := fmt.Sprintf("%s SetCurDir#%d absolute", funcName(g), n)
				a := callArgs(ci)
				if len(a) != 1 {
					return
				}
				// a call that fails must not have moved the working directory (open directories included: the exported
				// operations of the file systems are covered by C05.atomic)
				if ei := errResultIndex(g.Signature); ei >= 0 {
					for _, r := range returnsOf(g) {
						mayFail := false
						for _, o := range originsOf(r.Results[ei]) {
							if k, isC := o.(*ssa.Const); !isC || !k.IsNil() {
								mayFail = true
							}
						}
						if mayFail && feasiblyReaches(ci, r, 4000) {
							rc.bad(cons, ci.Pos(), "after the working directory was set the call can still return an error ("+rc.C.pos(r.Pos())+"): a refused Chdir has moved the working directory")
							return
						}
					}
				}
				// an open directory knows its path from the time it was opened: a path computed from its name when Chdir is
				// called is resolved against whatever the working directory is by then, and keeps the links of the name
				if g.Signature.Recv() != nil {
					if rn := namedOf(g.Signature.Recv().Type()); rn != nil && strings.HasSuffix(rn.Obj().Name(), "File") {
						fromField := true
						for _, o := range originsOf(a[0]) {
							ld, isLd := o.(*ssa.UnOp)
							if !isLd || ld.Op != token.MUL {
								fromField = false
								continue
							}
							if _, isFA := ld.X.(*ssa.FieldAddr); !isFA {
								fromField = false
							}
						}
						if !fromField {
							rc.bad(cons, ci.Pos(), "an open directory sets the working directory to a path computed when Chdir is called instead of the path recorded when it was opened: a name opened relative to another working directory, or through a symbolic link, gives a working directory that is not the directory the handle is open on")
							return
						}
					}
				}
				if why, ok := absolutePathValue(rc, pk, a[0], 0); ok {
					rc.good(cons, ci.Pos(), why)
				} else {
					rc.bad(cons, ci.Pos(), "the working directory is set to a value that is not an absolute path of this file system ("+why+"): relative names are joined to it by Abs, so a relative value, or an index key (a volume root without its separator), sends every later relative call to the wrong place")
				}
			})
		}
	}
}

// absolutePathValue: v is the absolute path computed by a walk (Path() of its iterator), the first result of Abs, a
// non-empty constant / root expression, or a handle field that is only ever assigned such values.
func absolutePathValue(rc *RuleCtx, pk string, v ssa.Value, depth int) (string, bool) {
	if depth > 3 {
		return "too deep", false
	}
	why := ""
	for _, o := range originsOf(v) {
		switch x := o.(type) {
		case *ssa.Call:
			fn := calleeFunc(x)
			if fn != nil && fn.Name() == "Path" {
				if r := callRecv(x); r != nil {
					if n := namedOf(r.Type()); n != nil && n.Obj().Name() == "PathIterator" {
						why = "Path() of the walk's iterator"
						continue
					}
				}
			}
			return "result of " + prettyVal(x, 0), false
		case *ssa.Extract:
			if c, ok := x.Tuple.(*ssa.Call); ok && x.Index == 0 {
				if fn := calleeFunc(c); fn != nil && fn.Name() == "Abs" {
					if pk == "memfs" {
						// MemFS resolves symbolic links: the directory reached is what the walk's iterator says, the
						// lexical absolute path names the link (chdir(2) through a link lands in its target)
						return "the lexical result of Abs, not the path the walk resolved", false
					}
					why = "first result of Abs"
					continue
				}
			}
			return "component of " + prettyVal(x.Tuple, 0), false
		case *ssa.UnOp:
			fa, ok := x.X.(*ssa.FieldAddr)
			if !ok || x.Op != token.MUL {
				return prettyVal(x, 0), false
			}
			fv := fieldVar(fa)
			if fv == nil {
				return prettyVal(x, 0), false
			}
			nst := 0
			for _, g := range rc.C.srcFuncs(pk) {
				bad := ""
				eachInstr(g, func(in ssa.Instruction) {
					st, ok := in.(*ssa.Store)
					if !ok {
						return
					}
					sfa, ok := st.Addr.(*ssa.FieldAddr)
					if !ok || fieldVar(sfa) != fv {
						return
					}
					nst++
					if k, isC := strip(st.Val).(*ssa.Const); isC && k.Value != nil && k.Value.ExactString() == `""` {
						return // cleared on close
					}
					if w, ok := absolutePathValue(rc, pk, st.Val, depth+1); !ok {
						bad = "field " + fv.Name() + " is assigned " + w + " in " + funcName(g)
					}
				})
				if bad != "" {
					return bad, false
				}
			}
			if nst == 0 {
				return "field " + fv.Name() + " is never assigned", false
			}
			why = "handle field " + fv.Name() + ", assigned only absolute paths"
		default:
			return prettyVal(o, 0), false
		}
	}
	if why == "" {
		return "no origin", false
	}
	return why, true
}

func init() {
	register(&Rule{ID: "C07.magnitude", Floor: 8, Also: []string{"C02"},
		Text: "magnitudes chosen by the caller cannot take a call down: (a) a count parameter is compared with what is left before it is added to a cursor that bounds a slice (n = MaxInt must not overflow start+n); (b) an allocation whose size derives from a caller-chosen offset or size (handle offset, WriteAt offset, Truncate size) is made only after that size was compared with an upper limit - otherwise the call panics in the allocator (while holding the node lock, so every later call on the file blocks)",
		Run:  c07Magnitude})
}

func c07Magnitude(rc *RuleCtx) {
	for _, pk := range []string{"memfs", "orefafs"} {
		for _, f := range rc.C.srcFuncs(pk) {
			// (a) slice bounds built from `x + param`
			na := 0
			eachInstr(f, func(in ssa.Instruction) {
				sl, ok := in.(*ssa.Slice)
				if !ok {
					return
				}
				for _, bnd := range []ssa.Value{sl.Low, sl.High} {
					if bnd == nil {
						continue
					}
					var adds []*ssa.BinOp
					seen := map[ssa.Value]bool{}
					var collect func(v ssa.Value, d int)
					collect = func(v ssa.Value, d int) {
						if v == nil || d > 6 || seen[v] {
							return
						}
						seen[v] = true
						switch x := v.(type) {
						case *ssa.BinOp:
							if x.Op == token.ADD {
								adds = append(adds, x)
							}
						case *ssa.Phi:
							for _, e := range x.Edges {
								collect(e, d+1)
							}
						case *ssa.Convert:
							collect(x.X, d+1)
						default:
							for _, rv := range resolve(v) {
								if rv != v {
									collect(rv, d+1)
								}
							}
						}
					}
					collect(bnd, 0)
					for _, add := range adds {
						var p *ssa.Parameter
						for _, o := range []ssa.Value{add.X, add.Y} {
							if pp, ok := strip(resolve1(o)).(*ssa.Parameter); ok && isEntryPoint(f) {
								if b, isB := pp.Type().Underlying().(*types.Basic); isB && b.Info()&types.IsInteger != 0 {
									p = pp
								}
							}
						}
						if p == nil {
							continue
						}
						na++
						cons := fmt.Sprintf("%s cursor + %s bounds a slice", funcName(f), p.Name())
						bounded := false
						for _, fa := range factsAt(add.Block()) {
							c, truth := normCond(fa.Cond, fa.Truth)
							bo, ok := c.(*ssa.BinOp)
							if !ok {
								continue
							}
							px := strip(resolve1(bo.X)) == ssa.Value(p)
							py := strip(resolve1(bo.Y)) == ssa.Value(p)
							switch {
							case px && ((bo.Op == token.LSS || bo.Op == token.LEQ) == truth) && (bo.Op == token.LSS || bo.Op == token.LEQ || bo.Op == token.GTR || bo.Op == token.GEQ):
								// p < X / p <= X holds, or p > X / p >= X fails
								if bo.Op == token.LSS || bo.Op == token.LEQ {
									bounded = truth
								} else {
									bounded = !truth
								}
							case py && (bo.Op == token.GTR || bo.Op == token.GEQ):
								bounded = truth
							case py && (bo.Op == token.LSS || bo.Op == token.LEQ):
								bounded = !truth
							}
							if bounded {
								if _, isC := strip(bo.X).(*ssa.Const); isC && px == false && py {
									// X is a constant lower bound test such as 0 < p: not an upper bound
								}
								break
							}
						}
						if bounded {
							rc.good(cons, add.Pos(), "the count is compared with an upper bound before it is added")
						} else {
							rc.bad(cons, add.Pos(), "the caller's count "+p.Name()+" is added to the cursor before being bounded: with "+p.Name()+" = math.MaxInt the sum overflows to a negative slice bound and the call panics")
						}
					}
				}
			})
			// (b) allocations sized by a caller-chosen magnitude
			eachInstr(f, func(in ssa.Instruction) {
				var size ssa.Value
				switch x := in.(type) {
				case *ssa.MakeSlice:
					size = x.Len
				case *ssa.Call:
					if fn := calleeFunc(x); fn != nil && isPkgFunc(fn, "bytes", "Repeat") && len(x.Call.Args) == 2 {
						size = x.Call.Args[1]
					}
				}
				if size == nil {
					return
				}
				if _, isC := strip(size).(*ssa.Const); isC {
					return
				}
				s := sym(size)
				if !(strings.Contains(s, ".at") || strings.Contains(s, "off") || strings.Contains(s, "size")) {
					return // sized by the data itself (len of an argument or of the content)
				}
				// keyed by where the magnitude comes from, not by the expression or by local names
				from := "a size passed down by the caller"
				switch {
				case strings.Contains(s, ".at"):
					from = "the handle offset"
				case isEntryPoint(f):
					for i, pp := range f.Params {
						if i > 0 && strings.Contains(s, pp.Name()) {
							from = fmt.Sprintf("argument %d", i)
						}
					}
				}
				cons := fmt.Sprintf("%s allocation sized by %s", entryOwners(lockAnalysisFor(rc.C))(f), from)
				limited := false
				for _, fa := range factsAt(in.Block()) {
					c, _ := normCond(fa.Cond, fa.Truth)
					if bo, ok := c.(*ssa.BinOp); ok && (bo.Op == token.GTR || bo.Op == token.GEQ || bo.Op == token.LSS || bo.Op == token.LEQ) {
						for _, pair := range [][2]ssa.Value{{bo.X, bo.Y}, {bo.Y, bo.X}} {
							if k, isC := constInt(pair[1]); isC && k > 0 && strings.Contains(sym(pair[0]), strings.TrimSuffix(strings.TrimPrefix(s, "("), ")")) {
								limited = true
							}
						}
					}
				}
				if limited {
					rc.good(cons, in.Pos(), "the size is compared with an upper limit first")
				} else {
					rc.bad(cons, in.Pos(), "the size of this allocation is chosen by the caller (offset or size argument) and is not compared with any limit: a huge value panics in the allocator (makeslice / growslice: len out of range) with the node lock held, after which every call on the file blocks")
				}
			})
		}
	}
}

func init() {
	register(&Rule{ID: "C07.fixpoint", Floor: 2,
		Text: "a loop of OrefaFS that climbs from a path to its ancestors with SplitAbs until it finds a registered node stops when SplitAbs returns its argument (the volume root: nothing above it) - otherwise a path on a volume that was never registered keeps the loop spinning for ever with the index lock held",
		Run:  c07Fixpoint})
}

func c07Fixpoint(rc *RuleCtx) {
	for _, f := range rc.C.srcFuncs("orefafs") {
		n := 0
		eachCall(f, func(ci ssa.CallInstruction) {
			c, ok := ci.(*ssa.Call)
			if !ok {
				return
			}
			if fn := calleeFunc(c); fn == nil || fn.Name() != "SplitAbs" {
				return
			}
			args := callArgs(c)
			if len(args) == 0 {
				return
			}
			arg := args[len(args)-1]
			var up *ssa.Extract
			for _, u := range referrersOf(c) {
				if e, ok := u.(*ssa.Extract); ok && e.Index == 0 {
					up = e
				}
			}
			if up == nil {
				return
			}
			// self-feeding: the argument is a phi (or a cell) that receives the call's first result on a back edge
			feeds := false
			seen := map[ssa.Value]bool{}
			var reaches func(v ssa.Value, d int) bool
			reaches = func(v ssa.Value, d int) bool {
				if v == nil || d > 6 || seen[v] {
					return false
				}
				seen[v] = true
				if v == ssa.Value(up) {
					return true
				}
				if phi, ok := v.(*ssa.Phi); ok {
					for _, e := range phi.Edges {
						if reaches(e, d+1) {
							return true
						}
					}
				}
				for _, rv := range resolveRaw(v) {
					if rv != v && reaches(rv, d+1) {
						return true
					}
				}
				return false
			}
			feeds = reaches(arg, 0)
			if !feeds {
				return
			}
			n++
			cons := fmt.Sprintf("%s ancestor loop#%d", funcName(f), n)
			stops := false
			eachInstr(f, func(in ssa.Instruction) {
				bo, ok := in.(*ssa.BinOp)
				if !ok || (bo.Op != token.EQL && bo.Op != token.NEQ) {
					return
				}
				x, y := strip(resolve1(bo.X)), strip(resolve1(bo.Y))
				isUp := func(v ssa.Value) bool { return v == ssa.Value(up) }
				isArg := func(v ssa.Value) bool { return v == strip(resolve1(arg)) || sameValue(v, arg) }
				if (isUp(x) && isArg(y)) || (isUp(y) && isArg(x)) {
					// the comparison must control an exit of the loop: one successor leaves towards a return
					for _, u := range referrersOf(bo) {
						if _, isIf := u.(*ssa.If); isIf {
							stops = true
						}
					}
				}
			})
			if stops {
				rc.good(cons, c.Pos(), "the loop leaves when SplitAbs returns its argument")
			} else {
				rc.bad(cons, c.Pos(), "the loop climbs with SplitAbs until a node is found and has no exit for the case where SplitAbs returns its argument: for a path on an unregistered volume it never ends (and holds the index lock)")
			}
		})
	}
}

func init() {
	register(&Rule{ID: "C07.wrapfile", Floor: 4, Also: []string{"C09", "C12"},
		Text: "a wrapper file system never hands out a file wrapper without a base file: every *RoFile / *FailFile / *BasePathFile that a method returns is either the typed nil pointer (whose methods answer fs.ErrInvalid) or a value whose base-file field was set from a successful call on the base - an empty wrapper returned next to an error panics in every method the caller may still call on it (Close, Name)",
		Run:  c07WrapFile})
}

func c07WrapFile(rc *RuleCtx) {
	wrappers := map[string]string{"rofs": "RoFile", "failfs": "FailFile", "basepathfs": "BasePathFile"}
	for pk, typ := range wrappers {
		for _, f := range rc.C.srcFuncs(pk) {
			n := 0
			for _, r := range returnsOf(f) {
				for _, res := range r.Results {
					for _, rv := range resolve(res) {
						al, ok := strip(rv).(*ssa.Alloc)
						if !ok {
							continue
						}
						nt := namedOf(al.Type())
						if nt == nil || nt.Obj().Name() != typ {
							continue
						}
						n++
						cons := fmt.Sprintf("%s returns %s#%d", funcName(f), typ, n)
						set := false
						for _, u := range referrersOf(al) {
							fa, ok := u.(*ssa.FieldAddr)
							if !ok || fieldName(fa.X.Type(), fa.Field) != "baseFile" {
								continue
							}
							for _, st := range storesTo(fa) {
								if !isNilConst(st.Val) {
									set = true
								}
							}
						}
						if set {
							rc.good(cons, r.Pos(), "the wrapper carries a base file")
						} else {
							rc.bad(cons, r.Pos(), "an empty "+typ+" (no base file) is returned: the methods of the wrapper dereference the base file, so Close / Name / Read on the value returned next to the error panic instead of answering fs.ErrInvalid")
						}
					}
				}
			}
		}
	}
}

func init() {
	register(&Rule{ID: "C05.overwrite", Floor: 1, Also: []string{"C01", "C04"},
		Text: "MemFS.Rename inserts the moved node under the destination name only on paths that established what was there: nothing (the destination walk said 'no such file', or the node found is nil), a regular file that is released on that path, or a symbolic link (nothing to release) - for every kind of source node. An existing directory, or a file that is not released, is never silently replaced",
		Run:  c05Overwrite})
}

func c05Overwrite(rc *RuleCtx) {
	f := rc.C.method("memfs", "MemFS", "Rename")
	if f == nil {
		rc.anchor("memfs.(*MemFS).Rename")
		return
	}
	// the destination walk: the second searchNode call; its child (#1) and status (#3) results
	var walks []*ssa.Call
	eachCall(f, func(ci ssa.CallInstruction) {
		if c, ok := ci.(*ssa.Call); ok {
			if fn := calleeFunc(c); fn != nil && nm(fn) == "searchNode" {
				walks = append(walks, c)
			}
		}
	})
	if len(walks) < 2 {
		rc.anchor("the two walks of memfs.(*MemFS).Rename")
		return
	}
	sort.Slice(walks, func(i, j int) bool { return walks[i].Pos() < walks[j].Pos() })
	w := walks[1]
	var nChild, nErr *ssa.Extract
	for _, u := range referrersOf(w) {
		if e, ok := u.(*ssa.Extract); ok {
			switch e.Index {
			case 1:
				nChild = e
			case 3:
				nErr = e
			}
		}
	}
	var ins ssa.CallInstruction
	eachCall(f, func(ci ssa.CallInstruction) {
		if fn := calleeFunc(ci); fn != nil && nm(fn) == "addChild" {
			ins = ci
		}
	})
	cons := funcName(f) + " destination established before the insert"
	if ins == nil || nChild == nil {
		rc.anchor("addChild call / destination child of memfs.(*MemFS).Rename")
		return
	}
	isNChild := func(v ssa.Value) bool {
		return strip(resolve1(v)) == ssa.Value(nChild) || stripIface(v) == ssa.Value(nChild)
	}
	// blocks that release the destination: a delete() call on a value asserted from nChild
	releases := func(ta *ssa.TypeAssert) bool {
		rel := false
		eachCall(f, func(ci ssa.CallInstruction) {
			if fn := calleeFunc(ci); fn != nil && nm(fn) == "delete" {
				if r := callRecv(ci); r != nil {
					if e, ok := strip(r).(*ssa.Extract); ok && e.Tuple == ssa.Value(ta) {
						rel = true
					}
					if strip(r) == ssa.Value(ta) {
						rel = true
					}
				}
			}
		})
		return rel
	}
	paths, complete := pathsTo(f, ins, 6000)
	if !complete {
		rc.bad(cons, ins.Pos(), "too many paths to the insert to decide")
		return
	}
	// the source node: child result of the first walk; the implementations of its interface type in the package
	var oChild *ssa.Extract
	for _, u := range referrersOf(walks[0]) {
		if e, ok := u.(*ssa.Extract); ok && e.Index == 1 {
			oChild = e
		}
	}
	impls := map[string]bool{}
	if oChild != nil {
		if it, ok := oChild.Type().Underlying().(*types.Interface); ok {
			sc := f.Pkg.Pkg.Scope()
			for _, nm := range sc.Names() {
				if tn, ok := sc.Lookup(nm).(*types.TypeName); ok {
					if _, isI := tn.Type().Underlying().(*types.Interface); !isI && types.Implements(types.NewPointer(tn.Type()), it) {
						impls[nm] = true
					}
				}
			}
		}
	}
	badPath := ""
	np := 0
	for _, p := range paths {
		if !feasiblePath(p) {
			continue
		}
		// a path on which the source node is none of the node types does not exist (the walk said 'found')
		failed := map[string]bool{}
		for _, fa := range p {
			c, truth := normCond(fa.Cond, fa.Truth)
			if x, isE := c.(*ssa.Extract); isE && !truth && x.Index == 1 {
				if ta, isTA := x.Tuple.(*ssa.TypeAssert); isTA && oChild != nil && (strip(resolve1(ta.X)) == ssa.Value(oChild) || stripIface(ta.X) == ssa.Value(oChild)) {
					if nt := namedOf(ta.AssertedType); nt != nil {
						failed[nt.Obj().Name()] = true
					}
				}
			}
		}
		if len(impls) > 0 && len(failed) >= len(impls) {
			continue
		}
		np++
		ok := false
		for _, fa := range p {
			c, truth := normCond(fa.Cond, fa.Truth)
			switch x := c.(type) {
			case *ssa.BinOp:
				if (x.Op == token.EQL) == truth && (x.Op == token.EQL || x.Op == token.NEQ) {
					if (isNChild(x.X) && isNilConst(x.Y)) || (isNChild(x.Y) && isNilConst(x.X)) {
						ok = true // nChild == nil
					}
				}
			case *ssa.Call:
				if fn := calleeFunc(x); fn != nil && nm(fn) == "isNotExist" && truth && nErr != nil {
					for _, a := range callArgs(x) {
						if strip(resolve1(a)) == ssa.Value(nErr) {
							ok = true // the destination walk found nothing
						}
					}
				}
			case *ssa.Extract:
				if ta, isTA := x.Tuple.(*ssa.TypeAssert); isTA && x.Index == 1 && truth && isNChild(ta.X) {
					if nt := namedOf(ta.AssertedType); nt != nil {
						switch nm(nt.Obj()) {
						case "symlinkNode":
							ok = true
						case "fileNode":
							if releases(ta) {
								ok = true
							}
						}
					}
				}
			}
		}
		if !ok {
			var ds []string
			for _, fa := range p {
				if fa.Cond != nil && fa.Cond.Pos().IsValid() {
					ds = append(ds, fmt.Sprintf("%s=%v", shortPos(rc.C.pos(fa.Cond.Pos())), fa.Truth))
				}
			}
			if len(ds) > 8 {
				ds = ds[len(ds)-8:]
			}
			badPath = strings.Join(ds, " ")
		}
	}
	if badPath != "" {
		rc.bad(cons, ins.Pos(), "a path reaches the insert without having established that the destination is free, a released file or a symbolic link (branches: "+badPath+"): whatever was under the destination name - a non-empty directory, a file with other hard links - is replaced without being released")
	} else {
		rc.good(cons, ins.Pos(), fmt.Sprintf("%d paths to the insert: destination free, released or a symbolic link on each", np))
	}
}

func init() {
	register(&Rule{ID: "C05.mkdirorder", Floor: 1, Also: []string{"C01"},
		Text: "OrefaFS.MkdirAll collects the missing directories while climbing from the path towards the root (deepest first) and must create them in the opposite order, each inside the one created before it: the loop that creates them walks the collected slice with a decreasing index",
		Run:  c05MkdirOrder})
}

func c05MkdirOrder(rc *RuleCtx) {
	f := rc.C.method("orefafs", "OrefaFS", "MkdirAll")
	cons := "orefafs.(*OrefaFS).MkdirAll creates outermost first"
	if f == nil {
		rc.anchor(cons)
		return
	}
	// the creating call and the index expression its path argument comes from
	var create ssa.CallInstruction
	eachCall(f, func(ci ssa.CallInstruction) {
		if fn := calleeFunc(ci); fn != nil && nm(fn) == "createDir" {
			create = ci
		}
	})
	if create == nil {
		rc.anchor("createDir call in orefafs.(*OrefaFS).MkdirAll")
		return
	}
	var idx ssa.Value
	seen := map[ssa.Value]bool{}
	var find func(v ssa.Value, d int)
	find = func(v ssa.Value, d int) {
		if v == nil || d > 8 || seen[v] || idx != nil {
			return
		}
		seen[v] = true
		switch x := v.(type) {
		case *ssa.UnOp:
			if ia, ok := x.X.(*ssa.IndexAddr); ok {
				idx = ia.Index
				return
			}
		case *ssa.Index:
			idx = x.Index
			return
		case *ssa.Extract:
			// range over a slice: (ok, index, value) of Next on a Range — an increasing walk
			if nx, ok := x.Tuple.(*ssa.Next); ok && !nx.IsString {
				idx = x
				return
			}
		case *ssa.Phi:
			for _, e := range x.Edges {
				find(e, d+1)
			}
			return
		}
		for _, rv := range resolveRaw(v) {
			if rv != v {
				find(rv, d+1)
			}
		}
	}
	for _, a := range callArgs(create) {
		if isStringType(a.Type()) {
			find(a, 0)
		}
	}
	if idx == nil {
		rc.bad(cons, create.Pos(), "the path of the directory being created does not come out of the collected slice by an index: the order of creation cannot be established")
		return
	}
	// which way does the index move from one iteration to the next? A loop counter moves by its step, the key of a
	// range loop upwards, a loop-invariant value not at all; sums and differences combine (len(ds)-1-i moves down when
	// i moves up).
	var move func(v ssa.Value, d int) (int, bool)
	move = func(v ssa.Value, d int) (int, bool) {
		v = strip(v)
		if d > 8 {
			return 0, false
		}
		switch x := v.(type) {
		case *ssa.Const:
			return 0, true
		case *ssa.Phi:
			for _, e := range x.Edges {
				if bo, ok := strip(e).(*ssa.BinOp); ok && strip(bo.X) == ssa.Value(x) {
					if k, isC := constInt(bo.Y); isC && (k == 1 || k == -1) {
						if (bo.Op == token.ADD) == (k == 1) {
							return 1, true
						}
						if bo.Op == token.ADD || bo.Op == token.SUB {
							return -1, true
						}
					}
				}
			}
			return 0, false
		case *ssa.Extract:
			if nx, ok := x.Tuple.(*ssa.Next); ok && !nx.IsString {
				return 1, true
			}
		case *ssa.BinOp:
			l, ok1 := move(x.X, d+1)
			r, ok2 := move(x.Y, d+1)
			if ok1 && ok2 {
				switch x.Op {
				case token.ADD:
					return l + r, true
				case token.SUB:
					return l - r, true
				}
			}
			return 0, false
		case *ssa.Call:
			if bi, ok := x.Call.Value.(*ssa.Builtin); ok && bi.Name() == "len" {
				return 0, true // the collected slice is not extended inside the creating loop (checked by the loop shape)
			}
		}
		return 0, false
	}
	dir := 0
	if m, ok := move(idx, 0); ok {
		switch {
		case m > 0:
			dir = 1
		case m < 0:
			dir = -1
		}
	}
	switch dir {
	case -1:
		rc.good(cons, create.Pos(), "the collected paths are consumed from the last (closest to the existing ancestor) to the first")
	case 1:
		rc.bad(cons, create.Pos(), "the collected paths are consumed in the order they were collected, deepest first: each directory is created inside the existing ancestor instead of inside its own parent, and the index holds paths that no listing reaches")
	default:
		rc.bad(cons, create.Pos(), "cannot tell in which order the collected paths are consumed")
	}
}

func init() {
	register(&Rule{ID: "C03.linkorder", Floor: 1, Also: []string{"C01"},
		Text: "link(2) looks at the new name before it looks at what kind of object the old name is: MemFS.Link refuses a directory source (EPERM) only after the destination walk (ENOENT / EEXIST) and the write-and-search test on the destination's directory (EACCES) have passed, so that the errno of a call with several things wrong is the kernel's",
		Run:  c03LinkOrder})
}

func c03LinkOrder(rc *RuleCtx) {
	f := rc.C.method("memfs", "MemFS", "Link")
	cons := "memfs.(*MemFS).Link refuses a directory source last"
	if f == nil {
		rc.anchor(cons)
		return
	}
	var walks []*ssa.Call
	var perm *ssa.Call
	eachCall(f, func(ci ssa.CallInstruction) {
		c, ok := ci.(*ssa.Call)
		if !ok {
			return
		}
		if fn := calleeFunc(c); fn != nil && nm(fn) == "searchNode" {
			walks = append(walks, c)
		}
		if _, isPerm := asPermCheck(c); isPerm {
			perm = c
		}
	})
	if len(walks) < 2 || perm == nil {
		rc.anchor("the two walks and the permission test of memfs.(*MemFS).Link")
		return
	}
	sort.Slice(walks, func(i, j int) bool { return walks[i].Pos() < walks[j].Pos() })
	ei := errResultIndex(f.Signature)
	n := 0
	bad := ""
	for _, r := range returnsOf(f) {
		isEPERM := false
		for _, l := range errLeaves(rc.C, r.Results[ei], 0) {
			if l.name == "avfs.ErrOpNotPermitted" {
				isEPERM = true
			}
		}
		if !isEPERM {
			continue
		}
		n++
		if !domInstr(walks[1], r) {
			bad = "the 'operation not permitted' refusal for a directory source is reachable before the destination has been looked up: link(dir, existing) answers EPERM where the kernel answers EEXIST (ENOENT for a missing directory)"
		}
		permPassed := false
		for _, fa := range factsAt(r.Block()) {
			c, truth := normCond(fa.Cond, fa.Truth)
			if c == ssa.Value(perm) && truth {
				permPassed = true
			}
		}
		if bad == "" && !permPassed {
			bad = "the 'operation not permitted' refusal for a directory source is reachable before the permission test on the destination's directory: the kernel answers EACCES first"
		}
	}
	switch {
	case n == 0:
		rc.bad(cons, f.Pos(), "no return of Link carries 'operation not permitted': a directory can be hard-linked")
	case bad != "":
		rc.bad(cons, f.Pos(), bad)
	default:
		rc.good(cons, f.Pos(), "EPERM for a directory source is returned only after the destination walk and the permission test passed")
	}
}

func init() {
	register(&Rule{ID: "C10.root", Floor: 3,
		Text: "the root of a BasePathFS is the base directory itself, which belongs to the underlying file system: Remove, RemoveAll and Rename are forwarded only after the translated path was compared with the base path and found different - a chroot cannot remove or move its own root, and nothing outside the base directory (its entry in the parent directory) is changed",
		Run:  c10Root})
}

func c10Root(rc *RuleCtx) {
	for _, name := range []string{"Remove", "RemoveAll", "Rename"} {
		f := bpMethod(rc, name)
		cons := "basepathfs.(*BasePathFS)." + name + " root excluded"
		if f == nil {
			rc.anchor(cons)
			continue
		}
		var fwd ssa.CallInstruction
		eachCall(f, func(ci ssa.CallInstruction) {
			if fn := calleeFunc(ci); fn != nil && fn.Name() == name && ci.Common().IsInvoke() {
				fwd = ci
			}
		})
		if fwd == nil {
			rc.bad(cons, f.Pos(), "the call is not forwarded to the base file system")
			continue
		}
		args := callArgs(fwd)
		if name == "Rename" && len(args) > 1 {
			// the destination as well: the base path is never handed over as the name to replace
			c10RootArg(rc, f, fwd, args[1], cons+" (destination)", name)
		}
		c10RootArg(rc, f, fwd, args[0], cons, name)
	}
}

func c10RootArg(rc *RuleCtx, f *ssa.Function, fwd ssa.CallInstruction, arg ssa.Value, cons, name string) {
	{
		ok := false
		for _, fa := range factsAt(fwd.Block()) {
			c, truth := normCond(fa.Cond, fa.Truth)
			bo, isB := c.(*ssa.BinOp)
			if !isB || (bo.Op != token.EQL && bo.Op != token.NEQ) {
				continue
			}
			differ := (bo.Op == token.NEQ) == truth
			for _, pair := range [][2]ssa.Value{{bo.X, bo.Y}, {bo.Y, bo.X}} {
				if sameValue(resolve1(pair[0]), resolve1(arg)) && isFieldLoad(resolve1(pair[1]), "basePath") && differ {
					ok = true
				}
			}
		}
		if !ok {
			// the test may be made by a helper that answers nil exactly when the path is not the base path
			for _, fa := range factsAt(fwd.Block()) {
				x, isNil, isT := nilTest(fa)
				if !isT || !isNil {
					continue
				}
				call, isCall := strip(x).(*ssa.Call)
				if !isCall {
					continue
				}
				h := bodyOf(call.Call.StaticCallee())
				if h == nil || len(h.Blocks) == 0 || h.Signature.Results().Len() != 1 {
					continue
				}
				// which parameter of the helper receives the translated path
				var par *ssa.Parameter
				for i, a := range call.Call.Args {
					if i < len(h.Params) && sameValue(resolve1(a), resolve1(arg)) {
						par = h.Params[i]
					}
				}
				if par == nil {
					continue
				}
				all, n := true, 0
				for _, r := range returnsOf(h) {
					rv := returnOperand(r, 0)
					if rv != nil && errNonNil(rc.C, rv, factsAt(r.Block()), 0) {
						continue
					}
					n++
					differs := false
					for _, hf := range factsAt(r.Block()) {
						c, truth := normCond(hf.Cond, hf.Truth)
						bo, isB := c.(*ssa.BinOp)
						if !isB || (bo.Op != token.EQL && bo.Op != token.NEQ) || (bo.Op == token.NEQ) != truth {
							continue
						}
						for _, pair := range [][2]ssa.Value{{bo.X, bo.Y}, {bo.Y, bo.X}} {
							if strip(pair[0]) == ssa.Value(par) && isFieldLoad(resolve1(pair[1]), "basePath") {
								differs = true
							}
						}
					}
					if !differs {
						all = false
					}
				}
				if all && n > 0 {
					ok = true
				}
			}
		}
		if ok {
			rc.good(cons, fwd.Pos(), "forwarded only when the translated path differs from the base path")
		} else {
			rc.bad(cons, fwd.Pos(), "the call is forwarded without excluding the base path itself: "+name+"(\"/\") through the wrapper removes (or moves) the base directory in the underlying file system, an entry of a directory outside the base")
		}
	}
}

func init() {
	register(&Rule{ID: "C02.unlinked", Floor: 2,
		Text: "a handle keeps working on its file after the last name is removed: the routines that release a node when an entry is removed (they decrement the link counter) do not touch its content - an unlinked file keeps its bytes for the handles that are still open, and the memory goes when the last of them is closed",
		Run:  c02Unlinked})
}

func c02Unlinked(rc *RuleCtx) {
	for _, pk := range []string{"memfs", "orefafs"} {
		for _, f := range rc.C.srcFuncs(pk) {
			// the content of a node is emptied by truncation only: nowhere else is nil stored into it (a Close that drops
			// the content of a file without a name empties it for the other handles still open on it)
			if nm(f) != "truncate" {
				eachInstr(f, func(in ssa.Instruction) {
					st, ok := in.(*ssa.Store)
					if !ok {
						return
					}
					fa, ok := st.Addr.(*ssa.FieldAddr)
					if !ok || fieldName(fa.X.Type(), fa.Field) != "data" || !isNilConst(strip(st.Val)) || objKeyOf(fa).fresh {
						return
					}
					rc.bad(entryOwners(lockAnalysisFor(rc.C))(f)+" drops the content", st.Pos(), "the content of a node is set to nil outside truncate: handles that are still open on the file (and its other hard links) lose the data")
				})
			}
			if !isUnlinkRoutine(f) {
				continue
			}
			cons := funcName(f) + " keeps the content"
			bad := false
			eachInstr(f, func(in ssa.Instruction) {
				if st, ok := in.(*ssa.Store); ok {
					if fa, ok := st.Addr.(*ssa.FieldAddr); ok && fieldName(fa.X.Type(), fa.Field) == "data" {
						bad = true
					}
				}
			})
			if bad {
				rc.bad(cons, f.Pos(), "the content is dropped when the link counter reaches zero: a handle opened before the last name was removed reads EOF and loses what it writes, where os.File keeps working on the unlinked file")
			} else {
				rc.good(cons, f.Pos(), "only the link counter (and the entries of a directory) change")
			}
		}
	}
}

func init() {
	register(&Rule{ID: "C02.openpos", Floor: 2,
		Text: "a new handle starts at offset 0 whatever its flags: OpenFile stores nothing but the constant 0 into the offset of the handle it builds (O_APPEND positions each write at the end, in Write; it does not move the read position, so an O_RDWR|O_APPEND handle reads from the beginning as os.File does)",
		Run:  c02OpenPos})
}

func c02OpenPos(rc *RuleCtx) {
	for _, fp := range filePkgs {
		var f *ssa.Function
		switch fp.pkg {
		case "memfs":
			f = rc.C.method("memfs", "MemFS", "OpenFile")
		case "orefafs":
			f = rc.C.method("orefafs", "OrefaFS", "OpenFile")
		}
		cons := fmt.Sprintf("%s OpenFile initial offset", fp.pkg)
		if f == nil {
			rc.anchor(cons)
			continue
		}
		bad := false
		n := 0
		for _, g := range append([]*ssa.Function{f}, calleesWithin(rc, f, fp.pkg)...) {
			eachInstr(g, func(in ssa.Instruction) {
				st, ok := in.(*ssa.Store)
				if !ok {
					return
				}
				fa, ok := st.Addr.(*ssa.FieldAddr)
				if !ok || fieldName(fa.X.Type(), fa.Field) != "at" {
					return
				}
				if nt := namedOf(fa.X.Type()); nt == nil || nt.Obj().Name() != fp.typ {
					return
				}
				n++
				if k, isC := constInt(st.Val); !isC || k != 0 {
					// a parameter of an unexported constructor: every call site passes 0?
					if nonNegCfg = rc.C; true {
						if p, isP := strip(st.Val).(*ssa.Parameter); isP && !isEntryPoint(g) {
							idx := paramIdxRaw(g, p)
							all := true
							for _, h := range rc.C.srcFuncs(fp.pkg) {
								eachCall(h, func(ci ssa.CallInstruction) {
									if ci.Common().StaticCallee() == g && idx < len(ci.Common().Args) {
										if k2, c2 := constInt(ci.Common().Args[idx]); !c2 || k2 != 0 {
											all = false
										}
									}
								})
							}
							if all {
								return
							}
						}
					}
					bad = true
				}
			})
		}
		if bad {
			rc.bad(cons, f.Pos(), "OpenFile gives the new handle an offset other than 0 (the size of the file for O_APPEND): Read on an O_RDWR|O_APPEND handle starts at the end and returns EOF where os.File returns the content")
		} else {
			rc.good(cons, f.Pos(), fmt.Sprintf("the offset of the new handle is left at zero (%d explicit store(s))", n))
		}
	}
}

// calleesWithin: unexported functions of the package called (statically) from f, one level.
func calleesWithin(rc *RuleCtx, f *ssa.Function, pkg string) []*ssa.Function {
	var out []*ssa.Function
	seen := map[*ssa.Function]bool{}
	eachCall(f, func(ci ssa.CallInstruction) {
		if sc := ci.Common().StaticCallee(); sc != nil && sc.Pkg == f.Pkg && !isEntryPoint(sc) && len(sc.Blocks) > 0 && !seen[sc] {
			seen[sc] = true
			out = append(out, sc)
		}
	})
	return out
}

func init() {
	register(&Rule{ID: "C03.keepid", Floor: 4, Also: []string{"C01"},
		Text: "chown(2) leaves an id unchanged when -1 is passed for it: in the setOwner routines every store of a parameter into the uid / gid of a node is made under the test that the parameter is not -1",
		Run:  c03KeepID})
}

func c03KeepID(rc *RuleCtx) {
	for _, pk := range []string{"memfs", "orefafs"} {
		for _, f := range rc.C.srcFuncs(pk) {
			if nm(f) != "setOwner" {
				continue
			}
			eachInstr(f, func(in ssa.Instruction) {
				st, ok := in.(*ssa.Store)
				if !ok {
					return
				}
				fa, ok := st.Addr.(*ssa.FieldAddr)
				if !ok {
					return
				}
				fld := fieldName(fa.X.Type(), fa.Field)
				if fld != "uid" && fld != "gid" {
					return
				}
				p, isP := strip(st.Val).(*ssa.Parameter)
				if !isP {
					return
				}
				cons := fmt.Sprintf("%s %s kept for -1", funcName(f), fld)
				guarded := false
				for _, fact := range factsAt(st.Block()) {
					c, truth := normCond(fact.Cond, fact.Truth)
					bo, ok := c.(*ssa.BinOp)
					if !ok || (bo.Op != token.EQL && bo.Op != token.NEQ) {
						continue
					}
					for _, pair := range [][2]ssa.Value{{bo.X, bo.Y}, {bo.Y, bo.X}} {
						if strip(pair[0]) == ssa.Value(p) {
							if k, isC := constInt(pair[1]); isC && k == -1 && (bo.Op == token.NEQ) == truth {
								guarded = true
							}
						}
					}
				}
				if guarded {
					rc.good(cons, st.Pos(), "stored only when the argument is not -1")
				} else {
					rc.bad(cons, st.Pos(), "the argument is stored even when it is -1: Chown(name, -1, gid) makes the owner -1 instead of leaving it unchanged")
				}
			})
		}
	}
}

func init() {
	register(&Rule{ID: "C05.samenode", Floor: 2, Also: []string{"C01"},
		Text: "rename(2) between two hard links of one file does nothing: in Rename of MemFS and OrefaFS, every path to the first change of the tree has compared the node found under the old name with the node found under the new name and seen them differ (or seen that nothing is under the new name) - otherwise the file is released and re-inserted under one name, and a link is lost",
		Run:  c05SameNode})
}

func c05SameNode(rc *RuleCtx) {
	a := lockAnalysisFor(rc.C)
	prims := computeMapPrims(rc.C, a, map[string]bool{"memfs": true, "orefafs": true})
	for _, pk := range []struct{ pkg, typ string }{{"memfs", "MemFS"}, {"orefafs", "OrefaFS"}} {
		f := rc.C.method(pk.pkg, pk.typ, "Rename")
		cons := pk.pkg + ".(*" + pk.typ + ").Rename same file under both names"
		if f == nil {
			rc.anchor(cons)
			continue
		}
		// first change of the tree: entry-map updates, tree primitives, release calls
		var muts []ssa.Instruction
		for _, u := range entryMapUpdates(f) {
			if enclosingRangeHeader(u.in) == nil {
				muts = append(muts, u.in)
			}
		}
		eachCall(f, func(ci ssa.CallInstruction) {
			if _, isDefer := ci.(*ssa.Defer); isDefer {
				return
			}
			if fn := calleeFunc(ci); fn != nil && (nm(fn) == "delete" || nm(fn) == "remove") {
				muts = append(muts, ci)
				return
			}
			for _, callee := range a.calleesOf(ci) {
				if len(prims[callee]) > 0 && !isEntryPoint(callee) {
					muts = append(muts, ci)
				}
			}
		})
		if len(muts) == 0 {
			rc.anchor("changes of the tree in " + funcName(f))
			continue
		}
		// paramIndex does not count the receiver: 0 is the old name, 1 the new one
		isOld := func(v ssa.Value) bool {
			return derivesFromParam(stripIface(resolve1(v)), f, 0, 0) && !derivesFromParam(stripIface(resolve1(v)), f, 1, 0)
		}
		isNew := func(v ssa.Value) bool {
			return derivesFromParam(stripIface(resolve1(v)), f, 1, 0) && !derivesFromParam(stripIface(resolve1(v)), f, 0, 0)
		}
		isNodeVal := func(v ssa.Value) bool {
			t := v.Type()
			if _, ok := t.Underlying().(*types.Interface); ok {
				return true
			}
			_, ok := t.Underlying().(*types.Pointer)
			return ok
		}
		bad := ""
		for _, m := range muts {
			paths, complete := pathsTo(f, m, 8000)
			if !complete {
				bad = "too many paths to decide"
				break
			}
			for _, p := range paths {
				if !feasiblePath(p) {
					continue
				}
				ok := false
				for _, fa := range p {
					c, truth := normCond(fa.Cond, fa.Truth)
					switch x := c.(type) {
					case *ssa.BinOp:
						if x.Op != token.EQL && x.Op != token.NEQ {
							continue
						}
						differ := (x.Op == token.NEQ) == truth
						same := (x.Op == token.EQL) == truth
						if isNodeVal(x.X) && ((isOld(x.X) && isNew(x.Y)) || (isOld(x.Y) && isNew(x.X))) && differ {
							ok = true
						}
						// nothing under the new name
						if same && ((isNew(x.X) && isNilConst(x.Y)) || (isNew(x.Y) && isNilConst(x.X))) {
							ok = true
						}
					case *ssa.Call:
						if fn := calleeFunc(x); fn != nil && nm(fn) == "isNotExist" && truth {
							for _, arg := range callArgs(x) {
								if isNew(arg) {
									ok = true
								}
							}
						}
					case *ssa.Extract:
						// comma-ok of the index lookup of the new name: false
						if lk, isL := x.Tuple.(*ssa.Lookup); isL && x.Index == 1 && !truth && isNew(lk.Index) {
							ok = true
						}
					}
				}
				if !ok {
					if os.Getenv("AVFSLINT_DEBUG") != "" {
						fmt.Fprintln(os.Stderr, "samenode path:", dbgFacts(rc.C, p))
					}
					bad = "a path reaches the change at " + rc.C.pos(m.Pos()) + " without having compared the node under the old name with the node under the new name: for two hard links of one file the file is released and moved onto itself, and one of its names disappears (rename(2) does nothing in that case)"
				}
			}
			if bad != "" {
				break
			}
		}
		if bad != "" {
			rc.bad(cons, f.Pos(), bad)
		} else {
			rc.good(cons, f.Pos(), fmt.Sprintf("%d change(s) of the tree, each reached only after the two nodes were seen to differ (or the new name to be free)", len(muts)))
		}
	}
}

// ---- rules added after the fourth round ----

func init() {
	register(&Rule{ID: "C17.notexist", Floor: 1, Also: []string{"C01"},
		Text: "the error table gives 'no such directory' and 'no such file' one value on POSIX and two on Windows: the not-exist predicate of MemFS accepts every entry of the table whose POSIX value is ENOENT (the set is read from Errors.SetOSType), so that what is 'missing' does not depend on the emulated OS",
		Run:  c17NotExist})
	register(&Rule{ID: "C16.flow", Floor: 1,
		Text: "inside the copy helpers of copy.go (the functions CopyFileHash / HashFile reach), the error of every Read and Write reaches the error result of the helper that made the call (end-of-file excepted): a failed read that only ends the loop is reported as a successful, shorter copy",
		Run:  c16Flow})
	register(&Rule{ID: "C03.rmtree", Floor: 2, Also: []string{"C05"},
		Text: "RemoveAll releases a directory only after everything below it was released: a call that releases a directory node (delete) after the recursive removal of its content is reached, on every path that made the recursive call, only through the nil branch of that call's error - a subtree the caller may not write stays intact when the call answers EACCES",
		Run:  c03RmTree})
	register(&Rule{ID: "C06.handle", Floor: 3, Also: []string{"C02", "C07"},
		Text: "OpenFile never builds a handle on a nil node: on every path to the construction of a MemFile the node is the one just created, was tested non-nil or matched by a type switch, or is the child of a walk whose status is 'found' (the walk returns 'found' only with a node, checked on its returns) - a name created by another call between the walk and the directory lock must be looked at again, not assumed missing",
		Run:  c06Handle})
}

func c17NotExist(rc *RuleCtx) {
	set := rc.C.method("avfs", "Errors", "SetOSType")
	pred := rc.C.method("memfs", "MemFS", "isNotExist")
	cons := "memfs.(*MemFS).isNotExist covers the table"
	if set == nil || pred == nil {
		rc.anchor("avfs.(*Errors).SetOSType / memfs.(*MemFS).isNotExist")
		return
	}
	// fields of Errors assigned avfs.ErrNoSuchFileOrDir
	want := map[string]bool{}
	eachInstr(set, func(in ssa.Instruction) {
		st, ok := in.(*ssa.Store)
		if !ok {
			return
		}
		fa, ok := st.Addr.(*ssa.FieldAddr)
		if !ok {
			return
		}
		if k, isC := strip(st.Val).(*ssa.Const); isC && constName(k) == "avfs.ErrNoSuchFileOrDir" {
			want[fieldName(fa.X.Type(), fa.Field)] = true
		}
	})
	if len(want) == 0 {
		rc.anchor("entries of avfs.Errors with the POSIX value ENOENT")
		return
	}
	got := map[string]bool{}
	eachInstr(pred, func(in ssa.Instruction) {
		bo, ok := in.(*ssa.BinOp)
		if !ok || bo.Op != token.EQL {
			return
		}
		for _, o := range []ssa.Value{bo.X, bo.Y} {
			if ld, ok := strip(resolve1(o)).(*ssa.UnOp); ok && ld.Op == token.MUL {
				if fa, ok := ld.X.(*ssa.FieldAddr); ok {
					got[fieldName(fa.X.Type(), fa.Field)] = true
				}
			}
		}
	})
	var missing []string
	for f := range want {
		if !got[f] {
			missing = append(missing, f)
		}
	}
	sort.Strings(missing)
	if len(missing) > 0 {
		rc.bad(cons, pred.Pos(), "the predicate does not accept the table entry "+strings.Join(missing, ", ")+", which is ENOENT on POSIX but a distinct error on Windows: on a Windows-typed file system a missing directory is no longer 'missing' (MkdirAll of two missing levels fails, RemoveAll below a missing directory reports an error)")
	} else {
		rc.good(cons, pred.Pos(), fmt.Sprintf("accepts the %d entries whose POSIX value is ENOENT", len(want)))
	}
}

func c16Flow(rc *RuleCtx) {
	roots := []*ssa.Function{rc.C.fn("avfs", "CopyFileHash"), rc.C.fn("avfs", "HashFile")}
	seen := map[*ssa.Function]bool{}
	var helpers []*ssa.Function
	var visit func(f *ssa.Function, top bool)
	visit = func(f *ssa.Function, top bool) {
		if f == nil || seen[f] || len(f.Blocks) == 0 {
			return
		}
		seen[f] = true
		if !top {
			helpers = append(helpers, f)
		}
		eachCall(f, func(ci ssa.CallInstruction) {
			if sc := ci.Common().StaticCallee(); sc != nil && sc.Pkg != nil && sc.Pkg.Pkg.Path() == modPath && !isEntryPoint(sc) {
				visit(sc, false)
			}
		})
	}
	for _, r := range roots {
		if r == nil {
			rc.anchor("avfs.CopyFileHash / avfs.HashFile")
			return
		}
		visit(r, true)
	}
	n := 0
	for _, f := range helpers {
		ei := errResultIndex(f.Signature)
		if ei < 0 {
			continue
		}
		n++
		cons := funcName(f) + " errors of Read/Write reach the result"
		bad := ""
		eachCall(f, func(ci ssa.CallInstruction) {
			c, ok := ci.(*ssa.Call)
			if !ok || !c.Call.IsInvoke() {
				return
			}
			m := c.Call.Method.Name()
			if m != "Read" && m != "Write" {
				return
			}
			var ev ssa.Value
			for _, u := range referrersOf(c) {
				if e, isE := u.(*ssa.Extract); isE && isErrorType(e.Type()) {
					ev = e
				}
			}
			if ev == nil {
				bad = "the error of " + m + " is discarded"
				return
			}
			reaches := false
			for _, r := range returnsOf(f) {
				for _, rv := range resolveRaw(r.Results[ei]) {
					if rv == ev || strip(rv) == ev {
						reaches = true
					}
				}
				if flowsThroughPhi(r.Results[ei], ev, 0) {
					reaches = true
				}
			}
			if !reaches {
				bad = "the error returned by " + m + " (" + rc.C.pos(c.Pos()) + ") never reaches the error result of " + f.Name() + ": a failing " + strings.ToLower(m) + " ends the copy and the caller is told it succeeded"
			}
		})
		if bad != "" {
			rc.bad(cons, f.Pos(), bad)
		} else {
			rc.good(cons, f.Pos(), "every Read/Write error reaches a return (or the helper delegates to io.CopyBuffer)")
		}
	}
	if n == 0 {
		rc.anchor("copy helpers reached from CopyFileHash / HashFile")
	}
}

func flowsThroughPhi(v, src ssa.Value, depth int) bool {
	if v == nil || depth > 6 {
		return false
	}
	if v == src || strip(v) == src {
		return true
	}
	if phi, ok := v.(*ssa.Phi); ok {
		for _, e := range phi.Edges {
			if e != v && flowsThroughPhi(e, src, depth+1) {
				return true
			}
		}
	}
	for _, rv := range resolveRaw(v) {
		if rv != v && flowsThroughPhi(rv, src, depth+1) {
			return true
		}
	}
	return false
}

// pathFactsBetween enumerates acyclic paths from `from` to `to` and returns the branch decisions taken on each.
func pathFactsBetween(from, to ssa.Instruction, limit int) (paths [][]Fact, complete bool) {
	fb, tb := from.Block(), to.Block()
	complete = true
	if fb == tb {
		if instrIndex(from) < instrIndex(to) {
			return [][]Fact{nil}, true
		}
	}
	canReach := map[*ssa.BasicBlock]bool{}
	var mark func(b *ssa.BasicBlock)
	mark = func(b *ssa.BasicBlock) {
		if canReach[b] {
			return
		}
		canReach[b] = true
		for _, p := range b.Preds {
			mark(p)
		}
	}
	mark(tb)
	var bpath []*ssa.BasicBlock
	var walk func(b *ssa.BasicBlock, facts []Fact, seen map[*ssa.BasicBlock]bool)
	walk = func(b *ssa.BasicBlock, facts []Fact, seen map[*ssa.BasicBlock]bool) {
		if len(paths) >= limit {
			complete = false
			return
		}
		if b == tb && len(seen) > 0 {
			paths = append(paths, append([]Fact(nil), facts...))
			return
		}
		if seen[b] || !canReach[b] {
			return
		}
		seen[b] = true
		defer delete(seen, b)
		bpath = append(bpath, b)
		defer func() { bpath = bpath[:len(bpath)-1] }()
		last := b.Instrs[len(b.Instrs)-1]
		if iff, ok := last.(*ssa.If); ok {
			for k, truth := range []bool{true, false} {
				nf := append(append([]Fact(nil), facts...), Fact{iff.Cond, truth, iff})
				nf = append(nf, phiFactsOnPath(iff, truth, bpath)...)
				walk(b.Succs[k], nf, seen)
			}
			return
		}
		for _, s := range b.Succs {
			walk(s, facts, seen)
		}
	}
	walk(fb, nil, map[*ssa.BasicBlock]bool{})
	return
}

func c03RmTree(rc *RuleCtx) {
	n := 0
	for _, f := range rc.C.srcFuncs("memfs") {
		var recs []*ssa.Call
		eachCall(f, func(ci ssa.CallInstruction) {
			if c, ok := ci.(*ssa.Call); ok {
				if fn := calleeFunc(c); fn != nil && nm(fn) == "removeAll" {
					recs = append(recs, c)
				}
			}
		})
		if len(recs) == 0 {
			continue
		}
		for _, rec := range recs {
			// the directory passed to the recursive removal, and the node it was asserted from
			arg := callArgs(rec)[0]
			var src ssa.Value = arg
			if e, ok := strip(arg).(*ssa.Extract); ok {
				if ta, ok := e.Tuple.(*ssa.TypeAssert); ok {
					src = ta.X
				}
			}
			if ta, ok := strip(arg).(*ssa.TypeAssert); ok {
				src = ta.X
			}
			eachCall(f, func(ci ssa.CallInstruction) {
				fn := calleeFunc(ci)
				if fn == nil || nm(fn) != "delete" {
					return
				}
				r := callRecv(ci)
				if ci.Common().IsInvoke() {
					r = ci.Common().Value
				}
				if r == nil || !(sameValue(r, src) || sameValue(r, arg) || strip(resolve1(r)) == strip(resolve1(src))) {
					return
				}
				if !instrReaches(rec, ci) {
					return
				}
				n++
				cons := fmt.Sprintf("%s releases %s after its content", funcName(f), prettyVal(src, 0))
				paths, complete := pathFactsBetween(rec, ci, 2000)
				ok := complete && len(paths) > 0
				for _, p := range paths {
					tested := false
					for _, fa := range p {
						if x, isNil, k := nilTest(fa); k && isNil && strip(resolve1(x)) == ssa.Value(rec) {
							tested = true
						}
					}
					if !tested {
						ok = false
					}
				}
				if ok {
					rc.good(cons, ci.Pos(), "released only through the nil branch of the recursive removal's error")
				} else {
					rc.bad(cons, ci.Pos(), "the directory is released on a path where the removal of its content may have failed: a subtree the caller may not change is emptied although the call reports permission denied")
				}
			})
		}
	}
	if n == 0 {
		rc.anchor("release of a directory after the recursive removal of its content (memfs RemoveAll / removeAll)")
	}
}

func c06Handle(rc *RuleCtx) {
	f := rc.C.method("memfs", "MemFS", "OpenFile")
	walk := rc.C.method("memfs", "MemFS", "searchNode")
	if f == nil || walk == nil {
		rc.anchor("memfs.(*MemFS).OpenFile / searchNode")
		return
	}
	// lemma: the walk answers 'found' only with a node
	lemma := true
	nFound := 0
	for _, r := range returnsOf(walk) {
		found := false
		for _, ev := range resolveRaw(r.Results[3]) {
			if ld, ok := strip(ev).(*ssa.UnOp); ok && ld.Op == token.MUL {
				if fa, ok := ld.X.(*ssa.FieldAddr); ok && fieldName(fa.X.Type(), fa.Field) == "FileExists" {
					found = true
				}
			}
		}
		if !found {
			continue
		}
		nFound++
		okR := true
		for _, cv := range resolveRaw(r.Results[1]) {
			nonNil := false
			if _, isMI := cv.(*ssa.MakeInterface); isMI {
				nonNil = true // the directory itself, converted to the node interface
			}
			cv = strip(cv)
			if isNilConst(cv) {
				nonNil = false
			}
			for _, fa := range factsAt(r.Block()) {
				if x, isNil, k := nilTest(fa); k && !isNil {
					for _, xv := range resolveRaw(x) {
						if strip(xv) == cv {
							nonNil = true
						}
					}
				}
				// a type switch case on the child
				c, truth := normCond(fa.Cond, fa.Truth)
				if e, isE := c.(*ssa.Extract); isE && truth && e.Index == 1 {
					if ta, isTA := e.Tuple.(*ssa.TypeAssert); isTA {
						for _, xv := range resolveRaw(ta.X) {
							if strip(xv) == cv {
								nonNil = true
							}
						}
					}
				}
			}
			if !nonNil {
				okR = false
				if os.Getenv("AVFSLINT_DEBUG") != "" {
					fmt.Fprintln(os.Stderr, "lemma fails at", rc.C.pos(r.Pos()), "child:", dbgVals([]ssa.Value{cv}), "facts:", dbgFacts(rc.C, factsAt(r.Block())))
				}
			}
		}
		if !okR {
			lemma = false
		}
	}
	if nFound == 0 {
		lemma = false
	}
	if lemma {
		rc.good(funcName(walk)+" 'found' comes with a node", walk.Pos(), fmt.Sprintf("%d returns with the 'found' status, each with a non-nil child", nFound))
	} else {
		rc.bad(funcName(walk)+" 'found' comes with a node", walk.Pos(), "a return of the walk carries the 'found' status with a child that may be nil")
	}
	var wcall *ssa.Call
	eachCall(f, func(ci ssa.CallInstruction) {
		if c, ok := ci.(*ssa.Call); ok {
			if fn := calleeFunc(c); fn != nil && nm(fn) == "searchNode" {
				wcall = c
			}
		}
	})
	var wChild, wErr *ssa.Extract
	if wcall != nil {
		for _, u := range referrersOf(wcall) {
			if e, ok := u.(*ssa.Extract); ok {
				switch e.Index {
				case 1:
					wChild = e
				case 3:
					wErr = e
				}
			}
		}
	}
	// constructions of a handle: composite literal of MemFile, or a call of an unexported constructor returning *MemFile
	type site struct {
		in ssa.Instruction
		nd ssa.Value
	}
	var sites []site
	eachInstr(f, func(in ssa.Instruction) {
		switch x := in.(type) {
		case *ssa.Store:
			fa, ok := x.Addr.(*ssa.FieldAddr)
			if !ok || fieldName(fa.X.Type(), fa.Field) != "nd" {
				return
			}
			if nt := namedOf(fa.X.Type()); nt != nil && nt.Obj().Name() == "MemFile" {
				sites = append(sites, site{x, x.Val})
			}
		case *ssa.Call:
			sc := x.Call.StaticCallee()
			if sc == nil || sc.Pkg != f.Pkg || isEntryPoint(sc) || sc.Signature.Results().Len() != 1 {
				return
			}
			if nt := namedOf(sc.Signature.Results().At(0).Type()); nt == nil || nt.Obj().Name() != "MemFile" {
				return
			}
			for _, a := range x.Call.Args {
				if _, isI := a.Type().Underlying().(*types.Interface); isI && isNamed(a.Type(), modPath+"/vfs/memfs", "node") {
					sites = append(sites, site{x, a})
				}
			}
		}
	})
	allPaths := evalPaths(f, nil, 20000)
	for i, s := range sites {
		cons := fmt.Sprintf("%s handle#%d built on a node", funcName(f), i+1)
		if len(allPaths) == 0 || len(allPaths) >= 20000 {
			rc.bad(cons, s.in.Pos(), "too many paths to decide")
			continue
		}
		bad := false
		np := 0
		for _, p := range allPaths {
			// the part of the path up to the construction
			at := -1
			for bi, b := range p.Blocks {
				if b == s.in.Block() {
					at = bi
				}
			}
			if at < 0 {
				continue
			}
			var facts []Fact
			for _, fa := range p.Conds {
				for bi := 0; bi < at; bi++ {
					if fa.If != nil && fa.If.Block() == p.Blocks[bi] {
						facts = append(facts, fa)
					}
				}
			}
			if !feasiblePath(facts) {
				continue
			}
			np++
			raw := valueOnPath(s.nd, p.Blocks[:at+1])
			just := false
			if _, isMI := raw.(*ssa.MakeInterface); isMI {
				if c, _ := resultOfCall(strip(raw)); c != nil {
					if fn := calleeFunc(c); fn != nil && strings.HasPrefix(nm(fn), "create") {
						just = true // created by this call
					}
				}
			}
			cand := strip(raw)
			if c, _ := resultOfCall(cand); c != nil {
				if fn := calleeFunc(c); fn != nil && strings.HasPrefix(nm(fn), "create") {
					just = true
				}
			}
			for _, fa := range facts {
				if x, isNil, k := nilTest(fa); k && !isNil && strip(valueOnPath(x, p.Blocks[:at+1])) == cand {
					just = true
				}
				c, truth := normCond(fa.Cond, fa.Truth)
				if e, isE := c.(*ssa.Extract); isE && truth && e.Index == 1 {
					if ta, isTA := e.Tuple.(*ssa.TypeAssert); isTA && strip(valueOnPath(ta.X, p.Blocks[:at+1])) == cand {
						just = true
					}
				}
				if wChild != nil && wErr != nil && cand == ssa.Value(wChild) && lemma {
					if bo, isB := c.(*ssa.BinOp); isB && (bo.Op == token.EQL || bo.Op == token.NEQ) && (bo.Op == token.EQL) == truth {
						for _, pair := range [][2]ssa.Value{{bo.X, bo.Y}, {bo.Y, bo.X}} {
							if strip(resolve1(pair[0])) == ssa.Value(wErr) {
								if ld, ok := strip(resolve1(pair[1])).(*ssa.UnOp); ok && ld.Op == token.MUL {
									if fa2, ok := ld.X.(*ssa.FieldAddr); ok && fieldName(fa2.X.Type(), fa2.Field) == "FileExists" {
										just = true
									}
								}
							}
						}
					}
				}
			}
			if !just {
				bad = true
				if os.Getenv("AVFSLINT_DEBUG") != "" {
					fmt.Fprintln(os.Stderr, "handle path:", dbgVals([]ssa.Value{raw}), "facts:", dbgFacts(rc.C, facts))
				}
			}
		}
		if bad {
			rc.bad(cons, s.in.Pos(), "a path builds the handle on a node that was neither created by this call, nor tested, nor returned by the walk with the 'found' status: when another call created the name between the walk and the directory lock, the handle has no node (and the exclusive-create and permission checks were skipped)")
		} else {
			rc.good(cons, s.in.Pos(), fmt.Sprintf("%d paths: the node is created, tested or found on each", np))
		}
	}
	if len(sites) == 0 {
		rc.anchor("construction of a MemFile in memfs.(*MemFS).OpenFile")
	}
}

func init() {
	register(&Rule{ID: "C09.errfamily", Floor: 2, Also: []string{"C17"},
		Text: "the errors a read-only file system refuses with belong to the emulated OS: in rofs.New a Windows error constant is stored into the wrapper's error fields only under the test that the base's OS type IS Windows (an equality with avfs.OsWindows), every other type (Linux, Darwin) keeps the POSIX errors - otherwise a refusal on a Unix-typed file system is not a permission-class error",
		Run:  c09ErrFamily})
	register(&Rule{ID: "C16.poolnew", Floor: 1, Also: []string{"C08"},
		Text: "every Get on the copy pool that finds it empty allocates a buffer of its own: the New function of the pool returns the address of a slice allocated inside that function, not of a variable captured from the constructor (which all buffers would share)",
		Run:  c16PoolNew})
}

func c09ErrFamily(rc *RuleCtx) {
	f := rc.C.fn("rofs", "New")
	if f == nil {
		rc.anchor("rofs.New")
		return
	}
	n := 0
	eachInstr(f, func(in ssa.Instruction) {
		st, ok := in.(*ssa.Store)
		if !ok {
			return
		}
		fa, ok := st.Addr.(*ssa.FieldAddr)
		if !ok {
			return
		}
		k, ok := strip(st.Val).(*ssa.Const)
		if !ok || k.Value == nil {
			return
		}
		nt, ok := k.Type().(*types.Named)
		if !ok || (nt.Obj().Name() != "WindowsError" && nt.Obj().Name() != "LinuxError") {
			return
		}
		n++
		cons := fmt.Sprintf("rofs.New %s <- %s", fieldName(fa.X.Type(), fa.Field), constName(k))
		underWindows, underOther := false, false
		for _, fact := range factsAt(st.Block()) {
			c, truth := normCond(fact.Cond, fact.Truth)
			bo, ok := c.(*ssa.BinOp)
			if !ok || (bo.Op != token.EQL && bo.Op != token.NEQ) {
				continue
			}
			for _, pair := range [][2]ssa.Value{{bo.X, bo.Y}, {bo.Y, bo.X}} {
				if !isCallNamed(pair[0], "OSType") {
					continue
				}
				kc, isC := strip(pair[1]).(*ssa.Const)
				if !isC {
					continue
				}
				eq := (bo.Op == token.EQL) == truth
				if constName(kc) == "avfs.OsWindows" && eq {
					underWindows = true
				} else {
					underOther = true
				}
			}
		}
		switch {
		case nt.Obj().Name() == "WindowsError" && underWindows && !underOther:
			rc.good(cons, st.Pos(), "stored only when the base's OS type is Windows")
		case nt.Obj().Name() == "WindowsError":
			rc.bad(cons, st.Pos(), "a Windows error is installed on a condition other than `OSType() == OsWindows`: a base of another non-Linux type (Darwin) refuses with errors that are not permission-class on a Unix-like system")
		case underWindows:
			rc.bad(cons, st.Pos(), "a POSIX error is installed for a Windows-typed base")
		default:
			rc.good(cons, st.Pos(), "POSIX default")
		}
	})
	// defaults set by the composite literal are stores too; nothing found at all means the anchors are gone
	if n == 0 {
		rc.anchor("stores of error constants into the fields of RoFS in rofs.New")
	}
}

func c16PoolNew(rc *RuleCtx) {
	n := 0
	// functions stored into the New field of a sync.Pool: a function literal or a named function
	type newFn struct {
		f     *ssa.Function
		owner *ssa.Function
	}
	var news []newFn
	for _, g := range rc.C.srcFuncs("avfs") {
		eachInstr(g, func(in ssa.Instruction) {
			st, ok := in.(*ssa.Store)
			if !ok {
				return
			}
			fa, ok := st.Addr.(*ssa.FieldAddr)
			if !ok || fieldName(fa.X.Type(), fa.Field) != "New" || !isNamed(fa.X.Type(), "sync", "Pool") {
				return
			}
			v := st.Val
			for {
				if ct, ok := v.(*ssa.ChangeType); ok {
					v = ct.X
					continue
				}
				break
			}
			switch x := v.(type) {
			case *ssa.MakeClosure:
				if fn, ok := x.Fn.(*ssa.Function); ok {
					news = append(news, newFn{fn, g})
				}
			case *ssa.Function:
				news = append(news, newFn{x, g})
			}
		})
	}
	for _, nf := range news {
		f := nf.f
		if len(f.Blocks) == 0 {
			continue
		}
		n++
		cons := funcName(nf.owner) + " pool New allocates"
		bad := false
		for _, r := range returnsOf(f) {
			for _, rv := range resolveRaw(r.Results[0]) {
				v := strip(rv)
				if mi, ok := rv.(*ssa.MakeInterface); ok {
					v = strip(mi.X)
				}
				switch x := v.(type) {
				case *ssa.Alloc:
					if x.Parent() != f {
						bad = true
					}
				case *ssa.FreeVar, *ssa.Global:
					bad = true
				case *ssa.UnOp:
					if _, isG := x.X.(*ssa.Global); isG {
						bad = true
					}
				case *ssa.MakeSlice:
				default:
					if _, isFree := v.(*ssa.FreeVar); isFree {
						bad = true
					}
				}
			}
		}
		if bad {
			rc.bad(cons, f.Pos(), "the New function of the pool hands out a variable captured from the enclosing function (or a package-level one): every buffer of the pool is the same slice, and two copies in flight overwrite each other's data while both report success")
		} else {
			rc.good(cons, f.Pos(), "a slice allocated by the New function itself")
		}
	}
	if n == 0 {
		rc.anchor("New function of the copy pool (sync.Pool) in package avfs")
	}
}

// referrersOf2: instructions of the parent function that use the closure value of f (MakeClosure or the function itself).
func referrersOf2(f *ssa.Function) []ssa.Instruction {
	var out []ssa.Instruction
	p := f.Parent()
	if p == nil {
		return nil
	}
	eachInstr(p, func(in ssa.Instruction) {
		for _, op := range in.Operands(nil) {
			if op == nil || *op == nil {
				continue
			}
			switch x := (*op).(type) {
			case *ssa.Function:
				if x == f {
					out = append(out, in)
				}
			case *ssa.MakeClosure:
				if x.Fn == ssa.Value(f) {
					out = append(out, in)
				}
			case *ssa.MakeInterface:
				if mc, ok := x.X.(*ssa.MakeClosure); ok && mc.Fn == ssa.Value(f) {
					out = append(out, in)
				}
				if fn, ok := x.X.(*ssa.Function); ok && fn == f {
					out = append(out, in)
				}
			}
		}
	})
	return out
}

func init() {
	register(&Rule{ID: "C14.wrapglob", Floor: 1, Also: []string{"C10"},
		Text: "Glob through BasePathFS enumerates the names of the wrapper's own name space: it is the generic Glob of the library run over the wrapper itself (whose ReadDir and Lstat translate every path), so the base path never becomes part of a pattern; if it is forwarded to the base instead, every match is translated back with FromBasePath",
		Run:  c14WrapGlob})
}

func c14WrapGlob(rc *RuleCtx) {
	f := bpMethod(rc, "Glob")
	cons := "basepathfs.(*BasePathFS).Glob over the wrapper"
	if f == nil {
		rc.anchor(cons)
		return
	}
	generic, forwarded := false, false
	eachCall(f, func(ci ssa.CallInstruction) {
		fn := calleeFunc(ci)
		if fn == nil {
			return
		}
		if isPkgFunc(fn, modPath, "Glob") && len(ci.Common().Args) > 0 && strip(ci.Common().Args[0]) == ssa.Value(f.Params[0]) {
			generic = true
		}
		if ci.Common().IsInvoke() && fn.Name() == "Glob" {
			forwarded = true
		}
	})
	switch {
	case generic && !forwarded:
		rc.good(cons, f.Pos(), "avfs.Glob(vfs, pattern): the enumeration of C14.tv run over the wrapper")
	case forwarded:
		fromBase := bpMethod(rc, "FromBasePath")
		ok := false
		eachCall(f, func(ci ssa.CallInstruction) {
			c, isC := ci.(*ssa.Call)
			if !isC || !ci.Common().IsInvoke() || calleeFunc(ci) == nil || calleeFunc(ci).Name() != "Glob" {
				return
			}
			for _, u := range referrersOf(c) {
				if e, isE := u.(*ssa.Extract); isE && e.Index == 0 && fromBase != nil && sliceElemsTranslated(e, fromBase) {
					ok = true
				}
			}
		})
		if ok {
			rc.good(cons, f.Pos(), "forwarded to the base, every match translated with FromBasePath")
		} else {
			rc.bad(cons, f.Pos(), "the matches of the base file system are returned without being translated back into the wrapper's name space")
		}
	default:
		rc.bad(cons, f.Pos(), "Glob neither runs the generic enumeration over the wrapper nor forwards to the base")
	}
}
