package main

// Round-8 rules: slips that come from Go's own semantics (a shadowed or overwritten error, an index at len, a
// rune cut to a byte, an error wrapped twice).

import (
	"fmt"
	"go/constant"
	"go/token"
	"go/types"
	"strings"

	"golang.org/x/tools/go/ssa"
)

func init() {
	register(&Rule{ID: "C01.zeroerr", Floor: 40, Also: []string{"C12", "C02", "C14", "C16", "C15", "C10", "C09"},
		AlsoOnly: map[string][]string{"C12": {"avfs.", "failfs."}, "C02": {"memfs.", "orefafs."}, "C14": {"avfs."}, "C16": {"avfs."},
			"C15": {"memidm."}, "C10": {"basepathfs."}, "C09": {"rofs."}},
		AlsoFloor: map[string]int{"C12": 10, "C02": 5, "C14": 5, "C16": 5, "C15": 2, "C10": 2, "C09": 2},
		Text:      "a function of the library whose results are (T, error), T a string, a pointer or an interface, never returns the zero value of T next to an error that may be nil: at every return whose first result is the constant zero value, the error is provably non-nil (a constructed error, a sentinel, an entry of the error table, a call result on the branch that established it is not nil or that an error predicate answered true for, a merge of such values). A failure whose error variable was overwritten or shadowed on the way (`_, err = f()` inside the branch that handles the failure of g) otherwise comes back as ('', nil): the caller gets neither a result nor an error",
		Run:       c01ZeroErr})
}

// errPredicateTrue: a fact `P(.., v, ..) == true` for an error predicate P (a function returning one bool whose name
// starts with Is/is, or errors.Is / errors.As): P answers false for a nil error, so v is not nil.
func errPredicateTrue(facts []Fact, v ssa.Value) bool {
	sv := strip(v)
	for _, fa := range facts {
		c, truth := normCond(fa.Cond, fa.Truth)
		if !truth {
			continue
		}
		call, ok := c.(*ssa.Call)
		if !ok {
			continue
		}
		fn := calleeFunc(call)
		if fn == nil {
			continue
		}
		n := fn.Name()
		if !(strings.HasPrefix(n, "Is") || strings.HasPrefix(n, "is") || n == "As") {
			continue
		}
		for _, a := range callArgs(call) {
			if strip(a) == sv {
				return true
			}
		}
	}
	return false
}

// equalsSentinel: a fact `v == X` (true) where X is itself provably non-nil.
func equalsSentinel(c *Config, facts []Fact, v ssa.Value, depth int) bool {
	sv := strip(v)
	for _, fa := range facts {
		cv, truth := normCond(fa.Cond, fa.Truth)
		b, ok := cv.(*ssa.BinOp)
		if !ok || !((b.Op == token.EQL && truth) || (b.Op == token.NEQ && !truth)) {
			continue
		}
		var other ssa.Value
		switch {
		case strip(b.X) == sv:
			other = b.Y
		case strip(b.Y) == sv:
			other = b.X
		default:
			continue
		}
		if k, isC := other.(*ssa.Const); isC && k.IsNil() {
			continue
		}
		if errNonNil(c, other, nil, depth+1) {
			return true
		}
	}
	return false
}

// bodyOf: the function whose body stands for f: f itself, or the generic function an instance without a body of its
// own was made from (a generic helper called from a generic function).
func bodyOf(f *ssa.Function) *ssa.Function {
	if f != nil && f.Origin() != nil && (len(f.Blocks) == 0 || f.Pkg == nil) {
		return f.Origin()
	}
	return f
}

// errNonNil: the error value v is provably not nil under the facts.
func errNonNil(c *Config, v ssa.Value, facts []Fact, depth int) bool {
	if v == nil || depth > 6 {
		return false
	}
	if nilnessOf(v, 0) == 1 {
		return true
	}
	if nilnessFromFacts(facts, v) == 1 || errPredicateTrue(facts, v) || equalsSentinel(c, facts, v, depth) {
		return true
	}
	switch x := v.(type) {
	case *ssa.ChangeInterface:
		return errNonNil(c, x.X, facts, depth+1)
	case *ssa.ChangeType:
		return errNonNil(c, x.X, facts, depth+1)
	case *ssa.Phi:
		dead := phiDeadEdges(x)
		n := 0
		for i, e := range x.Edges {
			if dead[i] || e == ssa.Value(x) {
				continue
			}
			n++
			if !errNonNil(c, e, factsAt(x.Block().Preds[i]), depth+1) {
				return false
			}
		}
		return n > 0
	case *ssa.UnOp:
		if x.Op != token.MUL {
			return false
		}
		switch a := x.X.(type) {
		case *ssa.Global:
			// a package-level sentinel
			return strings.HasPrefix(a.Name(), "Err") || strings.HasPrefix(a.Name(), "err") || a.Name() == "EOF" || strings.HasPrefix(a.Name(), "Skip")
		case *ssa.FieldAddr:
			// an entry of an error table (avfs.Errors: total by C17.errors) or an error field a constructor fills (rofs)
			if n := namedOf(derefType(a.X.Type())); n != nil && (n.Obj().Name() == "Errors" || isErrorType(x.Type())) {
				return true
			}
		case *ssa.Alloc:
			rs := resolve(x)
			if len(rs) == 0 {
				return false
			}
			for _, r := range rs {
				if r == ssa.Value(x) || !errNonNil(c, r, facts, depth+1) {
					return false
				}
			}
			return true
		}
	case *ssa.Call:
		callee := x.Call.StaticCallee()
		if callee != nil && callee.Pkg != nil {
			if pp := callee.Pkg.Pkg.Path(); (pp == "errors" && callee.Name() == "New") || (pp == "fmt" && callee.Name() == "Errorf") {
				return true
			}
		}
		callee = bodyOf(callee)
		if callee == nil || len(callee.Blocks) == 0 || callee.Pkg == nil || !strings.HasPrefix(callee.Pkg.Pkg.Path(), modPath) {
			return false
		}
		res := callee.Signature.Results()
		if res.Len() != 1 || !isErrorType(res.At(0).Type()) {
			return false
		}
		rets := returnsOf(callee)
		for _, r := range rets {
			if !errNonNil(c, r.Results[0], factsAt(r.Block()), depth+2) {
				return false
			}
		}
		return len(rets) > 0
	}
	return false
}

// returnOperand: the i-th value a return hands out; when the results live in cells (a function with deferred calls
// stores them, runs the deferred calls and loads them again) it is the value stored in the return's own block.
func returnOperand(r *ssa.Return, i int) ssa.Value {
	v := r.Results[i]
	u, ok := v.(*ssa.UnOp)
	if !ok || u.Op != token.MUL {
		return v
	}
	a, ok := u.X.(*ssa.Alloc)
	if !ok {
		return v
	}
	instrs := r.Block().Instrs
	for k := len(instrs) - 1; k >= 0; k-- {
		if st, ok := instrs[k].(*ssa.Store); ok && st.Addr == ssa.Value(a) {
			return st.Val
		}
	}
	return nil // assigned elsewhere (named results): not a literal return of this block
}

// zeroConst: v is the constant zero value of a string, pointer or interface type.
func zeroConst(v ssa.Value) bool {
	for {
		switch x := v.(type) {
		case *ssa.MakeInterface:
			v = x.X
			continue
		case *ssa.ChangeType:
			v = x.X
			continue
		case *ssa.Convert:
			v = x.X
			continue
		}
		break
	}
	k, ok := v.(*ssa.Const)
	if !ok {
		return false
	}
	if k.IsNil() {
		return true
	}
	return k.Value != nil && k.Value.Kind() == constant.String && constant.StringVal(k.Value) == ""
}

func c01ZeroErr(rc *RuleCtx) {
	for _, pk := range []string{"avfs", "memfs", "orefafs", "basepathfs", "rofs", "failfs", "memidm"} {
		for _, f := range rc.C.srcFuncs(pk) {
			if rc.C.inlinedAway(f) || f.Synthetic != "" {
				continue
			}
			res := f.Signature.Results()
			if res.Len() != 2 || !isErrorType(res.At(1).Type()) {
				continue
			}
			switch res.At(0).Type().Underlying().(type) {
			case *types.Pointer, *types.Interface:
			case *types.Basic:
				if res.At(0).Type().Underlying().(*types.Basic).Kind() != types.String {
					continue
				}
			default:
				continue
			}
			n, bad := 0, 0
			var first *ssa.Return
			why := ""
			for _, r := range returnsOf(f) {
				if len(r.Results) != 2 {
					continue
				}
				r0, r1 := returnOperand(r, 0), returnOperand(r, 1)
				if r0 == nil || r1 == nil || !zeroConst(r0) {
					continue
				}
				n++
				if errNonNil(rc.C, r1, factsAt(r.Block()), 0) {
					continue
				}
				bad++
				if first == nil {
					first = r
					why = prettyVal(r1, 0)
				}
			}
			if n == 0 {
				continue
			}
			cons := funcName(f) + " zero result"
			if bad > 0 {
				rc.bad(cons, first.Pos(), fmt.Sprintf("returns the zero value of its first result together with %s, which is not provably non-nil there (%d of %d such returns): a failure on the way can come back as (zero, nil)", why, bad, n))
			} else {
				rc.good(cons, f.Pos(), fmt.Sprintf("%d returns of the zero value, each with a provably non-nil error", n))
			}
		}
	}
}

func init() {
	register(&Rule{ID: "C01.wrapflat", Floor: 60, Also: []string{"C10", "C09", "C04"},
		AlsoOnly:  map[string][]string{"C10": {"basepathfs."}, "C09": {"rofs."}, "C04": {"memfs."}},
		AlsoFloor: map[string]int{"C10": 3, "C09": 3, "C04": 10},
		Text:      "the errors the library builds are flat: the Err field of every *fs.PathError / *os.LinkError it constructs is never itself a *PathError or *LinkError built by the library (directly, or by a helper of the module all of whose results are such values): os reports `op path: errno`, and a wrapped pair prints `op old new: op path: errno`, no longer equals the reference error field by field and hides the errno from a comparison with ==",
		Run:       c01WrapFlat})
}

func isPathOrLinkError(t types.Type) bool {
	n := namedOf(derefType(t))
	if n == nil || n.Obj().Pkg() == nil {
		return false
	}
	p, nm := n.Obj().Pkg().Path(), n.Obj().Name()
	return (p == "io/fs" && nm == "PathError") || (p == "os" && (nm == "LinkError" || nm == "SyscallError"))
}

// buildsWrapped: v is (or, for a call of a module helper, is on some path) a freshly built *PathError / *LinkError.
func buildsWrapped(v ssa.Value, depth int) bool {
	if v == nil || depth > 4 {
		return false
	}
	switch x := v.(type) {
	case *ssa.MakeInterface:
		return buildsWrapped(x.X, depth)
	case *ssa.ChangeInterface:
		return buildsWrapped(x.X, depth)
	case *ssa.Alloc:
		return isPathOrLinkError(x.Type())
	case *ssa.Phi:
		for _, e := range x.Edges {
			if e != ssa.Value(x) && buildsWrapped(e, depth+1) {
				return true
			}
		}
	case *ssa.Call:
		callee := bodyOf(x.Call.StaticCallee())
		if callee == nil || len(callee.Blocks) == 0 || callee.Pkg == nil || !strings.HasPrefix(callee.Pkg.Pkg.Path(), modPath) {
			return false
		}
		res := callee.Signature.Results()
		if res.Len() != 1 || !isErrorType(res.At(0).Type()) {
			return false
		}
		for _, r := range returnsOf(callee) {
			if rv := returnOperand(r, 0); rv != nil && buildsWrapped(rv, depth+1) {
				return true
			}
		}
	}
	return false
}

func c01WrapFlat(rc *RuleCtx) {
	for _, pk := range []string{"avfs", "memfs", "orefafs", "basepathfs", "rofs", "failfs"} {
		for _, f := range rc.C.srcFuncs(pk) {
			if rc.C.inlinedAway(f) || f.Synthetic != "" {
				continue
			}
			n := 0
			var badAt token.Pos
			eachInstr(f, func(in ssa.Instruction) {
				st, ok := in.(*ssa.Store)
				if !ok {
					return
				}
				fa, ok := st.Addr.(*ssa.FieldAddr)
				if !ok || fieldName(fa.X.Type(), fa.Field) != "Err" || !isPathOrLinkError(fa.X.Type()) {
					return
				}
				n++
				if buildsWrapped(st.Val, 0) && badAt == token.NoPos {
					badAt = st.Pos()
				}
			})
			if n == 0 {
				continue
			}
			cons := funcName(f) + " flat errors"
			if badAt != token.NoPos {
				rc.bad(cons, badAt, "wraps a *PathError / *LinkError built by the library into the Err field of another one: the error no longer has the shape `op path: errno` of the reference")
			} else {
				rc.good(cons, f.Pos(), fmt.Sprintf("%d constructed errors, none wraps a constructed *PathError / *LinkError", n))
			}
		}
	}
}

func init() {
	register(&Rule{ID: "C07.index", Floor: 3, Also: []string{"C10", "C01"},
		AlsoOnly:  map[string][]string{"C10": {"basepathfs."}, "C01": {"avfs."}},
		AlsoFloor: map[string]int{"C10": 0, "C01": 1},
		Text:      "outside the adapted copies of path/filepath (validated against their source by C13), a string is indexed with a computed position only where a test on the path established that the position is below its length (`i < len(s)`, the condition of the loop that counts i, or a range over s): a prefix test alone (HasPrefix(s, p)) admits len(s) == len(p), where s[len(p)] panics with index out of range - for BasePathFS that is every error naming the base directory itself",
		Run:       c07Index})
}

func isLenOf(v ssa.Value, s ssa.Value) bool {
	c, ok := v.(*ssa.Call)
	if !ok {
		return false
	}
	b, ok := c.Call.Value.(*ssa.Builtin)
	return ok && b.Name() == "len" && len(c.Call.Args) == 1 && strip(c.Call.Args[0]) == strip(s)
}

// plusConst: v is x + k (k a positive constant): returns x, k.
func plusConst(v ssa.Value) (ssa.Value, int64, bool) {
	bo, ok := v.(*ssa.BinOp)
	if !ok || (bo.Op != token.ADD && bo.Op != token.SUB) {
		return nil, 0, false
	}
	if k, isC := constInt(bo.Y); isC {
		if bo.Op == token.SUB {
			k = -k
		}
		return bo.X, k, true
	}
	if k, isC := constInt(bo.X); isC && bo.Op == token.ADD {
		return bo.Y, k, true
	}
	return nil, 0, false
}

func sameVal(a, b ssa.Value) bool {
	if a == b {
		return true
	}
	ka, ok1 := a.(*ssa.Const)
	kb, ok2 := b.(*ssa.Const)
	return ok1 && ok2 && ka.Value != nil && kb.Value != nil && constant.Compare(ka.Value, token.EQL, kb.Value)
}

// condBelowLen: the condition (with its outcome) says idx < len(s).
func condBelowLen(cond ssa.Value, outcome bool, idx, s ssa.Value) bool {
	v, truth := normCond(cond, outcome)
	bo, ok := v.(*ssa.BinOp)
	if !ok {
		return false
	}
	x, y := bo.X, bo.Y
	switch {
	case bo.Op == token.LSS && truth && sameVal(x, idx) && isLenOf(y, s),
		bo.Op == token.GTR && truth && sameVal(y, idx) && isLenOf(x, s),
		bo.Op == token.GEQ && !truth && sameVal(x, idx) && isLenOf(y, s),
		bo.Op == token.LEQ && !truth && sameVal(y, idx) && isLenOf(x, s):
		return true
	}
	// len(s) == idx+1
	if (bo.Op == token.EQL && truth) || (bo.Op == token.NEQ && !truth) {
		for _, pr := range [][2]ssa.Value{{x, y}, {y, x}} {
			if isLenOf(pr[0], s) {
				if b, k, ok := plusConst(pr[1]); ok && b == idx && k >= 1 {
					return true
				}
			}
		}
	}
	return false
}

// nonEmptyFact: a fact at the block says s is not empty.
func nonEmptyFact(b *ssa.BasicBlock, s ssa.Value) bool {
	for _, fa := range factsAt(b) {
		v, truth := normCond(fa.Cond, fa.Truth)
		bo, ok := v.(*ssa.BinOp)
		if !ok {
			continue
		}
		if k, isK := bo.Y.(*ssa.Const); isK && strip(bo.X) == strip(s) && k.Value != nil && k.Value.ExactString() == `""` {
			if (bo.Op == token.NEQ && truth) || (bo.Op == token.EQL && !truth) {
				return true
			}
		}
		if isLenOf(bo.X, s) {
			if m, isC := constInt(bo.Y); isC {
				switch {
				case bo.Op == token.GTR && truth && m >= 0, bo.Op == token.GEQ && truth && m >= 1,
					bo.Op == token.NEQ && truth && m == 0, bo.Op == token.EQL && !truth && m == 0,
					bo.Op == token.LEQ && !truth && m >= 0, bo.Op == token.LSS && !truth && m >= 1:
					return true
				}
			}
		}
	}
	return false
}

// indexBelowLen: idx < len(s) is established at the block: by a fact, because idx is len(s)-k of a string that is
// not empty, or because idx is the counter of a loop whose condition (tested on every way into the body) says so or
// that counts down from below the length.
func indexBelowLen(b *ssa.BasicBlock, idx, s ssa.Value) bool {
	if base, k, ok := plusConst(idx); ok && k <= -1 && isLenOf(base, s) {
		return k == -1 && nonEmptyFact(b, s)
	}
	if ph, ok := idx.(*ssa.Phi); ok {
		up, down := true, true
		for i, e := range ph.Edges {
			p := ph.Block().Preds[i]
			// counting up: the way in from p tested e < len(s)
			okUp := false
			if iff, isIf := p.Instrs[len(p.Instrs)-1].(*ssa.If); isIf {
				okUp = condBelowLen(iff.Cond, p.Succs[0] == ph.Block(), e, s)
			}
			if !okUp {
				for _, fa := range factsAt(p) {
					if condBelowLen(fa.Cond, fa.Truth, e, s) {
						okUp = true
					}
				}
			}
			up = up && okUp
			// counting down: starts at len(s)-k, then decreases
			base, k, isPlus := plusConst(e)
			down = down && isPlus && k <= -1 && (isLenOf(base, s) || base == ssa.Value(ph))
		}
		if up || down {
			return true
		}
	}
	for _, fa := range factsAt(b) {
		if condBelowLen(fa.Cond, fa.Truth, idx, s) {
			return true
		}
	}
	return false
}

func c07Index(rc *RuleCtx) {
	for _, pk := range c07Pkgs {
		for _, f := range rc.C.srcFuncs(pk) {
			if rc.C.inlinedAway(f) || f.Synthetic != "" {
				continue
			}
			if fn := rc.C.Fset.Position(f.Pos()).Filename; strings.HasSuffix(fn, "/vfs_ostype_on.go") {
				continue
			}
			n, bad := 0, 0
			var at token.Pos
			what := ""
			eachInstr(f, func(in ssa.Instruction) {
				var xs, idx ssa.Value
				switch x := in.(type) {
				case *ssa.Index:
					xs, idx = x.X, x.Index
				case *ssa.Lookup:
					xs, idx = x.X, x.Index
				default:
					return
				}
				bt, ok := xs.Type().Underlying().(*types.Basic)
				if !ok || bt.Info()&types.IsString == 0 {
					return
				}
				if _, isC := constInt(idx); isC {
					return // C07.args
				}
				n++
				ok = indexBelowLen(in.Block(), idx, xs)
				if !ok {
					// the index of a range over the same string
					if ex, isEx := idx.(*ssa.Extract); isEx && ex.Index == 1 {
						if nx, isN := ex.Tuple.(*ssa.Next); isN && nx.IsString {
							if rg, isR := nx.Iter.(*ssa.Range); isR && strip(rg.X) == strip(xs) {
								ok = true
							}
						}
					}
				}
				if !ok {
					bad++
					if at == token.NoPos {
						at = in.Pos()
						what = prettyVal(xs, 0) + "[" + prettyVal(idx, 0) + "]"
					}
				}
			})
			if n == 0 {
				continue
			}
			cons := funcName(f) + " computed index"
			if bad > 0 {
				rc.bad(cons, at, fmt.Sprintf("%s is evaluated without a test on the path that the position is below the length of the string (%d of %d indexings): when they are equal the call panics with index out of range", what, bad, n))
			} else {
				rc.good(cons, f.Pos(), fmt.Sprintf("%d computed indexings, each below the length by a test on the path", n))
			}
		}
	}
}

func init() {
	register(&Rule{ID: "C01.rune", Floor: 0, Also: []string{"C13", "C14"},
		AlsoFloor: map[string]int{"C13": 0, "C14": 0},
		Text:      "a rune taken from a range over a string is never cut down to a byte (a conversion to an 8-bit integer) unless the path established that it is below utf8.RuneSelf: the byte-level classifiers of the library (IsPathSeparator and friends) would take every letter whose code point ends in 0x2F or 0x5C for a separator, so that names the kernel accepts are refused",
		Run:       c01Rune})
}

func c01Rune(rc *RuleCtx) {
	for _, pk := range c07Pkgs {
		for _, f := range rc.C.srcFuncs(pk) {
			if rc.C.inlinedAway(f) || f.Synthetic != "" {
				continue
			}
			n := 0
			var badAt token.Pos
			eachInstr(f, func(in ssa.Instruction) {
				ex, ok := in.(*ssa.Extract)
				if !ok || ex.Index != 2 {
					return
				}
				nx, ok := ex.Tuple.(*ssa.Next)
				if !ok || !nx.IsString {
					return
				}
				n++
				for _, r := range *ex.Referrers() {
					cv, ok := r.(*ssa.Convert)
					if !ok {
						continue
					}
					bt, ok := cv.Type().Underlying().(*types.Basic)
					if !ok || (bt.Kind() != types.Uint8 && bt.Kind() != types.Int8) {
						continue
					}
					guarded := false
					for _, fa := range factsAt(cv.Block()) {
						v, truth := normCond(fa.Cond, fa.Truth)
						if bo, ok := v.(*ssa.BinOp); ok && bo.X == ssa.Value(ex) {
							if k, isC := constInt(bo.Y); isC && ((bo.Op == token.LSS && truth && k <= 0x80) || (bo.Op == token.GEQ && !truth && k <= 0x80) ||
								(bo.Op == token.LEQ && truth && k < 0x80) || (bo.Op == token.GTR && !truth && k < 0x80)) {
								guarded = true
							}
						}
					}
					if !guarded && badAt == token.NoPos {
						badAt = cv.Pos()
					}
				}
			})
			if n == 0 {
				continue
			}
			cons := funcName(f) + " runes of a string"
			if badAt != token.NoPos {
				rc.bad(cons, badAt, "a rune of the range over the string is converted to an 8-bit integer without a test that it is below utf8.RuneSelf: only its low byte is classified, so a multi-byte letter whose code point ends in the separator's value is taken for a separator")
			} else {
				rc.good(cons, f.Pos(), fmt.Sprintf("%d ranges over a string, no rune is cut down to a byte", n))
			}
		}
	}
}

// ---- C09.class: the classification of the emulated errnos by errors.Is ----

func init() {
	register(&Rule{ID: "C09.class", Floor: 30, Also: []string{"C01", "C03", "C12", "C17"},
		AlsoFloor: map[string]int{"C01": 30, "C03": 30, "C12": 30, "C17": 4}, AlsoOnly: map[string][]string{"C17": {"WindowsError"}},
		Text: "errors.Is(err, fs.ErrPermission / fs.ErrExist / fs.ErrNotExist) answers for every error number of the emulation what it answers for the kernel's number: LinuxError.Is, evaluated (through whatever helpers it calls) for every LinuxError constant and each of the three classes, agrees with syscall.Errno.Is of this Go installation evaluated the same way for the same number; WindowsError.Is agrees with the classification of syscall_windows.go (access denied; already exists, dir not empty, file exists; file, bad net path and path not found). The permission-class refusal of a read-only file system, the retry of MkdirTemp on 'exists' and every IsExist / IsNotExist decision of the library rest on it",
		Run:  c09Class})
}

// aval: an abstract value of the small evaluator: a constant, the address-taken load of a package-level variable
// (named by its identifier), nil, or unknown.
type aval struct {
	k   int // 0 unknown, 1 constant, 2 global, 3 nil
	c   constant.Value
	sym string
}

func absEval(f *ssa.Function, args []aval, depth int) aval {
	if f == nil || len(f.Blocks) == 0 || depth > 4 {
		return aval{}
	}
	env := map[ssa.Value]aval{}
	for i, p := range f.Params {
		if i < len(args) {
			env[p] = args[i]
		}
	}
	var val func(v ssa.Value) aval
	val = func(v ssa.Value) aval {
		if a, ok := env[v]; ok {
			return a
		}
		switch x := v.(type) {
		case *ssa.Const:
			if x.IsNil() {
				return aval{k: 3}
			}
			if x.Value != nil {
				return aval{k: 1, c: x.Value}
			}
		case *ssa.MakeInterface:
			return val(x.X)
		case *ssa.ChangeType:
			return val(x.X)
		case *ssa.ChangeInterface:
			return val(x.X)
		case *ssa.Convert:
			return val(x.X)
		}
		return aval{}
	}
	b := f.Blocks[0]
	var prev *ssa.BasicBlock
	for steps := 0; steps < 400; steps++ {
		for _, in := range b.Instrs {
			switch x := in.(type) {
			case *ssa.Phi:
				for j, p := range b.Preds {
					if p == prev {
						env[x] = val(x.Edges[j])
					}
				}
			case *ssa.UnOp:
				switch {
				case x.Op == token.MUL:
					if g, ok := x.X.(*ssa.Global); ok {
						env[x] = aval{k: 2, sym: g.Name()}
					}
				case x.Op == token.NOT:
					if a := val(x.X); a.k == 1 && a.c.Kind() == constant.Bool {
						env[x] = aval{k: 1, c: constant.MakeBool(!constant.BoolVal(a.c))}
					}
				}
			case *ssa.BinOp:
				l, r := val(x.X), val(x.Y)
				if x.Op != token.EQL && x.Op != token.NEQ {
					if l.k == 1 && r.k == 1 && l.c.Kind() == constant.Int && r.c.Kind() == constant.Int {
						switch x.Op {
						case token.LSS, token.LEQ, token.GTR, token.GEQ:
							env[x] = aval{k: 1, c: constant.MakeBool(constant.Compare(l.c, x.Op, r.c))}
						}
					}
					continue
				}
				eq, known := false, true
				switch {
				case l.k == 1 && r.k == 1:
					eq = constant.Compare(l.c, token.EQL, r.c)
				case l.k == 2 && r.k == 2:
					eq = l.sym == r.sym
				case l.k == 3 && r.k == 3:
					eq = true
				case l.k != 0 && r.k != 0:
					eq = false // a constant, a sentinel variable and nil are pairwise different
				default:
					known = false
				}
				if known {
					env[x] = aval{k: 1, c: constant.MakeBool(eq == (x.Op == token.EQL))}
				}
			case *ssa.Call:
				callee := x.Call.StaticCallee()
				if callee == nil || x.Call.IsInvoke() {
					continue
				}
				var as []aval
				for _, a := range x.Call.Args {
					as = append(as, val(a))
				}
				env[x] = absEval(callee, as, depth+1)
			case *ssa.If:
				c := val(x.Cond)
				if c.k != 1 || c.c.Kind() != constant.Bool {
					return aval{}
				}
				prev = b
				if constant.BoolVal(c.c) {
					b = b.Succs[0]
				} else {
					b = b.Succs[1]
				}
			case *ssa.Jump:
				prev = b
				b = b.Succs[0]
			case *ssa.Return:
				if len(x.Results) != 1 {
					return aval{}
				}
				return val(x.Results[0])
			}
		}
		if prev == nil || len(b.Instrs) == 0 {
			return aval{}
		}
		if _, isRet := b.Instrs[len(b.Instrs)-1].(*ssa.Return); !isRet && prev != nil && b == prev {
			return aval{}
		}
	}
	return aval{}
}

func c09Class(rc *RuleCtx) {
	pkg := rc.C.pkg("avfs")
	classes := []string{"ErrPermission", "ErrExist", "ErrNotExist"}
	// the reference for the kernel's numbers: syscall.Errno.Is of this installation
	var ref *ssa.Function
	if sp := rc.C.Prog.ImportedPackage("syscall"); sp != nil {
		if tn, ok := sp.Pkg.Scope().Lookup("Errno").(*types.TypeName); ok {
			ref = rc.C.Prog.LookupMethod(tn.Type(), sp.Pkg, "Is")
		}
	}
	winRef := map[int64]string{5: "ErrPermission", 183: "ErrExist", 145: "ErrExist", 80: "ErrExist", 2: "ErrNotExist", 53: "ErrNotExist", 3: "ErrNotExist"}
	for _, tname := range []string{"LinuxError", "WindowsError"} {
		tn, _ := pkg.Types.Scope().Lookup(tname).(*types.TypeName)
		if tn == nil {
			rc.anchor("avfs." + tname)
			continue
		}
		is := rc.C.Prog.LookupMethod(tn.Type(), pkg.Types, "Is")
		if is == nil || len(is.Blocks) == 0 {
			rc.anchor("avfs." + tname + ".Is")
			continue
		}
		if tname == "LinuxError" && (ref == nil || len(ref.Blocks) == 0) {
			rc.anchor("syscall.Errno.Is")
			continue
		}
		sc := pkg.Types.Scope()
		for _, nm := range sc.Names() {
			k, ok := sc.Lookup(nm).(*types.Const)
			if !ok || !types.Identical(k.Type(), tn.Type()) {
				continue
			}
			num, _ := constant.Int64Val(k.Val())
			for _, cl := range classes {
				cons := fmt.Sprintf("avfs.%s.Is(%s, fs.%s)", tname, nm, cl)
				got := absEval(is, []aval{{k: 1, c: k.Val()}, {k: 2, sym: cl}}, 0)
				if got.k != 1 || got.c.Kind() != constant.Bool {
					rc.bad(cons, is.Pos(), "the answer cannot be evaluated from the source (the method no longer decides by comparisons of its receiver and target)")
					continue
				}
				want := false
				if tname == "LinuxError" {
					w := absEval(ref, []aval{{k: 1, c: k.Val()}, {k: 2, sym: cl}}, 0)
					if w.k != 1 || w.c.Kind() != constant.Bool {
						rc.bad(cons, is.Pos(), "syscall.Errno.Is cannot be evaluated for this number")
						continue
					}
					want = constant.BoolVal(w.c)
				} else {
					want = winRef[num] == cl
				}
				if constant.BoolVal(got.c) == want {
					rc.good(cons, is.Pos(), fmt.Sprintf("%v, as for the kernel's number %d", want, num))
				} else {
					rc.bad(cons, is.Pos(), fmt.Sprintf("errors.Is(%s, fs.%s) answers %v where the kernel's number %d is classified %v: callers that ask for the class (IsExist, IsNotExist, a test for a permission error) decide differently from os", nm, cl, constant.BoolVal(got.c), num, want))
				}
			}
		}
	}
}

func init() {
	register(&Rule{ID: "C02.ownbuf", Floor: 4, Also: []string{"C16"},
		Text: "the content of an in-memory file never shares its backing array with a buffer of the caller: every slice stored into a node's data field is built from the field's own previous value, from a fresh allocation or from nil - appending to (or re-slicing) the argument of Write / WriteAt / WriteString makes the file change when the caller reuses its buffer, as io.CopyBuffer and the pooled buffer of CopyFile do for every block after the first",
		Run:  c02OwnBuf})
}

// bufferRoot: where the backing array of the slice value v comes from: "own" (the data field, a fresh allocation,
// nil), "param" (a slice parameter of the function) or "?".
func bufferRoot(v ssa.Value, depth int) string {
	if v == nil || depth > 10 {
		return "?"
	}
	switch x := v.(type) {
	case *ssa.Const:
		return "own"
	case *ssa.MakeSlice:
		return "own"
	case *ssa.Parameter:
		if _, ok := x.Type().Underlying().(*types.Slice); ok {
			return "param"
		}
		return "?"
	case *ssa.Slice:
		if _, isStr := x.X.Type().Underlying().(*types.Basic); isStr {
			return "?"
		}
		return bufferRoot(x.X, depth+1)
	case *ssa.ChangeType:
		return bufferRoot(x.X, depth+1)
	case *ssa.Convert:
		// []byte(string) allocates
		if _, isStr := x.X.Type().Underlying().(*types.Basic); isStr {
			return "own"
		}
		return bufferRoot(x.X, depth+1)
	case *ssa.UnOp:
		if x.Op == token.MUL {
			if fa, ok := x.X.(*ssa.FieldAddr); ok && fieldName(fa.X.Type(), fa.Field) == "data" {
				return "own"
			}
			if a, ok := x.X.(*ssa.Alloc); ok {
				// a local: all it was assigned
				out := ""
				for _, r := range resolve(x) {
					if r == ssa.Value(x) {
						return "?"
					}
					switch bufferRoot(r, depth+1) {
					case "param":
						return "param"
					case "?":
						out = "?"
					}
				}
				_ = a
				if out == "" {
					return "own"
				}
				return out
			}
		}
		return "?"
	case *ssa.Phi:
		out := "own"
		for _, e := range x.Edges {
			if e == ssa.Value(x) {
				continue
			}
			switch bufferRoot(e, depth+1) {
			case "param":
				return "param"
			case "?":
				out = "?"
			}
		}
		return out
	case *ssa.Call:
		if b, ok := x.Call.Value.(*ssa.Builtin); ok && b.Name() == "append" && len(x.Call.Args) > 0 {
			// the result lives in the first argument's array when it has room, in a fresh one otherwise
			return bufferRoot(x.Call.Args[0], depth+1)
		}
		if callee := x.Call.StaticCallee(); callee != nil && callee.Pkg != nil {
			if p := callee.Pkg.Pkg.Path(); (p == "slices" || p == "bytes") && callee.Name() == "Clone" {
				return "own"
			}
		}
		return "?"
	}
	return "?"
}

func c02OwnBuf(rc *RuleCtx) {
	for _, pk := range []string{"memfs", "orefafs"} {
		for _, f := range rc.C.srcFuncs(pk) {
			if rc.C.inlinedAway(f) || f.Synthetic != "" {
				continue
			}
			n := 0
			var badAt token.Pos
			eachInstr(f, func(in ssa.Instruction) {
				st, ok := in.(*ssa.Store)
				if !ok {
					return
				}
				fa, ok := st.Addr.(*ssa.FieldAddr)
				if !ok || fieldName(fa.X.Type(), fa.Field) != "data" {
					return
				}
				if _, isSl := st.Val.Type().Underlying().(*types.Slice); !isSl {
					return
				}
				n++
				if bufferRoot(st.Val, 0) == "param" && badAt == token.NoPos {
					badAt = st.Pos()
				}
			})
			if n == 0 {
				continue
			}
			cons := funcName(f) + " owns its content"
			if badAt != token.NoPos {
				rc.bad(cons, badAt, "the slice stored as the content of the file is built on a slice argument (append to it / a re-slice of it): the file and the caller's buffer share one array, so the content changes when the caller writes into its buffer again")
			} else {
				rc.good(cons, f.Pos(), fmt.Sprintf("%d stores of the content, none built on a slice argument", n))
			}
		}
	}
}

func init() {
	register(&Rule{ID: "C14.batchcap", Floor: 4, Also: []string{"C02", "C07"},
		Text: "a batch of a directory listing that an open handle hands out from the listing it keeps between calls (ReadDir(n), Readdirnames(n) with n > 0) cannot be grown into the rest of that listing: every slice of a field of the handle that such a method returns is a three-index slice whose capacity is its length (or a copy) - with spare capacity behind it, a caller that appends to a batch overwrites the entries the next call returns, where os.File returns a slice of its own each time; and the cursor a batch starts at is kept below the length of that listing by a `cursor >= len(listing)` test that ends the enumeration (ReadDir and Readdirnames share the cursor but not the listing: after one of them ran ahead, the other must answer io.EOF, not slice beyond its own listing)",
		Run:  c14BatchCap})
}

func c14BatchCap(rc *RuleCtx) {
	for _, t := range []struct{ pk, typ string }{{"memfs", "MemFile"}, {"orefafs", "OrefaFile"}} {
		ms := rc.C.methodsOf(t.pk, t.typ)
		for _, name := range []string{"ReadDir", "Readdirnames"} {
			f := ms[name]
			cons := fmt.Sprintf("%s.(*%s).%s batch", t.pk, t.typ, name)
			if f == nil {
				rc.anchor(cons)
				continue
			}
			n := 0
			var badAt, curAt token.Pos
			for _, r := range returnsOf(f) {
				if len(r.Results) == 0 {
					continue
				}
				for _, v := range originsOf(returnOperandOr(r, 0)) {
					sl, ok := v.(*ssa.Slice)
					if !ok {
						continue
					}
					ld, ok := sl.X.(*ssa.UnOp)
					if !ok || ld.Op != token.MUL {
						continue
					}
					if _, isField := ld.X.(*ssa.FieldAddr); !isField {
						continue
					}
					n++
					if (sl.Max == nil || sl.Max != sl.High) && badAt == token.NoPos {
						badAt = sl.Pos()
						if badAt == token.NoPos {
							badAt = r.Pos()
						}
					}
					// the cursor the batch starts at is below the length of the listing it is taken from (the two
					// listings of a handle share one cursor: it can be beyond the shorter one)
					if sl.Low != nil && !cursorBelowLen(sl.Block(), sl.Low, ld) && curAt == token.NoPos {
						curAt = sl.Pos()
						if curAt == token.NoPos {
							curAt = r.Pos()
						}
					}
				}
			}
			switch {
			case curAt != token.NoPos:
				rc.bad(cons, curAt, "the batch is sliced from the listing at a cursor that no test on the path keeps below the listing's length (`cursor >= len(listing)` must end the enumeration): the cursor is shared with the handle's other listing and can lie beyond this one, where the slice expression panics")
			case badAt != token.NoPos:
				rc.bad(cons, badAt, "a part of the listing kept in the handle is returned with spare capacity behind it: append on the returned batch writes into the entries of the next batch")
			case n == 0:
				rc.good(cons, f.Pos(), "no part of a listing kept in the handle is returned")
			default:
				rc.good(cons, f.Pos(), fmt.Sprintf("%d batch(es) taken from the handle's listing, capacity limited to the length", n))
			}
		}
	}
}

// sameFieldLoad: both values are loads of the same field of the same object.
func sameFieldLoad(a, b ssa.Value) bool {
	la, ok1 := a.(*ssa.UnOp)
	lb, ok2 := b.(*ssa.UnOp)
	if !ok1 || !ok2 || la.Op != token.MUL || lb.Op != token.MUL {
		return false
	}
	fa, ok1 := la.X.(*ssa.FieldAddr)
	fb, ok2 := lb.X.(*ssa.FieldAddr)
	return ok1 && ok2 && fa.Field == fb.Field && strip(fa.X) == strip(fb.X)
}

// cursorBelowLen: a fact at the block says low < len(listing) (listing: a load of the same field as ld).
func cursorBelowLen(b *ssa.BasicBlock, low ssa.Value, ld *ssa.UnOp) bool {
	isLen := func(v ssa.Value) bool {
		c, ok := v.(*ssa.Call)
		if !ok {
			return false
		}
		bi, ok := c.Call.Value.(*ssa.Builtin)
		return ok && bi.Name() == "len" && len(c.Call.Args) == 1 && sameFieldLoad(c.Call.Args[0], ld)
	}
	for _, fa := range factsAt(b) {
		v, truth := normCond(fa.Cond, fa.Truth)
		bo, ok := v.(*ssa.BinOp)
		if !ok {
			continue
		}
		switch {
		case bo.Op == token.LSS && truth && bo.X == low && isLen(bo.Y),
			bo.Op == token.GEQ && !truth && bo.X == low && isLen(bo.Y),
			bo.Op == token.GTR && truth && bo.Y == low && isLen(bo.X),
			bo.Op == token.LEQ && !truth && bo.Y == low && isLen(bo.X):
			return true
		}
	}
	return false
}

func returnOperandOr(r *ssa.Return, i int) ssa.Value {
	if v := returnOperand(r, i); v != nil {
		return v
	}
	return r.Results[i]
}

func init() {
	register(&Rule{ID: "C08.lockless", Floor: 1, Also: []string{"C11"}, AlsoOnly: map[string][]string{"C11": {" replaces "}}, AlsoFloor: map[string]int{"C11": 0},
		Text: "a map held in a struct of memfs / orefafs / memidm that carries no mutex of its own (MemFS: every view made by Sub shares the maps of the struct it was copied from) is filled while the object is built and never written afterwards: a later insertion or deletion has no lock it could share with the readers of the map (the path walk reads the volume table on every call), which the runtime answers with a data race or 'concurrent map read and map write'",
		Run:  c08Lockless})
}

// structHasMutex: the struct, or a struct it embeds / holds by value, has a field of a type of package sync.
func structHasMutex(st *types.Struct, depth int) bool {
	if depth > 4 {
		return false
	}
	for i := 0; i < st.NumFields(); i++ {
		ft := st.Field(i).Type()
		if n := namedOf(ft); n != nil && n.Obj().Pkg() != nil && n.Obj().Pkg().Path() == "sync" {
			return true
		}
		if inner, ok := ft.Underlying().(*types.Struct); ok && structHasMutex(inner, depth+1) {
			return true
		}
	}
	return false
}

func c08Lockless(rc *RuleCtx) {
	for _, pk := range []string{"memfs", "orefafs", "memidm"} {
		p := rc.C.pkg(pk)
		if p == nil {
			rc.anchor(pk)
			continue
		}
		// structs without a mutex that hold maps
		lockless := map[*types.Named]bool{}
		sc := p.Types.Scope()
		for _, nmn := range sc.Names() {
			tn, ok := sc.Lookup(nmn).(*types.TypeName)
			if !ok {
				continue
			}
			named, ok := tn.Type().(*types.Named)
			if !ok {
				continue
			}
			st, ok := named.Underlying().(*types.Struct)
			if !ok {
				continue
			}
			hasMu, hasMap := structHasMutex(st, 0), false
			for i := 0; i < st.NumFields(); i++ {
				if _, isMap := st.Field(i).Type().Underlying().(*types.Map); isMap {
					hasMap = true
				}
			}
			if hasMap && !hasMu {
				lockless[named] = true
			}
		}
		if len(lockless) == 0 {
			continue
		}
		fieldOfLockless := func(m ssa.Value) (string, bool) {
			ld, ok := m.(*ssa.UnOp)
			if !ok || ld.Op != token.MUL {
				return "", false
			}
			fa, ok := ld.X.(*ssa.FieldAddr)
			if !ok {
				return "", false
			}
			n := namedOf(derefType(fa.X.Type()))
			if n == nil || !lockless[n] {
				return "", false
			}
			return n.Obj().Name() + "." + fieldName(fa.X.Type(), fa.Field), true
		}
		seen := map[string]bool{}
		for _, f := range rc.C.srcFuncs(pk) {
			if rc.C.inlinedAway(f) || f.Synthetic != "" {
				continue
			}
			eachInstr(f, func(in ssa.Instruction) {
				var m ssa.Value
				switch x := in.(type) {
				case *ssa.Store:
					// the map itself replaced: the copies of the struct (views) keep the old one
					fa, ok := x.Addr.(*ssa.FieldAddr)
					if !ok || f.Signature.Recv() == nil {
						return
					}
					if _, isMap := x.Val.Type().Underlying().(*types.Map); !isMap {
						return
					}
					n := namedOf(derefType(fa.X.Type()))
					if n == nil || !lockless[n] || objKeyOf(fa).fresh {
						return
					}
					cons := funcName(f) + " replaces " + n.Obj().Name() + "." + fieldName(fa.X.Type(), fa.Field)
					if !seen[cons] {
						seen[cons] = true
						rc.bad(cons, in.Pos(), "the map held in the struct is replaced by another one after construction: every copy of the struct made before (the views made by Sub) keeps the old map, so the volume table is no longer shared - and the store races with the readers as a write into the map does")
					}
					return
				case *ssa.MapUpdate:
					m = x.Map
				case *ssa.Call:
					if b, ok := x.Call.Value.(*ssa.Builtin); ok && (b.Name() == "delete" || b.Name() == "clear") && len(x.Call.Args) > 0 {
						m = x.Call.Args[0]
					}
				}
				if m == nil {
					return
				}
				fld, ok := fieldOfLockless(m)
				if !ok {
					return
				}
				cons := funcName(f) + " writes " + fld
				if seen[cons] {
					return
				}
				seen[cons] = true
				if f.Signature.Recv() == nil {
					rc.good(cons, in.Pos(), "written while the object is built")
				} else {
					rc.bad(cons, in.Pos(), "the map is written after construction and the struct has no lock: a call that reads it in another goroutine (every path walk, for the volume table) races with this write")
				}
			})
		}
	}
}

func init() {
	register(&Rule{ID: "C15.kind", Floor: 6,
		Text: "the identity manager hands out groups as groups and users as users: every non-nil value a function of memidm returns as avfs.GroupReader is a *MemGroup and every one it returns as avfs.UserReader a *MemUser (a *MemUser also has Gid() and Name(), so it compiles as a group: AdminGroup() answering the administrator *user* names a group that was never registered as soon as the two names differ, as they do on a Windows-typed manager)",
		Run:  c15Kind})
}

func c15Kind(rc *RuleCtx) {
	want := map[string]string{"GroupReader": "MemGroup", "UserReader": "MemUser"}
	for _, f := range rc.C.srcFuncs("memidm") {
		if rc.C.inlinedAway(f) || f.Synthetic != "" {
			continue
		}
		res := f.Signature.Results()
		for i := 0; i < res.Len(); i++ {
			n := namedOf(res.At(i).Type())
			if n == nil || want[n.Obj().Name()] == "" {
				continue
			}
			cons := fmt.Sprintf("%s result#%d is a %s", funcName(f), i, want[n.Obj().Name()])
			cnt := 0
			var badAt token.Pos
			got := ""
			for _, r := range returnsOf(f) {
				if i >= len(r.Results) {
					continue
				}
				v := returnOperandOr(r, i)
				for _, o := range resolveRaw(v) {
					for _, leaf := range phiLeaves(o, 0) {
						mi, ok := leaf.(*ssa.MakeInterface)
						if !ok {
							continue
						}
						cnt++
						tn := namedOf(derefType(mi.X.Type()))
						if (tn == nil || tn.Obj().Name() != want[n.Obj().Name()]) && badAt == token.NoPos {
							badAt = r.Pos()
							got = typeStr(mi.X.Type())
						}
					}
				}
			}
			switch {
			case badAt != token.NoPos:
				rc.bad(cons, badAt, "hands out a "+got+" as "+n.Obj().Name()+": the object is not the one registered under that id and name, so a lookup by its name or id disagrees with it")
			case cnt > 0:
				rc.good(cons, f.Pos(), fmt.Sprintf("%d returned values of the right kind", cnt))
			}
		}
	}
}

// phiLeaves: the values a (possibly merged) value can be.
func phiLeaves(v ssa.Value, depth int) []ssa.Value {
	if ph, ok := v.(*ssa.Phi); ok && depth < 6 {
		var out []ssa.Value
		for _, e := range ph.Edges {
			if e != ssa.Value(ph) {
				out = append(out, phiLeaves(e, depth+1)...)
			}
		}
		return out
	}
	return []ssa.Value{v}
}

func init() {
	register(&Rule{ID: "C10.positional", Floor: 40, Also: []string{"C09"},
		AlsoOnly: map[string][]string{"C09": {"rofs."}}, AlsoFloor: map[string]int{"C09": 15},
		Text: "a method of BasePathFS / BasePathFile / RoFS / RoFile that forwards to the same-named method of the base hands its own parameters over in their own positions: a parameter passed on unchanged sits at the index it has in the method's signature (two parameters of one type - atime and mtime, uid and gid, offset and whence - cannot be swapped without the compiler noticing)",
		Run:  c10Positional})
}

func c10Positional(rc *RuleCtx) {
	for _, pk := range []string{"basepathfs", "rofs"} {
		for _, f := range rc.C.srcFuncs(pk) {
			if rc.C.inlinedAway(f) || f.Synthetic != "" || f.Signature.Recv() == nil || !isEntryPoint(f) {
				continue
			}
			n := 0
			var badAt token.Pos
			what := ""
			eachCall(f, func(ci ssa.CallInstruction) {
				cc := ci.Common()
				if !cc.IsInvoke() || cc.Method.Name() != f.Name() {
					return
				}
				for i, a := range cc.Args {
					p, ok := strip(a).(*ssa.Parameter)
					if !ok {
						continue
					}
					for j, fp := range f.Params {
						if fp == p && j >= 1 {
							n++
							if j-1 != i && badAt == token.NoPos {
								badAt = ci.Pos()
								what = fmt.Sprintf("parameter %s (position %d) is passed at position %d", p.Name(), j, i+1)
							}
						}
					}
				}
			})
			if n == 0 {
				continue
			}
			cons := funcName(f) + " positional forward"
			if badAt != token.NoPos {
				rc.bad(cons, badAt, what+" of the base's "+f.Name()+": the base receives the arguments in another order than the caller gave them")
			} else {
				rc.good(cons, f.Pos(), fmt.Sprintf("%d parameters forwarded at their own positions", n))
			}
		}
	}
}

func init() {
	register(&Rule{ID: "C11.subpure", Floor: 3, Also: []string{"C12"},
		AlsoOnly: map[string][]string{"C12": {"failfs."}}, AlsoFloor: map[string]int{"C12": 1},
		Text: "making a view changes nothing in the file system it is made from: no Sub method of the library (MemFS, MemIOFS and the wrappers that forward Sub) stores through its receiver - a wrapper that plugs the base's view into itself instead of into the copy it returns re-roots the parent at the sub-directory and hands out a 'view' of the whole tree",
		Run:  c11SubPure})
}

func c11SubPure(rc *RuleCtx) {
	for _, pk := range []string{"memfs", "orefafs", "rofs", "basepathfs", "failfs"} {
		for _, f := range rc.C.srcFuncs(pk) {
			if f.Name() != "Sub" || f.Signature.Recv() == nil || len(f.Params) == 0 || len(f.Blocks) == 0 {
				continue
			}
			recv := ssa.Value(f.Params[0])
			cons := funcName(f) + " leaves its receiver alone"
			var badAt token.Pos
			eachInstr(f, func(in ssa.Instruction) {
				st, ok := in.(*ssa.Store)
				if !ok || badAt != token.NoPos {
					return
				}
				if _, isField := st.Addr.(*ssa.FieldAddr); !isField {
					return
				}
				if rootAlloc(st.Addr) == recv {
					badAt = st.Pos()
				}
			})
			if badAt != token.NoPos {
				rc.bad(cons, badAt, "Sub stores into a field of the file system it was called on: the parent is changed by making a view (re-rooted, or given the view's state), and what Sub returns still refers to the unchanged copy")
			} else {
				rc.good(cons, f.Pos(), "no store through the receiver")
			}
		}
	}
}

func init() {
	register(&Rule{ID: "C05.volume", Floor: 1, Also: []string{"C17"},
		Text: "MemFS forgets a volume (an entry of the volume table is deleted) only after the recursive remover has released everything below its root on that path: a volume dropped with its content intact leaves every file that has another hard link on a surviving volume with the links of the names that vanished",
		Run:  c05Volume})
}

func c05Volume(rc *RuleCtx) {
	n := 0
	for _, f := range rc.C.srcFuncs("memfs") {
		if rc.C.inlinedAway(f) || f.Synthetic != "" {
			continue
		}
		eachInstr(f, func(in ssa.Instruction) {
			c, ok := in.(*ssa.Call)
			if !ok {
				return
			}
			b, ok := c.Call.Value.(*ssa.Builtin)
			if !ok || b.Name() != "delete" || len(c.Call.Args) == 0 {
				return
			}
			ld, ok := c.Call.Args[0].(*ssa.UnOp)
			if !ok {
				return
			}
			fa, ok := ld.X.(*ssa.FieldAddr)
			if !ok || fieldName(fa.X.Type(), fa.Field) != "volumes" {
				return
			}
			n++
			cons := funcName(f) + " releases the volume's content"
			released := false
			eachCall(f, func(ci ssa.CallInstruction) {
				if fn := calleeFunc(ci); fn != nil && nm(fn) == "removeAll" && domInstr(ci, in) {
					released = true
				}
			})
			if released {
				rc.good(cons, in.Pos(), "the recursive remover runs on every path to the deletion of the table entry")
			} else {
				rc.bad(cons, in.Pos(), "the entry of the volume table is deleted on a path on which the recursive remover was not called: the nodes below the volume's root keep their link counts although their names are gone")
			}
		})
	}
	if n == 0 {
		rc.anchor("memfs: delete(vfs.volumes, ..)")
	}
}

func init() {
	register(&Rule{ID: "C17.bothseps", Floor: 3, Also: []string{"C01"}, AlsoFloor: map[string]int{"C01": 3},
		Text: "the generic helpers of package avfs (outside the adapted copies of path/filepath and the path iterator, which work on cleaned paths) never look for THE separator in a string a caller supplied: the result of PathSeparator() is used to build paths, not handed to a search function of package strings (IndexByte, Contains, Split ...) - a Windows-typed file system accepts both separators, which is what IsPathSeparator decides byte by byte; a search for the one separator lets the other through (a temporary-file pattern with '/' is then accepted and escapes the directory, where the Linux-typed twin refuses it)",
		Run:  c17BothSeps})
}

func c17BothSeps(rc *RuleCtx) {
	searchFn := func(name string) bool {
		for _, p := range []string{"Index", "LastIndex", "Contains", "Count", "Split", "Cut", "HasPrefix", "HasSuffix", "Trim", "Fields"} {
			if strings.HasPrefix(name, p) {
				return true
			}
		}
		return false
	}
	for _, f := range rc.C.srcFuncs("avfs") {
		if rc.C.inlinedAway(f) || f.Synthetic != "" {
			continue
		}
		fn := rc.C.Fset.Position(f.Pos()).Filename
		base := fn[strings.LastIndex(fn, "/")+1:]
		if base == "vfs_ostype_on.go" || base == "vfs_ostype_off.go" || base == "pathiterator.go" {
			continue
		}
		n := 0
		var badAt token.Pos
		what := ""
		eachCall(f, func(ci ssa.CallInstruction) {
			c := calleeFunc(ci)
			if c == nil || c.Name() != "PathSeparator" {
				return
			}
			v, ok := ci.(*ssa.Call)
			if !ok {
				return
			}
			n++
			// uses of the separator, through conversions
			var uses func(x ssa.Value, d int)
			uses = func(x ssa.Value, d int) {
				if d > 4 || x.Referrers() == nil {
					return
				}
				for _, r := range *x.Referrers() {
					switch u := r.(type) {
					case *ssa.Convert:
						uses(u, d+1)
					case *ssa.ChangeType:
						uses(u, d+1)
					case *ssa.Call:
						if sc := u.Call.StaticCallee(); sc != nil && sc.Pkg != nil && (sc.Pkg.Pkg.Path() == "strings" || sc.Pkg.Pkg.Path() == "bytes") && searchFn(sc.Name()) && badAt == token.NoPos {
							badAt = u.Pos()
							what = sc.Pkg.Pkg.Name() + "." + sc.Name()
						}
					}
				}
			}
			uses(v, 0)
		})
		if n == 0 {
			continue
		}
		cons := funcName(f) + " separator builds paths"
		if badAt != token.NoPos {
			rc.bad(cons, badAt, "the result of PathSeparator() is handed to "+what+": on a Windows-typed file system the other separator ('/') passes the test, where IsPathSeparator refuses both")
		} else {
			rc.good(cons, f.Pos(), fmt.Sprintf("%d uses of PathSeparator(), none in a search", n))
		}
	}
}

// ---- round 10 ----

func init() {
	register(&Rule{ID: "C02.advance", Floor: 2,
		Text: "Read moves the offset of the handle by what it delivered: in the Read methods of MemFile and OrefaFile the value added to the offset field is the number of bytes copied (the result of copy), never the length of the caller's buffer - a short read at the end of the file would leave the offset beyond the size, and the next Write a gap of zeros that os.File does not make",
		Run:  c02Advance})
	register(&Rule{ID: "C10.errpath", Floor: 1,
		Text: "fromErrorPath hands a path back untranslated only when it does not start with the base path: every return of its argument as it came lies on the branch where HasPrefix(path, basePath) answered false - a further test (on the length, say) that also skips the translation lets the base path itself, or a path it mis-measures, through to the caller, which then sees where the base directory lives",
		Run:  c10ErrPath})
	register(&Rule{ID: "C12.readthrough", Floor: 1,
		Text: "the generic ReadFile, which FailFS runs over itself, answers without error only after a Read of the file answered: every return that may carry a nil error is dominated by a call of File.Read - a short cut for a file whose Stat says it is empty skips the primitive, so a failure planned for it never fires and its invocation count drifts",
		Run:  c12ReadThrough})
	register(&Rule{ID: "C14.type", Floor: 2,
		Text: "DirEntry.Type() of the in-memory file systems is the type bits of the mode and nothing else: every Type method of memfs / orefafs / avfs returning fs.FileMode returns `mode & fs.ModeType` or FileMode.Type() (os.ReadDir and WalkDir hand out entries whose Type() carries no permission, setuid, setgid or sticky bit)",
		Run:  c14Type})
	register(&Rule{ID: "C17.missing", Floor: 1, Also: []string{"C01"}, AlsoFloor: map[string]int{"C01": 1},
		Text: "MemFS asks whether a walk stopped on something missing only through its not-exist predicate: outside that predicate no error is compared with the NoSuchFile or NoSuchDir entry of the error table - the two are one value on POSIX and two on Windows, so a comparison with one of them behaves on a Linux-typed file system and misclassifies the other kind of 'missing' on a Windows-typed one",
		Run:  c17Missing})
}

func c02Advance(rc *RuleCtx) {
	for _, t := range []struct{ pk, typ string }{{"memfs", "MemFile"}, {"orefafs", "OrefaFile"}} {
		f := rc.C.methodsOf(t.pk, t.typ)["Read"]
		cons := fmt.Sprintf("%s.(*%s).Read advances by the bytes copied", t.pk, t.typ)
		if f == nil || len(f.Params) < 2 {
			rc.anchor(cons)
			continue
		}
		buf := ssa.Value(f.Params[1])
		n := 0
		var badAt token.Pos
		eachInstr(f, func(in ssa.Instruction) {
			st, ok := in.(*ssa.Store)
			if !ok {
				return
			}
			fa, ok := st.Addr.(*ssa.FieldAddr)
			if !ok || fieldName(fa.X.Type(), fa.Field) != "at" {
				return
			}
			b, ok := strip(st.Val).(*ssa.BinOp)
			if !ok || b.Op != token.ADD {
				return
			}
			n++
			for _, side := range []ssa.Value{b.X, b.Y} {
				for _, o := range originsOf(side) {
					if c, ok := o.(*ssa.Call); ok {
						if bi, ok := c.Call.Value.(*ssa.Builtin); ok && bi.Name() == "len" && len(c.Call.Args) == 1 && strip(c.Call.Args[0]) == buf && badAt == token.NoPos {
							badAt = st.Pos()
						}
					}
				}
			}
		})
		switch {
		case badAt != token.NoPos:
			rc.bad(cons, badAt, "the offset is advanced by len of the caller's buffer: after a short read (or a read at the end of the file) the offset lies beyond what was delivered")
		case n == 0:
			rc.bad(cons, f.Pos(), "no advance of the offset was recognised in Read")
		default:
			rc.good(cons, f.Pos(), "the offset moves by the count of the copy")
		}
	}
}

func c10ErrPath(rc *RuleCtx) {
	f := rc.C.method("basepathfs", "BasePathFS", "fromErrorPath")
	cons := "basepathfs.(*BasePathFS).fromErrorPath untranslated only off the base path"
	if f == nil || len(f.Params) < 2 {
		rc.anchor(cons)
		return
	}
	par := ssa.Value(f.Params[1])
	n, bad := 0, 0
	var at token.Pos
	for _, r := range returnsOf(f) {
		v := returnOperandOr(r, 0)
		same := false
		for _, o := range originsOf(v) {
			if o == par {
				same = true
			}
		}
		if !same {
			continue
		}
		n++
		off := false
		for _, fa := range factsAt(r.Block()) {
			c, truth := normCond(fa.Cond, fa.Truth)
			if call, ok := c.(*ssa.Call); ok && !truth {
				if fn := calleeFunc(call); fn != nil && fn.Name() == "HasPrefix" && len(call.Call.Args) == 2 && strip(call.Call.Args[0]) == par && isFieldLoad(resolve1(call.Call.Args[1]), "basePath") {
					off = true
				}
			}
		}
		if !off {
			bad++
			if at == token.NoPos {
				at = r.Pos()
			}
		}
	}
	switch {
	case n == 0:
		rc.bad(cons, f.Pos(), "no return of the argument as it came was recognised")
	case bad > 0:
		rc.bad(cons, at, "the path is handed back untranslated on a way that has not established HasPrefix(path, basePath) == false: a path that does start with the base path (the base path itself, for a length test with <=) reaches the caller as the base file system spelled it")
	default:
		rc.good(cons, f.Pos(), fmt.Sprintf("%d untranslated returns, each off the base path", n))
	}
}

func c12ReadThrough(rc *RuleCtx) {
	f := rc.C.fn("avfs", "ReadFile")
	cons := "avfs.ReadFile succeeds only after a Read"
	if f == nil {
		rc.anchor(cons)
		return
	}
	var reads []ssa.Instruction
	eachCall(f, func(ci ssa.CallInstruction) {
		if fn := calleeFunc(ci); fn != nil && fn.Name() == "Read" && ci.Common().IsInvoke() {
			reads = append(reads, ci)
		}
	})
	if len(reads) == 0 {
		rc.bad(cons, f.Pos(), "ReadFile makes no Read")
		return
	}
	ei := errResultIndex(f.Signature)
	var at token.Pos
	n := 0
	for _, r := range returnsOf(f) {
		v := returnOperandOr(r, ei)
		if errNonNil(rc.C, v, factsAt(r.Block()), 0) {
			continue
		}
		n++
		dom := false
		for _, rd := range reads {
			if domInstr(rd, r) {
				dom = true
			}
		}
		if !dom && at == token.NoPos {
			at = r.Pos()
		}
	}
	if at != token.NoPos {
		rc.bad(cons, at, "a return that may carry a nil error is reached without a Read of the file: the primitive is skipped for some files, so a failure planned for it is not reported")
	} else {
		rc.good(cons, f.Pos(), fmt.Sprintf("%d possibly successful return(s), each after a Read", n))
	}
}

func c14Type(rc *RuleCtx) {
	var typeMask int64 = -1
	if fsPkg := rc.C.Prog.ImportedPackage("io/fs"); fsPkg != nil {
		if k, ok := fsPkg.Pkg.Scope().Lookup("ModeType").(*types.Const); ok {
			if u, exact := constant.Uint64Val(k.Val()); exact {
				typeMask = int64(u)
			}
		}
	}
	if typeMask < 0 {
		rc.anchor("io/fs.ModeType")
		return
	}
	for _, pk := range []string{"memfs", "orefafs", "avfs"} {
		for _, f := range rc.C.srcFuncs(pk) {
			if f.Name() != "Type" || f.Signature.Recv() == nil || f.Signature.Results().Len() != 1 || f.Signature.Params().Len() != 0 {
				continue
			}
			if n := namedOf(f.Signature.Results().At(0).Type()); n == nil || n.Obj().Name() != "FileMode" {
				continue
			}
			cons := funcName(f) + " type bits only"
			ok := true
			for _, r := range returnsOf(f) {
				for _, o := range originsOf(returnOperandOr(r, 0)) {
					switch x := o.(type) {
					case *ssa.BinOp:
						k, isC := constInt(x.Y)
						if x.Op != token.AND || !isC || uint32(k) != uint32(typeMask) {
							ok = false
						}
					case *ssa.Call:
						if fn := calleeFunc(x); fn == nil || fn.Name() != "Type" {
							ok = false
						}
					default:
						ok = false
					}
				}
			}
			if ok {
				rc.good(cons, f.Pos(), "mode & fs.ModeType (or FileMode.Type())")
			} else {
				rc.bad(cons, f.Pos(), "Type() does not return the mode masked with fs.ModeType: permission, setuid, setgid or sticky bits show in the type of a directory entry, where os.ReadDir and WalkDir report the type bits only")
			}
		}
	}
}

func c17Missing(rc *RuleCtx) {
	pred := rc.C.method("memfs", "MemFS", "isNotExist")
	if pred == nil {
		rc.anchor("memfs.(*MemFS).isNotExist")
		return
	}
	for _, f := range rc.C.srcFuncs("memfs") {
		if rc.C.inlinedAway(f) || f.Synthetic != "" || f == pred {
			continue
		}
		var at token.Pos
		n := 0
		eachInstr(f, func(in ssa.Instruction) {
			b, ok := in.(*ssa.BinOp)
			if !ok || (b.Op != token.EQL && b.Op != token.NEQ) || !isErrorType(b.X.Type()) {
				return
			}
			n++
			for _, side := range []ssa.Value{b.X, b.Y} {
				if ld, ok := strip(side).(*ssa.UnOp); ok && ld.Op == token.MUL {
					if fa, ok := ld.X.(*ssa.FieldAddr); ok {
						if nm := fieldName(fa.X.Type(), fa.Field); (nm == "NoSuchFile" || nm == "NoSuchDir") && at == token.NoPos {
							at = b.Pos()
						}
					}
				}
			}
		})
		if n == 0 {
			continue
		}
		cons := funcName(f) + " asks the predicate for 'missing'"
		if at != token.NoPos {
			rc.bad(cons, at, "an error is compared with the NoSuchFile / NoSuchDir entry of the error table directly: on a Windows-typed file system the two are different values, so the other kind of 'missing' (a missing parent directory or volume) takes the other branch")
		} else {
			rc.good(cons, f.Pos(), fmt.Sprintf("%d error comparisons, none with NoSuchFile / NoSuchDir", n))
		}
	}
}
