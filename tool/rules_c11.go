package main

import (
	"fmt"
	"go/token"
	"go/types"
	"sort"
	"strings"

	"golang.org/x/tools/go/ssa"
)

// C11 — a Sub view shows exactly its subtree and keeps its own user, umask and cwd.
// C08.atomic — fields accessed through sync/atomic are accessed only so.

func init() {
	notDecided["C11"] = []string{
		"behavioural equality of the view with prefixed paths on the parent, call by call",
		"that relative paths are resolved against a working directory set through the view (the view starts with a copy of the parent's)",
		"symbolic links inside the view whose absolute target names something outside it (they restart at the view's root)",
	}
	register(&Rule{ID: "C11.copy", Also: []string{"C09"}, Floor: 2,
		Text: "every Sub method of package memfs returns, on success, a pointer to a fresh allocation initialised by a whole-struct copy of the receiver followed by a store of the found *dirNode into rootNode; it never returns the receiver and never writes to it (no store through the receiver, no call of a receiver-mutating method on it)",
		Run:  c11Copy})
	register(&Rule{ID: "C11.value", Floor: 4, Also: []string{"C03", "C05", "C08"},
		AlsoOnly:  map[string][]string{"C03": {"avfs.UMaskFn"}, "C05": {"id-counter shared"}, "C08": {"id-counter shared"}},
		AlsoFloor: map[string]int{"C03": 1, "C05": 1, "C08": 1},
		Text:      "the holders of per-view state (the embedded types that declare SetUser, SetUMask, SetCurDir) are embedded in MemFS by value and contain no pointer, map, slice or channel (an interface holding an immutable user is allowed), so the struct copy made by Sub separates them; conversely the file-id counter is reached through a pointer, so all views draw ids from one sequence",
		Run:       c11Value})
	register(&Rule{ID: "C11.confine", Floor: 4,
		Text: "upward traversal is impossible by construction: node types hold no reference to a directory other than the children map, and in the path walk the directory cursor is only ever assigned the view's rootNode or a child of the current cursor; absolute link targets restart at the cursor's starting root",
		Run:  c11Confine})
	register(&Rule{ID: "C08.atomic", Floor: 2, Also: []string{"C05", "C06"},
		Text: "a field (or the target of a pointer field) that is accessed through sync/atomic anywhere - or is listed as shared without a lock: the id counter shared by all views, the umask - is accessed through sync/atomic everywhere (a plain increment of the id counter hands the same id to two files created in different directories: SameFile then confuses them)",
		Run:  c08Atomic})
}

// writesReceiver: the method stores through its receiver (directly).
func writesReceiver(f *ssa.Function) bool {
	if f == nil || len(f.Blocks) == 0 || f.Signature.Recv() == nil || len(f.Params) == 0 {
		return false
	}
	w := false
	eachInstr(f, func(in ssa.Instruction) {
		if s, ok := in.(*ssa.Store); ok {
			if rootAlloc(s.Addr) == ssa.Value(f.Params[0]) {
				w = true
			}
		}
	})
	return w
}

func c11Copy(rc *RuleCtx) {
	n := 0
	for _, f := range rc.C.srcFuncs("memfs") {
		if f.Name() != "Sub" || f.Signature.Recv() == nil {
			continue
		}
		n++
		cons := funcName(f) + " view-copy"
		recv := f.Params[0]
		bad := ""
		okRet := 0
		for _, r := range returnsOf(f) {
			v := strip(r.Results[0])
			if isNilConst(v) {
				continue
			}
			al, isAlloc := v.(*ssa.Alloc)
			if !isAlloc || !al.Heap {
				if rootAlloc(v) == ssa.Value(recv) || v == ssa.Value(recv) {
					bad = "Sub returns its receiver: the view and the parent are the same object, so user, umask and working directory are shared"
				} else {
					bad = "Sub returns " + accessPath(v) + ", not a fresh copy of the receiver"
				}
				break
			}
			// whole-struct copy *al = *recv, and rootNode store
			copied, rooted := false, false
			for _, u := range referrersOf(al) {
				switch x := u.(type) {
				case *ssa.Store:
					if x.Addr == ssa.Value(al) {
						if ld, ok := x.Val.(*ssa.UnOp); ok && ld.Op == token.MUL && rootAlloc(ld.X) == ssa.Value(recv) {
							copied = true
						}
					}
				case *ssa.FieldAddr:
					if fieldName(x.X.Type(), x.Field) == "rootNode" || (fieldName(x.X.Type(), x.Field) == "MemFS") {
						// MemIOFS embeds MemFS: al.MemFS.rootNode
						targets := []*ssa.FieldAddr{x}
						for _, u2 := range referrersOf(x) {
							if fa2, ok := u2.(*ssa.FieldAddr); ok {
								targets = append(targets, fa2)
							}
						}
						for _, t := range targets {
							if fieldName(t.X.Type(), t.Field) != "rootNode" {
								continue
							}
							for _, st := range storesTo(t) {
								k := objKeyOf(st.Val)
								if e, ok := stripToExtract(k.root); ok && e.Index == 1 {
									if c, _ := e.Tuple.(*ssa.Call); c != nil && calleeFunc(c) != nil && nm(calleeFunc(c)) == "searchNode" {
										rooted = true
									}
								}
							}
						}
					}
				}
			}
			if !copied {
				bad = "the returned object is not initialised by a whole-struct copy of the receiver"
				break
			}
			if !rooted {
				bad = "the root of the returned view is not the directory found by the walk for the dir argument"
				break
			}
			okRet++
		}
		if bad == "" && okRet == 0 {
			bad = "no successful return found"
		}
		// receiver is read-only
		if bad == "" {
			eachInstr(f, func(in ssa.Instruction) {
				switch x := in.(type) {
				case *ssa.Store:
					if rootAlloc(x.Addr) == ssa.Value(recv) {
						bad = "Sub writes a field of its receiver (" + accessPath(x.Addr) + "): creating a view changes the parent"
					}
				case *ssa.MapUpdate:
					// a map held by the struct is shared by the copy: an update through the copy is an update of the parent
					for _, o := range originsOf(x.Map) {
						if ld, ok := o.(*ssa.UnOp); ok && ld.Op == token.MUL {
							if fa, ok := ld.X.(*ssa.FieldAddr); ok {
								bad = "Sub updates the map " + fieldName(fa.X.Type(), fa.Field) + ", which the struct copy shares with the parent and every other view: creating a view changes the parent's tree"
							}
						}
					}
				case ssa.CallInstruction:
					if sc := x.Common().StaticCallee(); sc != nil && len(x.Common().Args) > 0 && rootAlloc(x.Common().Args[0]) == ssa.Value(recv) && writesReceiver(sc) {
						bad = "Sub calls " + sc.Name() + " on its receiver, which changes the receiver's own state: creating a view changes the parent (or the view it is created from)"
					}
				}
			})
		}
		if bad != "" {
			rc.bad(cons, f.Pos(), bad)
		} else {
			rc.good(cons, f.Pos(), "fresh allocation, whole-struct copy of the receiver, rootNode replaced; receiver untouched")
		}
	}
	if n == 0 {
		rc.anchor("memfs Sub methods")
	}
}

func hasSharedRef(t types.Type, depth int) (string, bool) {
	if depth > 4 {
		return "", false
	}
	switch u := t.Underlying().(type) {
	case *types.Pointer:
		return "pointer", true
	case *types.Map:
		return "map", true
	case *types.Slice:
		return "slice", true
	case *types.Chan:
		return "channel", true
	case *types.Struct:
		for i := 0; i < u.NumFields(); i++ {
			if k, bad := hasSharedRef(u.Field(i).Type(), depth+1); bad {
				return u.Field(i).Name() + ":" + k, true
			}
		}
	}
	return "", false
}

func c11Value(rc *RuleCtx) {
	mem := rc.C.named("memfs", "MemFS")
	if mem == nil {
		rc.anchor("memfs.MemFS")
		return
	}
	st := mem.Underlying().(*types.Struct)
	setters := map[string]bool{"SetUser": true, "SetUMask": true, "SetCurDir": true}
	found := map[string]bool{}
	for i := 0; i < st.NumFields(); i++ {
		f := st.Field(i)
		if !f.Embedded() {
			continue
		}
		n := namedOf(f.Type())
		if n == nil {
			continue
		}
		var has []string
		ms := types.NewMethodSet(types.NewPointer(n))
		for j := 0; j < ms.Len(); j++ {
			if setters[ms.At(j).Obj().Name()] {
				has = append(has, ms.At(j).Obj().Name())
			}
		}
		if len(has) == 0 {
			continue
		}
		sort.Strings(has)
		for _, h := range has {
			found[h] = true
		}
		cons := "memfs.MemFS embeds " + typeStr(f.Type()) + " (" + strings.Join(has, ",") + ")"
		if _, isPtr := f.Type().(*types.Pointer); isPtr {
			rc.bad(cons, f.Pos(), "the per-view state holder is embedded by pointer: the struct copy made by Sub shares it, so "+strings.Join(has, "/")+" on a view changes the parent and its siblings")
			continue
		}
		if k, bad := hasSharedRef(f.Type(), 0); bad {
			rc.bad(cons, f.Pos(), "the per-view state holder contains a "+k+": the struct copy made by Sub shares it between views")
			continue
		}
		rc.good(cons, f.Pos(), "embedded by value, no pointer/map/slice/channel inside: separated by Sub's struct copy")
	}
	for s := range setters {
		if !found[s] {
			rc.bad("memfs.MemFS provides "+s, mem.Obj().Pos(), "no embedded state holder declares "+s)
		}
	}
	// id counter: the address given to the atomic increment that produces fileNode.id must be a loaded pointer
	cf := rc.C.method("memfs", "MemFS", "createFile")
	if cf == nil {
		rc.anchor("memfs.(*MemFS).createFile")
		return
	}
	cons := "memfs.(*MemFS).createFile id-counter shared"
	done := false
	eachCall(cf, func(c ssa.CallInstruction) {
		fn := calleeFunc(c)
		if fn == nil || fn.Pkg() == nil || fn.Pkg().Path() != "sync/atomic" || done {
			return
		}
		done = true
		a := c.Common().Args[0]
		for {
			if ct, ok := a.(*ssa.ChangeType); ok {
				a = ct.X
				continue
			}
			if cv, ok := a.(*ssa.Convert); ok {
				a = cv.X
				continue
			}
			break
		}
		if _, isFA := a.(*ssa.FieldAddr); isFA {
			rc.bad(cons, c.Pos(), "the id counter is a field stored by value in the file-system struct: Sub's struct copy gives every view its own counter, so two distinct files get the same id and SameFile confuses them")
			return
		}
		if ld, ok := a.(*ssa.UnOp); ok && ld.Op == token.MUL {
			if _, isFA := ld.X.(*ssa.FieldAddr); isFA {
				rc.good(cons, c.Pos(), "the counter is reached through a pointer field: all views share one sequence")
				return
			}
		}
		rc.bad(cons, c.Pos(), "cannot identify the id counter as a shared pointer ("+accessPath(a)+")")
	})
	if !done {
		rc.bad(cons, cf.Pos(), "createFile does not draw the file id from an atomic counter")
	}
}

func c11Confine(rc *RuleCtx) {
	// (a) no reference to a directory other than children
	for _, tn := range []string{"baseNode", "dirNode", "fileNode", "symlinkNode"} {
		n := rc.C.named("memfs", tn)
		cons := "memfs." + tn + " no-parent-reference"
		if n == nil {
			rc.anchor("memfs." + tn)
			continue
		}
		st := n.Underlying().(*types.Struct)
		bad := ""
		for i := 0; i < st.NumFields(); i++ {
			f := st.Field(i)
			if fieldRole(n, i, f.Name()) == "children" || f.Embedded() {
				continue
			}
			if refersToNode(f.Type(), 0) {
				bad = "field " + f.Name() + " of type " + typeStr(f.Type()) + " can reference a directory: a path could leave the view through it"
			}
		}
		if bad != "" {
			rc.bad(cons, n.Obj().Pos(), bad)
		} else {
			rc.good(cons, n.Obj().Pos(), "only the children map references other nodes")
		}
	}
	// (b) cursor provenance in searchNode
	f := rc.C.method("memfs", "MemFS", "searchNode")
	if f == nil {
		rc.anchor("memfs.(*MemFS).searchNode")
		return
	}
	recv := f.Params[0]
	// the cursor: result #0 (*dirNode). It is a named result, possibly spilled to a cell.
	var cell *ssa.Alloc
	for _, r := range returnsOf(f) {
		if a, ok := cellOf(r.Results[0]).(*ssa.Alloc); ok {
			cell = a
		}
	}
	var sources []ssa.Value
	if cell != nil {
		for _, s := range storesTo(cell) {
			sources = append(sources, s.Val)
		}
	} else {
		for _, r := range returnsOf(f) {
			sources = append(sources, r.Results[0])
		}
	}
	seen := map[ssa.Value]bool{}
	n := 0
	var classify func(v ssa.Value, depth int) (string, bool)
	classify = func(v ssa.Value, depth int) (string, bool) {
		if depth > 8 {
			return "unresolved", false
		}
		v = strip(v)
		if isNilConst(v) {
			return "nil", true
		}
		switch x := v.(type) {
		case *ssa.Phi:
			for _, e := range x.Edges {
				if seen[e] {
					continue
				}
				seen[e] = true
				if how, ok := classify(e, depth+1); !ok {
					return how, false
				}
			}
			return "phi of accepted sources", true
		case *ssa.UnOp:
			if x.Op == token.MUL {
				if fa, ok := x.X.(*ssa.FieldAddr); ok && fieldName(fa.X.Type(), fa.Field) == "rootNode" && rootAlloc(fa.X) == ssa.Value(recv) {
					return "the view's rootNode", true
				}
				if al, ok := x.X.(*ssa.Alloc); ok {
					if al == cell {
						return "the cursor itself", true
					}
					for _, s := range storesTo(al) {
						if seen[s.Val] {
							continue
						}
						seen[s.Val] = true
						if how, ok := classify(s.Val, depth+1); !ok {
							return how, false
						}
					}
					return "local holding accepted sources", true
				}
			}
		case *ssa.TypeAssert:
			return classify(x.X, depth+1)
		case *ssa.Extract:
			return classify(x.Tuple, depth+1)
		case *ssa.Lookup:
			if ld, ok := x.X.(*ssa.UnOp); ok && ld.Op == token.MUL {
				if fa, ok := ld.X.(*ssa.FieldAddr); ok {
					switch fieldName(fa.X.Type(), fa.Field) {
					case "children":
						return "a child of the current cursor", true
					case "volumes":
						return "the cursor is seeded from vfs.volumes[...], a map that Sub's struct copy shares between all views: through a volume-qualified path a (Windows-typed) view reaches the root of the whole file system", false
					}
				}
			}
		}
		return "the cursor is assigned from " + accessPath(v) + ", which is neither the view's root nor a child of the cursor", false
	}
	done := map[string]bool{}
	for _, src := range sources {
		n++
		cons := fmt.Sprintf("%s cursor <- %s", funcName(f), prettyVal(src, 0))
		if done[cons] {
			continue
		}
		done[cons] = true
		seen = map[ssa.Value]bool{}
		how, ok := classify(src, 0)
		pos := f.Pos()
		if in, isI := src.(ssa.Instruction); isI && in.Pos().IsValid() {
			pos = in.Pos()
		}
		if ok {
			rc.good(cons, pos, how)
		} else {
			rc.bad(cons, pos, how)
		}
	}
}

func refersToNode(t types.Type, depth int) bool {
	if depth > 4 {
		return false
	}
	if n := namedOf(t); n != nil && n.Obj().Pkg() != nil && n.Obj().Pkg().Path() == longPath("memfs") {
		switch nm(n.Obj()) {
		case "dirNode", "node", "fileNode", "symlinkNode", "baseNode":
			if _, isPtr := t.(*types.Pointer); isPtr {
				return true
			}
			if _, isI := n.Underlying().(*types.Interface); isI {
				return true
			}
		}
	}
	switch u := t.Underlying().(type) {
	case *types.Map:
		return refersToNode(u.Elem(), depth+1)
	case *types.Slice:
		return refersToNode(u.Elem(), depth+1)
	case *types.Pointer:
		return refersToNode(u.Elem(), depth+1)
	}
	return false
}

func c08Atomic(rc *RuleCtx) {
	type fkey struct {
		owner *types.Named
		field string
		ptr   bool // the pointee of a pointer field
	}
	atomicFields := map[fkey]bool{}
	unwrap := func(a ssa.Value) ssa.Value {
		for {
			switch x := a.(type) {
			case *ssa.ChangeType:
				a = x.X
			case *ssa.Convert:
				a = x.X
			default:
				return a
			}
		}
	}
	pkgs := []string{"avfs", "memfs", "orefafs", "memidm"}
	var funcs []*ssa.Function
	for _, p := range pkgs {
		funcs = append(funcs, rc.C.srcFuncs(p)...)
	}
	isAtomicCall := func(c ssa.CallInstruction) bool {
		fn := calleeFunc(c)
		return fn != nil && fn.Pkg() != nil && fn.Pkg().Path() == "sync/atomic"
	}
	for _, f := range funcs {
		eachCall(f, func(c ssa.CallInstruction) {
			if !isAtomicCall(c) || len(c.Common().Args) == 0 {
				return
			}
			a := unwrap(c.Common().Args[0])
			if fa, ok := a.(*ssa.FieldAddr); ok {
				if n := namedOf(fa.X.Type()); n != nil {
					atomicFields[fkey{n, fieldName(fa.X.Type(), fa.Field), false}] = true
				}
			} else if ld, ok := a.(*ssa.UnOp); ok && ld.Op == token.MUL {
				if fa, ok := ld.X.(*ssa.FieldAddr); ok {
					if n := namedOf(fa.X.Type()); n != nil {
						atomicFields[fkey{n, fieldName(fa.X.Type(), fa.Field), true}] = true
					}
				}
			}
		})
	}
	// fields confirmed by reading to be shared between views / goroutines without a lock and therefore atomic: they stay
	// atomic even when a change removes the last sync/atomic call that revealed them
	for _, fr := range []struct {
		pkg, typ, field string
		ptr             bool
	}{{"memfs", "MemFS", "lastId", true}, {"orefafs", "OrefaFS", "lastId", true}, {"avfs", "UMaskFn", "umask", false}} {
		if n := rc.C.named(fr.pkg, fr.typ); n != nil {
			atomicFields[fkey{n, fr.field, fr.ptr}] = true
		} else {
			rc.anchor(fr.pkg + "." + fr.typ + " (type with the atomic field " + fr.field + ")")
		}
	}
	for _, f := range funcs {
		bads := map[string]token.Pos{}
		goods := map[string]token.Pos{}
		eachInstr(f, func(in ssa.Instruction) {
			fa, ok := in.(*ssa.FieldAddr)
			if !ok {
				return
			}
			n := namedOf(fa.X.Type())
			if n == nil {
				return
			}
			name := fieldName(fa.X.Type(), fa.Field)
			if atomicFields[fkey{n, name, false}] {
				label := typeKey(n) + "." + name
				fresh := objKeyOf(fa).fresh
				for _, u := range referrersOf(fa) {
					switch x := u.(type) {
					case *ssa.DebugRef:
					case *ssa.ChangeType, *ssa.Convert:
						for _, u2 := range referrersOf(x.(ssa.Value)) {
							if c, ok := u2.(ssa.CallInstruction); ok && isAtomicCall(c) {
								goods[label] = c.Pos()
							} else if _, isDbg := u2.(*ssa.DebugRef); !isDbg {
								bads[label] = u2.Pos()
							}
						}
					case ssa.CallInstruction:
						if isAtomicCall(x) {
							goods[label] = x.Pos()
						} else {
							bads[label] = x.Pos()
						}
					default:
						if fresh {
							goods[label] = u.Pos()
						} else {
							bads[label] = u.Pos()
						}
					}
				}
			}
			if atomicFields[fkey{n, name, true}] {
				label := typeKey(n) + "." + name + " (target)"
				for _, u := range referrersOf(fa) {
					ld, ok := u.(*ssa.UnOp)
					if !ok || ld.Op != token.MUL {
						continue
					}
					for _, u2 := range referrersOf(ld) {
						switch y := u2.(type) {
						case *ssa.DebugRef:
						case ssa.CallInstruction:
							if isAtomicCall(y) {
								goods[label] = y.Pos()
							}
						case *ssa.UnOp:
							if y.Op == token.MUL {
								bads[label] = y.Pos()
							}
						case *ssa.Store:
							if y.Addr == ssa.Value(ld) {
								bads[label] = y.Pos()
							}
						}
					}
				}
			}
		})
		for label, pos := range bads {
			rc.bad(funcName(f)+" "+label, pos, "the field is accessed through sync/atomic elsewhere but plainly here: the plain access races with the atomic ones")
			delete(goods, label)
		}
		for label, pos := range goods {
			rc.good(funcName(f)+" "+label, pos, "accessed through sync/atomic (or on a fresh object)")
		}
	}
}
