package main

import (
	"go/token"
	"strings"

	"golang.org/x/tools/go/ssa"
)

// C13.iter (also serves C04): structural clauses of avfs.PathIterator.

func init() {
	register(&Rule{ID: "C13.iter", Floor: 6, Also: []string{"C04", "C07", "C17"}, AlsoOnly: map[string][]string{"C07": {" cursor", " volume"}, "C17": {" volume"}}, AlsoFloor: map[string]int{"C07": 1, "C17": 1},
		Text: "PathIterator: Left, Part and Right slice the path at the same two cursors ([:start], [start:end], [end:]) so that they always reassemble it; Next moves start to end+1 and end to the next separator or the end of the path; ReplacePart assigns Join(path[:start], new, path[end:]) (Join(new, path[end:]) for an absolute replacement, after which the length of the volume name is computed again from the new path) and keeps the cursor only when the whole prefix path[:start] — compared with the same bound on both sides — is unchanged, otherwise it restarts",
		Run:  c13Iter})
}

func iterMethod(rc *RuleCtx, name string) *ssa.Function {
	n := rc.C.named("avfs", "PathIterator")
	if n == nil {
		return nil
	}
	for i := 0; i < n.NumMethods(); i++ {
		if n.Method(i).Name() == name {
			return rc.C.Prog.FuncValue(n.Method(i))
		}
	}
	return nil
}

func c13Iter(rc *RuleCtx) {
	want := map[string]string{"Left": "pi.path[:pi.start]", "Part": "pi.path[pi.start:pi.end]", "Right": "pi.path[pi.end:]"}
	for _, name := range []string{"Left", "Part", "Right"} {
		f := iterMethod(rc, name)
		cons := "avfs.(*PathIterator)." + name + " bounds"
		if f == nil || len(f.Blocks) == 0 {
			rc.anchor("avfs.(*PathIterator)." + name)
			continue
		}
		rets := returnsOf(f)
		if len(rets) == 1 && sym(rets[0].Results[0]) == want[name] {
			rc.good(cons, f.Pos(), want[name])
		} else {
			got := "?"
			if len(rets) > 0 {
				got = sym(rets[0].Results[0])
			}
			rc.bad(cons, f.Pos(), name+"() returns "+got+" instead of "+want[name]+": Left + Part + Right no longer reassemble the path")
		}
	}
	// Next
	if f := iterMethod(rc, "Next"); f == nil || len(f.Blocks) == 0 {
		rc.anchor("avfs.(*PathIterator).Next")
	} else {
		cons := "avfs.(*PathIterator).Next cursor"
		okStart, okEnd := false, 0
		clamped := false
		eachInstr(f, func(in ssa.Instruction) {
			st, ok := in.(*ssa.Store)
			if !ok {
				return
			}
			fa, ok := st.Addr.(*ssa.FieldAddr)
			if !ok {
				return
			}
			switch fieldName(fa.X.Type(), fa.Field) {
			case "start":
				switch sym(st.Val) {
				case "(pi.end + 1)":
					okStart = true
				case "len(pi.path)":
					// the clamp of the exhausted iterator: only under `start >= len(path)`
					clamped = false
					for _, fact := range factsAt(st.Block()) {
						c, truth := normCond(fact.Cond, fact.Truth)
						if bo, ok := c.(*ssa.BinOp); ok && truth && bo.Op == token.GEQ && sym(bo.X) == "pi.start" && sym(bo.Y) == "len(pi.path)" {
							clamped = true
						}
					}
				default:
					okStart = false
				}
			case "end":
				s := sym(st.Val)
				if s == "pi.start" || s == "len(pi.path)" || strings.HasPrefix(s, "(pi.start + call:") {
					okEnd++
				} else {
					okEnd = -100
				}
			}
		})
		if okStart && okEnd == 3 && !clamped {
			rc.bad(cons, f.Pos(), "when the parts are exhausted the cursor is left one position beyond the end of the path (start = end + 1 > len(path)): for a path that is exactly a volume name (a UNC share without trailing separator) Part() slices out of range and the call panics")
		} else if okStart && okEnd == 3 {
			rc.good(cons, f.Pos(), "start = end+1, clamped to len(path) when the parts are exhausted; end = start | len(path) | start + index of the next separator")
		} else {
			rc.bad(cons, f.Pos(), "Next does not move the cursors as start = end+1 and end = next separator / end of path: parts are skipped, repeated or cut")
		}
	}
	// Reset: both cursors go back to where a fresh iterator has them
	if rf := iterMethod(rc, "Reset"); rf == nil || len(rf.Blocks) == 0 {
		rc.anchor("avfs.(*PathIterator).Reset")
	} else {
		cons := "avfs.(*PathIterator).Reset cursor"
		startOK, endOK := false, false
		eachInstr(rf, func(in ssa.Instruction) {
			st, ok := in.(*ssa.Store)
			if !ok {
				return
			}
			fa, ok := st.Addr.(*ssa.FieldAddr)
			if !ok {
				return
			}
			switch fieldName(fa.X.Type(), fa.Field) {
			case "start":
				if k, isC := constInt(st.Val); isC && k == 0 {
					startOK = true
				}
			case "end":
				if isFieldLoad(strip(st.Val), "volumeNameLen") {
					endOK = true
				}
			}
		})
		switch {
		case !endOK:
			rc.bad(cons, rf.Pos(), "Reset does not put the end cursor back at the end of the volume name")
		case !startOK:
			rc.bad(cons, rf.Pos(), "Reset moves the end cursor back but leaves the start cursor where it was: start > end, so Part() slices out of range (and Left + Part + Right no longer reassemble the path) until the next call of Next")
		default:
			rc.good(cons, rf.Pos(), "start = 0, end = length of the volume name: the state of a fresh iterator")
		}
	}
	// ReplacePart
	f := iterMethod(rc, "ReplacePart")
	if f == nil || len(f.Blocks) == 0 {
		rc.anchor("avfs.(*PathIterator).ReplacePart")
		return
	}
	// (a) the spliced path
	cons := "avfs.(*PathIterator).ReplacePart splice"
	var joins []string
	eachInstr(f, func(in ssa.Instruction) {
		st, ok := in.(*ssa.Store)
		if !ok {
			return
		}
		fa, ok := st.Addr.(*ssa.FieldAddr)
		if !ok || fieldName(fa.X.Type(), fa.Field) != "path" {
			return
		}
		c, _ := resultOfCall(st.Val)
		if c == nil || calleeFunc(c) == nil || calleeFunc(c).Name() != "Join" {
			joins = append(joins, "not-a-join:"+sym(st.Val))
			return
		}
		abs := false
		for _, fct := range factsAt(st.Block()) {
			if _, truth, ok := callFact(fct, "IsAbs"); ok && truth {
				abs = true
			}
		}
		var parts []string
		args := callArgs(c)
		if sl, ok := args[len(args)-1].(*ssa.Slice); ok {
			if al, ok := sl.X.(*ssa.Alloc); ok {
				byIdx := map[int64]string{}
				for _, u := range referrersOf(al) {
					if ia, ok := u.(*ssa.IndexAddr); ok {
						if k, ok := constInt(ia.Index); ok {
							for _, s2 := range storesTo(ia) {
								byIdx[k] = sym(s2.Val)
							}
						}
					}
				}
				for i := int64(0); i < int64(len(byIdx)); i++ {
					parts = append(parts, byIdx[i])
				}
			}
		}
		tag := "rel:"
		if abs {
			tag = "abs:"
		}
		joins = append(joins, tag+strings.Join(parts, ","))
	})
	// oldPath is the path loaded at entry: sym "pi.path"
	okSplice := len(joins) == 2
	for _, j := range joins {
		if j != "abs:newPath,pi.path[pi.end:]" && j != "rel:pi.path[:pi.start],newPath,pi.path[pi.end:]" {
			okSplice = false
		}
	}
	if okSplice {
		rc.good(cons, f.Pos(), "Join(path[:start], new, path[end:]) / Join(new, path[end:]) for an absolute replacement")
	} else {
		rc.bad(cons, f.Pos(), "the spliced path is not the Join of the pieces left of the part, the replacement and the pieces right of it: "+strings.Join(joins, " | "))
	}
	// (a') an absolute replacement can name another volume: the length of the volume name is computed again
	cons = "avfs.(*PathIterator).ReplacePart volume"
	okVol, whyVol := false, "ReplacePart never assigns the length of the volume name: after an absolute replacement that names another volume (C: -> \\\\host\\share) Reset and VolumeName still use the length of the old one"
	eachInstr(f, func(in ssa.Instruction) {
		st, ok := in.(*ssa.Store)
		if !ok {
			return
		}
		fa, ok := st.Addr.(*ssa.FieldAddr)
		if !ok || fieldName(fa.X.Type(), fa.Field) != "volumeNameLen" {
			return
		}
		c, _ := resultOfCall(st.Val)
		if c == nil || calleeFunc(c) == nil || calleeFunc(c).Name() != "VolumeNameLen" {
			whyVol = "the length of the volume name is assigned something else than VolumeNameLen(...)"
			return
		}
		args := callArgs(c)
		// the argument is the new path: the field just stored, or the value stored into it
		newPath := false
		for _, o := range originsOf(args[len(args)-1]) {
			if cc, _ := resultOfCall(o); cc != nil && calleeFunc(cc) != nil && calleeFunc(cc).Name() == "Join" {
				newPath = true
			}
			if ld, ok := o.(*ssa.UnOp); ok && ld.Op == token.MUL {
				if lfa, ok := ld.X.(*ssa.FieldAddr); ok && fieldName(lfa.X.Type(), lfa.Field) == "path" {
					// loaded after the splice was stored
					eachInstr(f, func(in2 ssa.Instruction) {
						if st2, ok := in2.(*ssa.Store); ok {
							if fa2, ok := st2.Addr.(*ssa.FieldAddr); ok && fieldName(fa2.X.Type(), fa2.Field) == "path" && domInstr(st2, ld) {
								newPath = true
							}
						}
					})
				}
			}
		}
		if !newPath {
			whyVol = "the length of the volume name is computed from something else than the new path"
			return
		}
		// Reset rewinds the cursor to the end of the volume name: the new length must be stored before it is called
		late := false
		eachCall(f, func(ci ssa.CallInstruction) {
			if fn := calleeFunc(ci); fn != nil && fn.Name() == "Reset" && instrReaches(ci, st) {
				late = true
			}
		})
		if late {
			whyVol = "the length of the volume name is stored after the Reset that uses it: the cursor is rewound with the length of the old volume name"
			return
		}
		okVol = true
	})
	if okVol {
		rc.good(cons, f.Pos(), "volumeNameLen = VolumeNameLen(new path) after the splice")
	} else {
		rc.bad(cons, f.Pos(), whyVol)
	}
	// (b) keep-cursor condition
	cons = "avfs.(*PathIterator).ReplacePart keep-cursor"
	var cmp *ssa.BinOp
	eachInstr(f, func(in ssa.Instruction) {
		b, ok := in.(*ssa.BinOp)
		if !ok || (b.Op != token.NEQ && b.Op != token.EQL) {
			return
		}
		_, s1 := b.X.(*ssa.Slice)
		_, s2 := b.Y.(*ssa.Slice)
		if s1 && s2 {
			cmp = b
		}
	})
	if cmp == nil {
		rc.bad(cons, f.Pos(), "ReplacePart never compares the prefix of the new path with the prefix of the old path: the cursor is kept although the text left of it may have changed")
		return
	}
	x, y := cmp.X.(*ssa.Slice), cmp.Y.(*ssa.Slice)
	bx, by := "", ""
	if x.High != nil {
		bx = sym(x.High)
	}
	if y.High != nil {
		by = sym(y.High)
	}
	switch {
	case x.Low != nil || y.Low != nil:
		rc.bad(cons, cmp.Pos(), "the compared prefixes do not start at the beginning of the paths")
	case bx != "pi.start" || by != "pi.start":
		rc.bad(cons, cmp.Pos(), "the cursor is kept when the prefixes [:"+bx+"] / [:"+by+"] are equal, but everything left of the cursor is [:pi.start] (including the separator): a replacement that changes the byte just before the cursor keeps a cursor that now points into the middle of an element")
	default:
		// the keeping branch sets end = start-1
		ok := false
		eachInstr(f, func(in ssa.Instruction) {
			if st, isSt := in.(*ssa.Store); isSt {
				if fa, isFA := st.Addr.(*ssa.FieldAddr); isFA && fieldName(fa.X.Type(), fa.Field) == "end" && sym(st.Val) == "(pi.start - 1)" {
					ok = true
				}
			}
		})
		if ok {
			rc.good(cons, cmp.Pos(), "cursor kept only when path[:start] is unchanged; end is set back to start-1 so that Next re-reads the part")
		} else {
			rc.bad(cons, cmp.Pos(), "when the cursor is kept, end is not set back to start-1")
		}
	}
}
