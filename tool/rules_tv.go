package main

import (
	"fmt"
	"go/ast"
	"go/token"
	"go/types"
	"path/filepath"
	"sort"
	"strings"

	"golang.org/x/tools/go/ssa"
)

// C13 / C14 — translation validation against this toolchain's path/filepath, internal/filepathlite and os sources.

func init() {
	notDecided["C13"] = []string{
		"Abs and SplitAbs / FromUnixPath (no standard-library counterpart of the same shape); the values path/filepath itself returns (it is the reference, not the subject)",
		"absence of panics inside the adapted functions beyond their identity with the reference",
		"structural identity is a sufficient condition: a behaviour-preserving restructuring of an adapted function makes its obligation undischarged (stated in DESIGN.md)",
	}
	notDecided["C14"] = []string{
		"that the names in a directory's map ARE the existing entries (C05/C06), entry types, behaviour under permission errors of the file system itself",
		"BasePathFS's translation of pattern and matches is decided under C10.in / C10.out",
	}
	register(&Rule{ID: "C13.tv", Floor: 40, Also: []string{"C10", "C07", "C04", "C17"},
		// C04: a link target is spliced into the path and cleaned (Clean / lazybuf); C17: the Windows variants are what a
		// Windows-typed file system computes on any host
		AlsoOnly: map[string][]string{"C04": {"lazybuf", "avfs.Clean", "avfs.IsAbs", "avfs.Join"}, "C17": {"[windows]"}}, AlsoFloor: map[string]int{"C04": 4, "C17": 15},
		Text: "tagged build: each adapted lexical path function, specialised to Linux and to Windows (OSType()/PathSeparator() folded, dead branches pruned) and normalised by a closed list of semantics-preserving rewrites, is structurally identical to the corresponding function of this toolchain's GOROOT (internal/filepathlite, path/filepath) normalised the same way; identical normal forms imply identical results for every input",
		Run:  func(rc *RuleCtx) { tvRule(rc, "C13") }})
	register(&Rule{ID: "C13.off", Floor: 10,
		Text: "untagged build: every path helper of vfs_ostype_off.go is a positional forward of its own parameters (file system excluded) to the same-named function of path/filepath (os.IsPathSeparator, the linked volumeNameLen) and returns its results unchanged",
		Run:  c13Off})
	register(&Rule{ID: "C14.tv", Floor: 12, Also: []string{"C07", "C01", "C11"},
		AlsoOnly: map[string][]string{"C01": {"WalkDir", "walkDir", "ReadDir"}, "C11": {"cleanGlobPath", "WalkDir", "walkDir", "Glob", "glob"}}, AlsoFloor: map[string]int{"C01": 2, "C11": 4},
		Text: "Glob / globWithLimit / glob / hasMeta / cleanGlobPath, WalkDir / walkDir and ReadDir are structurally identical, after the same normalisation and the call-correspondence table (os.X(a) ~ vfs.X(a), os.Open(n) ~ OpenFile(n, O_RDONLY, 0), fs.FileInfoToDirEntry(i) ~ &statDirEntry{i}, sort by Name), to filepath.Glob..., filepath.WalkDir / walkDir and os.ReadDir of this toolchain",
		Run:  func(rc *RuleCtx) { tvRule(rc, "C14") }})
	register(&Rule{ID: "C12.tv", Floor: 1,
		Text: "the generic WriteFile, on which FailFS.WriteFile is built, is structurally identical (after the same normalisation and call correspondence) to os.WriteFile of this toolchain: in particular the error of Close is reported when the write succeeded - a composite fails when any primitive it is built on fails",
		Run:  func(rc *RuleCtx) { tvRule(rc, "C12") }})
	register(&Rule{ID: "C14.sorted", Floor: 5,
		Text: "every function that builds a listing from a directory's map (ranging over children) sorts the listing by name after the last element is stored and before it is returned",
		Run:  c14Sorted})
	register(&Rule{ID: "C14.helpers", Floor: 4,
		Text: "Exists, DirExists, IsDir and IsEmpty consult Stat / OpenFile / ReadDir of the file system on their own, unmodified path parameter, and map a not-exist error to (false, nil) only in Exists and DirExists",
		Run:  c14Helpers})
}

func tvRule(rc *RuleCtx, prop string) {
	if rc.C.Name != "avfs_setostype" && prop == "C13" {
		// the generic implementation exists only in the tagged configuration; the rule reads the source file directly, once
	}
	if rc.C.Name != "default" {
		return // source-level comparison, independent of the configuration: run once
	}
	programs, diffs := 0, 0
	for _, p := range tvPairs {
		props := p.props
		if len(props) == 0 {
			props = []string{"C13"}
		}
		serves := false
		for _, q := range props {
			if q == prop {
				serves = true
			}
		}
		if !serves {
			continue
		}
		var oss []string
		for o := range p.ref {
			oss = append(oss, o)
		}
		sort.Strings(oss)
		for _, osn := range oss {
			programs++
			r := runTV(rc.C.Repo, p, osn)
			ref := p.ref[osn]
			cons := fmt.Sprintf("avfs.%s ~ GOROOT/%s:%s [%s]", p.name, ref.file, ref.fn, osn)
			pos := token.NoPos
			switch {
			case r.err != "":
				rc.bad(cons, pos, "the pair could not be compared: "+r.err)
				diffs++
			case !r.equal:
				diffs++
				rc.bad(cons, pos, fmt.Sprintf("%s: the normal forms differ at statement %d (of %d): avfs `%s` / reference `%s` -- for the %s emulation the function no longer computes what %s computes",
					r.where, r.diffLine, r.nLines, r.avfsLine, r.refLine, osn, filepath.Base(filepath.Dir(ref.file))+"."+ref.fn))
			default:
				var rw []string
				for k, n := range r.rewrites {
					rw = append(rw, fmt.Sprintf("%s (x%d)", k, n))
				}
				sort.Strings(rw)
				rc.good(cons, pos, fmt.Sprintf("identical normal forms (%d lines); rewrites used: %s", r.nLines, strings.Join(rw, "; ")))
			}
		}
	}
	rc.run.analysed["programs"] += programs
	rc.run.analysed["disagreements"] += diffs
}

func c13Off(rc *RuleCtx) {
	if rc.C.Name != "default" {
		return
	}
	p := rc.C.pkg("avfs")
	if p == nil {
		rc.anchor("package avfs")
		return
	}
	var file *ast.File
	for _, f := range p.Syntax {
		if strings.HasSuffix(rc.C.Fset.Position(f.Pos()).Filename, "/vfs_ostype_off.go") {
			file = f
		}
	}
	if file == nil {
		rc.anchor("vfs_ostype_off.go in the untagged configuration")
		return
	}
	wantPkg := map[string]string{"IsPathSeparator": "os", "VolumeNameLen": ""}
	for _, d := range file.Decls {
		fd, ok := d.(*ast.FuncDecl)
		if !ok || fd.Body == nil {
			continue
		}
		cons := "avfs." + fd.Name.Name + " forwards to the host's path/filepath"
		if len(fd.Body.List) != 1 {
			rc.bad(cons, fd.Pos(), "the untagged helper is not a single forwarding return")
			continue
		}
		ret, ok := fd.Body.List[0].(*ast.ReturnStmt)
		if !ok || len(ret.Results) != 1 {
			rc.bad(cons, fd.Pos(), "the untagged helper is not a single forwarding return")
			continue
		}
		call, ok := ret.Results[0].(*ast.CallExpr)
		if !ok {
			rc.bad(cons, fd.Pos(), "the untagged helper does not return a call")
			continue
		}
		// callee
		pkgName, fnName := "", ""
		switch f := call.Fun.(type) {
		case *ast.SelectorExpr:
			if id, ok := f.X.(*ast.Ident); ok {
				pkgName, fnName = id.Name, f.Sel.Name
			}
		case *ast.Ident:
			fnName = f.Name
		}
		wp, special := wantPkg[fd.Name.Name]
		if !special {
			wp = "filepath"
		}
		wantFn := fd.Name.Name
		if fd.Name.Name == "VolumeNameLen" {
			wantFn = "volumeNameLen"
		}
		if pkgName != wp || fnName != wantFn {
			rc.bad(cons, call.Pos(), fmt.Sprintf("forwards to %s.%s instead of %s.%s", pkgName, fnName, wp, wantFn))
			continue
		}
		// positional arguments: own parameters after the file system
		var params []string
		for i, f := range fd.Type.Params.List {
			for j, nm := range f.Names {
				if i == 0 && j == 0 {
					continue
				}
				params = append(params, nm.Name)
			}
		}
		okArgs := len(call.Args) == len(params)
		for i := 0; okArgs && i < len(params); i++ {
			if !isIdent(call.Args[i], params[i]) {
				okArgs = false
			}
		}
		if !okArgs {
			rc.bad(cons, call.Pos(), "the forwarded arguments are not the helper's own parameters in order")
			continue
		}
		rc.good(cons, call.Pos(), wp+"."+wantFn+"(own parameters)")
	}
}

func c14Sorted(rc *RuleCtx) {
	for _, pk := range []string{"memfs", "orefafs", "avfs"} {
		for _, f := range rc.C.srcFuncs(pk) {
			// functions that range over a children map and return a slice
			rangesChildren := false
			eachInstr(f, func(in ssa.Instruction) {
				if r, ok := in.(*ssa.Range); ok {
					if ld, ok := stripCT(r.X).(*ssa.UnOp); ok && ld.Op == token.MUL {
						if fa, ok := ld.X.(*ssa.FieldAddr); ok && fieldName(fa.X.Type(), fa.Field) == "children" {
							rangesChildren = true
						}
					}
				}
			})
			if !rangesChildren || f.Signature.Results().Len() != 1 {
				continue
			}
			if !strings.HasPrefix(f.Signature.Results().At(0).Type().String(), "[]") {
				continue
			}
			cons := funcName(f) + " listing sorted"
			var sortCall ssa.CallInstruction
			eachCall(f, func(ci ssa.CallInstruction) {
				if fn := calleeFunc(ci); fn != nil && fn.Pkg() != nil && (fn.Pkg().Path() == "sort" || fn.Pkg().Path() == "slices") {
					sortCall = ci
				}
			})
			if sortCall == nil {
				rc.bad(cons, f.Pos(), "a listing built by ranging over a map (random order) is returned without being sorted")
				continue
			}
			bad := ""
			for _, r := range returnsOf(f) {
				v := strip(r.Results[0])
				if isNilConst(v) {
					continue
				}
				if keptSortedCopy(rc, f, r.Results[0], sortCall) {
					continue // a copy of a listing kept in the receiver, stored there only as (a copy of) the sorted slice
				}
				if !domInstr(sortCall, r) {
					bad = "a non-empty listing is returned on a path that does not pass through the sort"
				}
				if !sameValue(sortCall.Common().Args[0], r.Results[0]) && !valueReaches(r.Results[0], sortCall.Common().Args[0]) && !valueReaches(sortCall.Common().Args[0], r.Results[0]) {
					// tolerate interface conversions of the same slice
					if sym(sortCall.Common().Args[0]) != sym(r.Results[0]) {
						bad = "the slice that is sorted is not the slice that is returned"
					}
				}
			}
			// no element store after the sort
			eachInstr(f, func(in ssa.Instruction) {
				if st, ok := in.(*ssa.Store); ok {
					if _, isIA := st.Addr.(*ssa.IndexAddr); isIA && instrReaches(sortCall, st) {
						bad = "an element is stored into the listing after it was sorted"
					}
				}
			})
			if bad != "" {
				rc.bad(cons, sortCall.Pos(), bad)
			} else {
				rc.good(cons, sortCall.Pos(), "sorted by name after the last element is stored, before every non-empty return")
			}
		}
	}
	// glob sorts the names it read; avfs.ReadDir is covered by C14.tv (sort by Name)
	if f := rc.C.fn("avfs", "glob"); f != nil {
		cons := "avfs.glob names sorted"
		ok := false
		eachCall(f, func(ci ssa.CallInstruction) {
			if fn := calleeFunc(ci); fn != nil && (isPkgFunc(fn, "sort", "Strings") || isPkgFunc(fn, "slices", "Sort")) {
				ok = true
			}
		})
		if ok {
			rc.good(cons, f.Pos(), "sort.Strings / slices.Sort on the directory's names before matching")
		} else {
			rc.bad(cons, f.Pos(), "glob does not sort the names of the directory: matches are not returned in lexical order")
		}
	}
}

// copiedFrom: v is `append(<nil or empty>, x...)` or x itself; returns x.
func copiedFrom(v ssa.Value) ssa.Value {
	v = strip(v)
	if c, ok := v.(*ssa.Call); ok {
		if b, ok := c.Call.Value.(*ssa.Builtin); ok && b.Name() == "append" && len(c.Call.Args) == 2 {
			if k, ok := strip(c.Call.Args[0]).(*ssa.Const); ok && k.IsNil() {
				return strip(c.Call.Args[1])
			}
		}
	}
	return v
}

// keptSortedCopy: v is a copy of a slice loaded from a field of f's receiver, and that field is only ever assigned nil
// or (a copy of) the slice that sortCall sorted, after the sort.
func keptSortedCopy(rc *RuleCtx, f *ssa.Function, v ssa.Value, sortCall ssa.CallInstruction) bool {
	src := copiedFrom(v)
	ld, ok := src.(*ssa.UnOp)
	if !ok || ld.Op != token.MUL {
		return false
	}
	fa, ok := ld.X.(*ssa.FieldAddr)
	if !ok || len(f.Params) == 0 || strip(fa.X) != ssa.Value(f.Params[0]) {
		return false
	}
	fv := fieldVar(fa)
	if fv == nil {
		return false
	}
	sorted := strip(sortCall.Common().Args[0])
	okAll, n := true, 0
	for _, pk := range []string{"memfs", "orefafs"} {
		for _, g := range rc.C.srcFuncs(pk) {
			eachInstr(g, func(in ssa.Instruction) {
				st, isSt := in.(*ssa.Store)
				if !isSt {
					return
				}
				sfa, isFA := st.Addr.(*ssa.FieldAddr)
				if !isFA || fieldVar(sfa) != fv {
					return
				}
				n++
				if k, isC := strip(st.Val).(*ssa.Const); isC && k.IsNil() {
					return
				}
				if g == f && domInstr(sortCall, st) {
					if c := copiedFrom(st.Val); c == sorted || sameValue(c, sorted) {
						return
					}
				}
				okAll = false
			})
		}
	}
	return okAll && n > 0
}

func c14Helpers(rc *RuleCtx) {
	for _, name := range []string{"Exists", "DirExists", "IsDir", "IsEmpty"} {
		f := rc.C.fn("avfs", name)
		cons := "avfs." + name
		if f == nil || len(f.Blocks) == 0 {
			rc.anchor(cons)
			continue
		}
		bad := ""
		nStat := 0
		eachCall(f, func(ci ssa.CallInstruction) {
			fn := calleeFunc(ci)
			if fn == nil || !ci.Common().IsInvoke() {
				return
			}
			switch nm(fn) {
			case "Stat", "Lstat", "OpenFile", "ReadDir":
				if ci.Common().Value == ssa.Value(f.Params[0]) {
					if fn.Name() == "Stat" {
						nStat++
					}
					if fn.Name() == "Lstat" {
						bad = "consults Lstat: the helpers are defined by what Stat (following links) implies"
					}
					if a := callArgs(ci); len(a) > 0 && fn.Name() != "ReadDir" {
						if paramIndex(f, a[0]) != 1 {
							bad = "the file system is consulted with something other than the helper's own path parameter"
						}
					}
				}
			}
		})
		if nStat == 0 {
			bad = "the helper does not Stat its path"
		}
		if name == "IsEmpty" {
			// a file is never opened: OpenFile is reached only where Stat said the path is a directory
			eachCall(f, func(ci ssa.CallInstruction) {
				fn := calleeFunc(ci)
				if fn == nil || fn.Name() != "OpenFile" || !ci.Common().IsInvoke() || ci.Common().Value != ssa.Value(f.Params[0]) {
					return
				}
				isDir := false
				for _, fa := range factsAt(ci.Block()) {
					c, truth := normCond(fa.Cond, fa.Truth)
					if ic, _ := resultOfCall(c); ic != nil && truth {
						if ifn := calleeFunc(ic); ifn != nil && ifn.Name() == "IsDir" {
							isDir = true
						}
					}
				}
				if !isDir {
					bad = "IsEmpty opens its path without having established, from Stat, that it is a directory: a file the caller may stat but not read makes the helper fail where Stat and the size answer the question"
				}
			})
		}
		// not-exist mapped to (false, nil) only in Exists / DirExists
		mapsNotExist := false
		eachCall(f, func(ci ssa.CallInstruction) {
			if fn := calleeFunc(ci); fn != nil && isPkgFunc(fn, "errors", "Is") {
				mapsNotExist = true
			}
		})
		if mapsNotExist != (name == "Exists" || name == "DirExists") {
			if mapsNotExist {
				bad = "a not-exist error is turned into (false, nil) where the documentation says the error is returned"
			} else {
				bad = "a not-exist error is not turned into (false, nil)"
			}
		}
		// the error of every consultation is what the helper decides on and hands back: it reaches an
		// error result of the helper, and errors.Is tests that error and nothing else
		isConsultErr := func(v ssa.Value) bool {
			for _, rv := range resolve(v) {
				c, idx := resultOfCall(rv)
				if c == nil || !c.Common().IsInvoke() {
					return false
				}
				fn := calleeFunc(c)
				if fn == nil || idx != errResultIndex(fn.Type().(*types.Signature)) {
					return false
				}
			}
			return len(resolve(v)) > 0
		}
		eachCall(f, func(ci ssa.CallInstruction) {
			fn := calleeFunc(ci)
			if fn == nil {
				return
			}
			if isPkgFunc(fn, "errors", "Is") {
				if a := callArgs(ci); len(a) == 2 && !isConsultErr(a[0]) {
					bad = "errors.Is tests a value that is not the error returned by the consulted file system (a shadowed or stale variable): a Stat failure other than not-exist is answered (false, nil)"
				}
				return
			}
			if !ci.Common().IsInvoke() || ci.Common().Value != ssa.Value(f.Params[0]) {
				return
			}
			switch nm(fn) {
			case "Stat", "OpenFile":
			default:
				return
			}
			ei := errResultIndex(fn.Type().(*types.Signature))
			reaches := false
			for _, r := range returnsOf(f) {
				ri := errResultIndex(f.Signature)
				if ri < 0 || ri >= len(r.Results) {
					continue
				}
				for _, rv := range resolve(r.Results[ri]) {
					if c, idx := resultOfCall(rv); c == ci && idx == ei {
						reaches = true
					}
				}
			}
			if !reaches {
				bad = "the error returned by " + fn.Name() + " never reaches the helper's error result: a failure of the file system is reported as a plain 'false'"
			}
		})
		if bad != "" {
			rc.bad(cons, f.Pos(), bad)
		} else {
			rc.good(cons, f.Pos(), "answers from Stat (and ReadDir) of its own path parameter; consultation errors are tested and returned")
		}
	}
}
