package main

import (
	"fmt"
	"go/token"
	"strings"

	"golang.org/x/tools/go/ssa"
)

// C05 — the namespace is always a well-formed tree with exact link counts (structural clauses).

func init() {
	notDecided["C05"] = []string{
		"that every directory is reachable by exactly one path in all reachable states (only: a directory is never moved below itself, entries and index move together)",
		"that a successful call changes only the entries it names; sortedness of listings (C14.sorted)",
		"identical content/size/mode/owner through all hard links (they share one node by construction: C08 decides its locking)",
	}
	register(&Rule{ID: "C05.atomic", Floor: 25,
		Text:     "failure atomicity: in every exported operation of MemFS and OrefaFS except RemoveAll (documented to remove what it can), no instruction that changes the tree (entry-map update, node release, truncate, store to a node attribute) or the view's working directory (SetCurDir) can be followed by a return that reports an error; check-and-set helpers (setMode, setModTime) change the node only when they return true",
		Also:     []string{"C01", "C02", "C06", "C11", "C14"},
		AlsoOnly: map[string][]string{"C11": {"SetCurDir()"}}, AlsoFloor: map[string]int{"C11": 1},
		Run: c05Atomic})
	register(&Rule{ID: "C05.nlink", Floor: 8, AlsoOnly: map[string][]string{"C11": {"releases-removed-node"}}, AlsoFloor: map[string]int{"C11": 2},
		Text: "the link counter moves with the directory entries: Link increments the counter of the node it inserts, inside that node's critical section; Remove / RemoveAll release (decrement) every node whose entry they remove, on every path and for every kind of node; Rename releases the node it displaces at the destination",
		Also: []string{"C01", "C02", "C08", "C11"},
		Run:  c05Nlink})
	register(&Rule{ID: "C05.index", Floor: 5,
		Text: "OrefaFS keeps the per-directory children maps and the path index in step: every function that inserts into (removes from) one also inserts into (removes from) the other",
		Run:  c05Index})
	register(&Rule{ID: "C05.ancestor", Floor: 2,
		Text: "a directory is never moved below itself: in both Rename implementations the move of a directory is dominated by a prefix test relating the resolved source and destination paths whose true branch returns an error",
		Run:  c05Ancestor})
	register(&Rule{ID: "C07.nilmap", Floor: 2, Also: []string{"C05"},
		Text: "a lazily allocated entry map (children) is written only through the helper that allocates it, or under a dominating non-nil test: assignment to an entry of a nil map panics",
		Run:  c07NilMap})
}

var nodeAttrFields = map[string]bool{"data": true, "nlink": true, "mode": true, "uid": true, "gid": true, "mtime": true, "children": true, "link": true}

func c05Atomic(rc *RuleCtx) {
	a := lockAnalysisFor(rc.C)
	pkgs := map[string]bool{"memfs": true, "orefafs": true}
	prims := computeMapPrims(rc.C, a, pkgs)
	for _, f := range a.funcs {
		if f.Pkg == nil || !pkgs[pkgShort[f.Pkg.Pkg.Path()]] || !isEntryPoint(f) || f.Signature.Recv() == nil {
			continue
		}
		if n := namedOf(f.Signature.Recv().Type()); n == nil || (n.Obj().Name() != "MemFS" && n.Obj().Name() != "OrefaFS") {
			continue
		}
		if f.Name() == "RemoveAll" || strings.HasPrefix(f.Name(), "Volume") {
			continue // RemoveAll is documented to remove what it can; volume management is built on it
		}
		ei := errResultIndex(f.Signature)
		if ei < 0 {
			continue
		}
		type mut struct {
			in       ssa.Instruction
			what     string
			condCall *ssa.Call // check-and-set: mutation only when this call returned true
		}
		var muts []mut
		for _, u := range entryMapUpdates(f) {
			if !objKeyOf(u.fa).fresh {
				muts = append(muts, mut{in: u.in, what: "update of " + prettyKey(objKeyOf(u.fa)) + "." + u.field})
			}
		}
		eachInstr(f, func(in ssa.Instruction) {
			switch x := in.(type) {
			case *ssa.Store:
				fa, ok := x.Addr.(*ssa.FieldAddr)
				if !ok || !nodeAttrFields[fieldName(fa.X.Type(), fa.Field)] || objKeyOf(fa).fresh {
					return
				}
				if n := namedOf(fa.X.Type()); n == nil || len(mutexFieldsOf(n)) == 0 {
					return
				}
				muts = append(muts, mut{in: x, what: "store to " + prettyKey(objKeyOf(fa)) + "." + fieldName(fa.X.Type(), fa.Field)})
			case ssa.CallInstruction:
				if _, isDefer := in.(*ssa.Defer); isDefer {
					return
				}
				fn := calleeFunc(x)
				if fn == nil {
					return
				}
				switch nm(fn) {
				case "SetCurDir":
					// view state: a refused Chdir must leave the working directory where it was
					muts = append(muts, mut{in: x, what: "SetCurDir() of the view"})
					return
				case "truncate", "delete", "remove", "setOwner":
					if r := callRecv(x); r != nil && !objKeyOf(r).fresh {
						muts = append(muts, mut{in: x, what: fn.Name() + "() on " + prettyKey(objKeyOf(r))})
					}
					return
				case "setMode", "setModTime":
					if c, ok := x.(*ssa.Call); ok {
						if c.Call.Signature().Results().Len() == 1 {
							muts = append(muts, mut{in: x, what: fn.Name() + "() on " + prettyKey(objKeyOf(callRecv(x))), condCall: c})
						} else {
							muts = append(muts, mut{in: x, what: fn.Name() + "() on " + prettyKey(objKeyOf(callRecv(x)))})
						}
					}
					return
				}
				for _, callee := range a.calleesOf(x) {
					if isEntryPoint(callee) {
						continue
					}
					if len(prims[callee]) > 0 {
						args := x.Common().Args
						if x.Common().IsInvoke() {
							args = append([]ssa.Value{x.Common().Value}, args...)
						}
						p := prims[callee][0]
						if p.objParam < len(args) && !objKeyOf(args[p.objParam]).fresh {
							muts = append(muts, mut{in: x, what: callee.Name() + "() on " + prettyKey(objKeyOf(args[p.objParam]))})
						}
					}
				}
			}
		})
		seq := map[string]int{}
		for _, m := range muts {
			base := fmt.Sprintf("%s %s", funcName(f), m.what)
			seq[base]++
			cons := base
			if seq[base] > 1 {
				cons = fmt.Sprintf("%s#%d", base, seq[base])
			}
			bad := ""
			for _, r := range returnsOf(f) {
				if !instrReaches(m.in, r) || !feasiblyReaches(m.in, r, 20000) {
					continue
				}
				mayFail := false
				for _, v := range resolveRaw(r.Results[ei]) {
					if !isNilConst(strip(v)) {
						mayFail = true
					}
				}
				if !mayFail {
					continue
				}
				if m.condCall != nil {
					// fine when the failing return is under `call == false`
					refused := false
					for _, fa := range factsAt(r.Block()) {
						v, truth := normCond(fa.Cond, fa.Truth)
						if v == ssa.Value(m.condCall) && !truth {
							refused = true
						}
					}
					if refused {
						continue
					}
				}
				bad = "after this change of the tree the call can still return an error (" + rc.C.pos(r.Pos()) + "): a failed call leaves the tree modified"
			}
			if bad != "" {
				rc.bad(cons, m.in.Pos(), bad)
			} else {
				rc.good(cons, m.in.Pos(), "no error return is reachable after it")
			}
		}
	}
}

// isUnlinkRoutine: the function decrements an nlink field of its receiver (fileNode.delete, node.remove).
func isUnlinkRoutine(f *ssa.Function) bool {
	if f == nil || len(f.Blocks) == 0 {
		return false
	}
	dec := false
	eachInstr(f, func(in ssa.Instruction) {
		if st, ok := in.(*ssa.Store); ok {
			if fa, ok := st.Addr.(*ssa.FieldAddr); ok && fieldName(fa.X.Type(), fa.Field) == "nlink" {
				if b, ok := strip(st.Val).(*ssa.BinOp); ok && b.Op == token.SUB {
					dec = true
				}
			}
		}
	})
	return dec
}

// relSite is a place where a node is released: a call of an unlink routine (static, or an interface call one of whose
// implementations is one), or the decrement of a link counter written out in the function itself.
type relSite struct {
	in  ssa.Instruction
	obj ssa.Value // the node released
}

func (r relSite) Block() *ssa.BasicBlock { return r.in.Block() }
func (r relSite) Pos() token.Pos         { return r.in.Pos() }

func unlinkCalls(a *lockAnalysis, f *ssa.Function) []relSite {
	var out []relSite
	eachCall(f, func(ci ssa.CallInstruction) {
		for _, callee := range a.calleesOf(ci) {
			if isUnlinkRoutine(callee) {
				out = append(out, relSite{ci, callRecv(ci)})
				return
			}
		}
	})
	if !isUnlinkRoutine(f) {
		return out
	}
	// f decrements a link counter itself (the body of the release routine written out at its former call site)
	eachInstr(f, func(in ssa.Instruction) {
		if st, ok := in.(*ssa.Store); ok {
			if fa, ok := st.Addr.(*ssa.FieldAddr); ok && fieldName(fa.X.Type(), fa.Field) == "nlink" {
				if b, ok := strip(st.Val).(*ssa.BinOp); ok && b.Op == token.SUB {
					out = append(out, relSite{st, fa.X})
				}
			}
		}
	})
	return out
}

func c05Nlink(rc *RuleCtx) {
	a := lockAnalysisFor(rc.C)
	for _, pk := range []struct{ pkg, typ string }{{"memfs", "MemFS"}, {"orefafs", "OrefaFS"}} {
		ms := rc.C.methodsOf(pk.pkg, pk.typ)
		// (a) Link
		if f := ms["Link"]; f == nil {
			rc.anchor(pk.pkg + "." + pk.typ + ".Link")
		} else {
			cons := funcName(f) + " link-count-incremented"
			a.selectVariant(f, a.variantsOf(f)[0])
			var inc *ssa.Store
			eachInstr(f, func(in ssa.Instruction) {
				if st, ok := in.(*ssa.Store); ok {
					if fa, ok := st.Addr.(*ssa.FieldAddr); ok && fieldName(fa.X.Type(), fa.Field) == "nlink" {
						if b, ok := strip(st.Val).(*ssa.BinOp); ok && b.Op == token.ADD {
							if k, isC := constInt(b.Y); isC && k == 1 && isFieldLoad(b.X, "nlink") {
								inc = st
							}
						}
					}
				}
			})
			switch {
			case inc == nil:
				rc.bad(cons, f.Pos(), "Link inserts the node under a second name without incrementing its link count: Nlink is one too low and the content is released while a name still refers to it")
			default:
				fa := inc.Addr.(*ssa.FieldAddr)
				obj := objKeyOf(fa)
				st := a.stateBefore(inc)
				ok := false
				if st != nil {
					if held, _ := a.guardHeld(f, st, obj, "mu", modeW, 0); held {
						ok = true
					}
				}
				// every successful return is reached through the increment
				ei := errResultIndex(f.Signature)
				all := true
				for _, r := range returnsOf(f) {
					nilErr := true
					for _, v := range resolve(r.Results[ei]) {
						if !isNilConst(v) {
							nilErr = false
						}
					}
					if nilErr && !domInstr(inc, r) {
						all = false
					}
				}
				switch {
				case !ok:
					rc.bad(cons, inc.Pos(), "the link count is incremented outside the node's write-locked section")
				case !all:
					rc.bad(cons, inc.Pos(), "a successful return of Link is not preceded by the increment of the link count")
				default:
					rc.good(cons, inc.Pos(), "nlink++ on "+prettyKey(obj)+" under its write lock, on every successful path")
				}
			}
		}
		// (b) Remove / RemoveAll / removeAll release what they unlink
		for _, name := range []string{"Remove", "RemoveAll", "removeAll"} {
			f := ms[name]
			if f == nil {
				f = rc.C.method(pk.pkg, pk.typ, name)
			}
			if f == nil {
				continue
			}
			cons := funcName(f) + " releases-removed-node"
			ucs := unlinkCalls(a, f)
			if len(ucs) == 0 {
				// RemoveAll may delegate entirely to removeAll
				rc.bad(cons, f.Pos(), "entries are removed but no removed node is released (link count decremented, content freed)")
				continue
			}
			bad := ""
			ei := errResultIndex(f.Signature)
			for _, uc := range ucs {
				// inside a range loop: the release must run on every iteration, i.e. dominate the loop latch
				if lp := enclosingRangeHeader(uc.in); lp != nil {
					for _, pred := range lp.Preds {
						if reachableFrom(lp)[pred] && pred != lp && lp.Dominates(pred) { // back edge
							if !uc.Block().Dominates(pred) {
								bad = "inside the loop over the removed entries the release (" + rc.C.pos(uc.Pos()) + ") is skipped on some iterations: some kinds of node keep their link count although their entry is gone"
							}
						}
					}
					continue
				}
				_ = ei
			}
			// outside loops: at least one release dominates every successful return that follows a removal
			if bad == "" {
				var topLevel []relSite
				for _, uc := range ucs {
					if enclosingRangeHeader(uc.in) == nil {
						topLevel = append(topLevel, uc)
					}
				}
				removals := []ssa.Instruction{}
				for _, u := range entryMapUpdates(f) {
					if u.del && enclosingRangeHeader(u.in) == nil {
						removals = append(removals, u.in)
					}
				}
				eachCall(f, func(ci ssa.CallInstruction) {
					if fn := calleeFunc(ci); fn != nil && nm(fn) == "removeChild" && enclosingRangeHeader(ci) == nil {
						removals = append(removals, ci)
					}
				})
				for _, rm := range removals {
					for _, r := range returnsOf(f) {
						if !instrReaches(rm, r) {
							continue
						}
						okR := false
						for _, uc := range topLevel {
							if domInstr(uc.in, r) {
								okR = true
							}
						}
						if !okR {
							bad = "an entry is removed (" + rc.C.pos(rm.Pos()) + ") and the call returns without releasing the node"
						}
					}
				}
			}
			if bad != "" {
				rc.bad(cons, f.Pos(), bad)
			} else {
				rc.good(cons, f.Pos(), fmt.Sprintf("%d release call(s), on every path / iteration", len(ucs)))
			}
			// (b') the converse inside a loop over the entries: a node released in an iteration has its entry removed in
			// that iteration, unless the loop cannot be left with an error (then dropping the whole map afterwards is
			// the same): otherwise a failure in a later iteration leaves names listed whose nodes were released
			for _, uc := range ucs {
				lp := enclosingRangeHeader(uc.in)
				if lp == nil {
					continue
				}
				cons2 := funcName(f) + " released-entries-unlinked"
				inLoop := func(b *ssa.BasicBlock) bool { return lp.Dominates(b) && reachableFrom(b)[lp] }
				errExit := false
				// a return reached from inside the body: dominated by the header but not by the block the loop is left to
				var exitB *ssa.BasicBlock
				if iff, ok := lp.Instrs[len(lp.Instrs)-1].(*ssa.If); ok && iff != nil && len(lp.Succs) == 2 {
					exitB = lp.Succs[1]
				}
				fromBody := func(b *ssa.BasicBlock) bool {
					return lp.Dominates(b) && b != lp && (exitB == nil || !exitB.Dominates(b))
				}
				for _, r := range returnsOf(f) {
					if ei >= 0 && fromBody(r.Block()) {
						for _, o := range originsOf(r.Results[ei]) {
							if k, isC := o.(*ssa.Const); !isC || !k.IsNil() {
								errExit = true
							}
						}
					}
				}
				unlinked := false
				for _, u := range entryMapUpdates(f) {
					if u.del && inLoop(u.in.Block()) {
						unlinked = true
					}
				}
				eachCall(f, func(ci ssa.CallInstruction) {
					if fn := calleeFunc(ci); fn != nil && nm(fn) == "removeChild" && inLoop(ci.Block()) {
						unlinked = true
					}
				})
				switch {
				case unlinked:
					rc.good(cons2, uc.Pos(), "the entry is removed in the iteration that releases its node")
				case !errExit:
					rc.good(cons2, uc.Pos(), "the loop cannot be left with an error: the whole map is dropped afterwards")
				default:
					rc.bad(cons2, uc.Pos(), "nodes are released one by one while their entries stay in the directory, and the loop can be left with an error: after a partial failure the directory lists names whose nodes were released (a hard link kept elsewhere reports a link count that is one too low)")
				}
				break
			}
		}
		// (c) Rename displacement
		if f := ms["Rename"]; f == nil {
			rc.anchor(pk.pkg + "." + pk.typ + ".Rename")
		} else {
			cons := funcName(f) + " releases-displaced-node"
			ok := false
			for _, uc := range unlinkCalls(a, f) {
				// the released node must be the one found under the destination (second path parameter)
				if uc.obj != nil && derivesFromParam(objKeyOf(uc.obj).root, f, 1, 0) {
					ok = true
				}
			}
			if ok {
				rc.good(cons, f.Pos(), "the node found under the destination name is released before it is replaced")
			} else {
				rc.bad(cons, f.Pos(), "Rename over an existing file replaces the entry without releasing the displaced node: its other hard links keep a link count that is one too high")
			}
		}
	}
}

// enclosingRangeHeader: the header block (containing the Next instruction) of the innermost range loop whose body
// contains `in`, or nil.
func enclosingRangeHeader(in ssa.Instruction) *ssa.BasicBlock {
	f := in.Parent()
	var best *ssa.BasicBlock
	for _, b := range f.Blocks {
		isHeader := false
		for _, i2 := range b.Instrs {
			if _, ok := i2.(*ssa.Next); ok {
				isHeader = true
			}
		}
		if !isHeader || !b.Dominates(in.Block()) || b == in.Block() {
			continue
		}
		// in's block must be able to reach the header again (inside the loop)
		if !reachableFrom(in.Block())[b] {
			continue
		}
		if best == nil || best.Dominates(b) {
			best = b
		}
	}
	return best
}

func c05Index(rc *RuleCtx) {
	for _, f := range rc.C.srcFuncs("orefafs") {
		var cIns, cDel, nIns, nDel, clears int
		for _, u := range entryMapUpdates(f) {
			if objKeyOf(u.fa).fresh {
				continue
			}
			switch {
			case u.field == "children" && !u.del:
				cIns++
			case u.field == "children" && u.del:
				cDel++
			case u.field == "nodes" && !u.del:
				nIns++
			case u.field == "nodes" && u.del:
				nDel++
			}
		}
		eachCall(f, func(ci ssa.CallInstruction) {
			if fn := calleeFunc(ci); fn != nil {
				switch nm(fn) {
				case "addChild":
					cIns++
				case "remove":
					clears++ // node.remove() drops the node's own children map
				case "removeAll":
					if ci.Parent().Name() == "RemoveAll" {
						nDel++
						clears++
					}
				}
			}
		})
		// the same written out: the node's children map dropped by a store of nil
		eachInstr(f, func(in ssa.Instruction) {
			if st, ok := in.(*ssa.Store); ok {
				if fa, ok := st.Addr.(*ssa.FieldAddr); ok && fieldName(fa.X.Type(), fa.Field) == "children" {
					if k, isC := strip(st.Val).(*ssa.Const); isC && k.IsNil() && !objKeyOf(fa).fresh {
						clears++
					}
				}
			}
		})
		if cIns+cDel+nIns+nDel == 0 {
			continue
		}
		if nm(f) == "addChild" {
			continue // the children-side primitive itself
		}
		cons := funcName(f) + " children<->index"
		switch {
		case (cIns > 0) != (nIns > 0):
			rc.bad(cons, f.Pos(), fmt.Sprintf("%d insertion(s) into a children map but %d into the path index: a name is listed by its directory without being found by its path (or the reverse)", cIns, nIns))
		case nDel > 0 && cDel == 0 && clears == 0:
			rc.bad(cons, f.Pos(), "paths are removed from the index but no children map is updated: the directory still lists the removed name")
		case cDel > 0 && nDel == 0:
			rc.bad(cons, f.Pos(), "an entry is removed from a children map but its path stays in the index: Lstat of the removed path still succeeds")
		default:
			rc.good(cons, f.Pos(), fmt.Sprintf("children: +%d -%d (cleared %d) / index: +%d -%d", cIns, cDel, clears, nIns, nDel))
		}
	}
}

func c05Ancestor(rc *RuleCtx) {
	for _, pk := range []struct{ pkg, typ string }{{"memfs", "MemFS"}, {"orefafs", "OrefaFS"}} {
		f := rc.C.method(pk.pkg, pk.typ, "Rename")
		cons := pk.pkg + ".(*" + pk.typ + ").Rename not-below-itself"
		if f == nil {
			rc.anchor(cons)
			continue
		}
		var test *ssa.Call
		eachCall(f, func(ci ssa.CallInstruction) {
			fn := calleeFunc(ci)
			c, ok := ci.(*ssa.Call)
			if fn == nil || !ok || !isPkgFunc(fn, "strings", "HasPrefix") {
				return
			}
			// the true branch returns an error, and the test is not inside a loop
			if enclosingRangeHeader(c) != nil {
				return
			}
			for _, u := range referrersOf(c) {
				if iff, ok := u.(*ssa.If); ok {
					for _, in := range iff.Block().Succs[0].Instrs {
						if _, isRet := in.(*ssa.Return); isRet {
							test = c
						}
					}
				}
			}
		})
		if test == nil {
			rc.bad(cons, f.Pos(), "Rename moves a directory without testing that the destination is not inside it: Rename(\"/d\", \"/d/e/f\") detaches the whole subtree from the tree")
			continue
		}
		// the move (entry-map updates / primitives) happens only on the false branch
		bad := ""
		a := lockAnalysisFor(rc.C)
		prims := computeMapPrims(rc.C, a, map[string]bool{pk.pkg: true})
		check := func(in ssa.Instruction) {
			ok := false
			for _, fa := range factsAt(in.Block()) {
				v, truth := normCond(fa.Cond, fa.Truth)
				if v == ssa.Value(test) && !truth {
					ok = true
				}
			}
			// the test may be made only for directories (type switch / IsDir): accept when the test's block dominates
			// the move or the move is on a path where the source is not a directory
			if !ok && !test.Block().Dominates(in.Block()) {
				// moves outside the directory branch concern files: fine
				ok = true
			}
			if !ok {
				bad = "the move at " + rc.C.pos(in.Pos()) + " is reachable on the branch where the destination lies inside the source"
			}
		}
		for _, u := range entryMapUpdates(f) {
			if enclosingRangeHeader(u.in) == nil {
				check(u.in)
			}
		}
		eachCall(f, func(ci ssa.CallInstruction) {
			for _, callee := range a.calleesOf(ci) {
				if len(prims[callee]) > 0 && !isEntryPoint(callee) {
					check(ci)
				}
			}
		})
		if bad != "" {
			rc.bad(cons, test.Pos(), bad)
		} else {
			rc.good(cons, test.Pos(), "prefix test between destination and source paths; its true branch returns an error before anything is moved")
		}
	}
}

func c07NilMap(rc *RuleCtx) {
	for _, pk := range []string{"memfs", "orefafs"} {
		for _, f := range rc.C.srcFuncs(pk) {
			n := 0
			for _, u := range entryMapUpdates(f) {
				if u.del || u.field != "children" {
					continue // delete on a nil map is a no-op; the index is allocated by the constructor
				}
				n++
				cons := fmt.Sprintf("%s insert %s.children#%d", funcName(f), prettyKey(objKeyOf(u.fa)), n)
				// dominated by `children == nil -> allocate` (the helper idiom) or by `children != nil`
				ok := false
				for d := u.in.Block(); d != nil && !ok; d = d.Idom() {
					for _, in := range d.Instrs {
						if st, isSt := in.(*ssa.Store); isSt {
							if fa, isFA := st.Addr.(*ssa.FieldAddr); isFA && fieldName(fa.X.Type(), fa.Field) == "children" && objKeyOf(fa).s == objKeyOf(u.fa).s {
								if _, isMk := strip(st.Val).(*ssa.MakeMap); isMk {
									ok = true
								}
							}
						}
					}
				}
				// allocate-if-nil: the If block testing children == nil dominates, and its true branch makes the map
				for d := u.in.Block(); d != nil && !ok; d = d.Idom() {
					iff, isIf := d.Instrs[len(d.Instrs)-1].(*ssa.If)
					if !isIf {
						continue
					}
					x, isNil, k := nilTest(Fact{iff.Cond, true, iff})
					if !k || !isNil || !isFieldLoad(stripCT(x), "children") {
						continue
					}
					for _, in := range d.Succs[0].Instrs {
						if st, isSt := in.(*ssa.Store); isSt {
							if _, isMk := strip(st.Val).(*ssa.MakeMap); isMk {
								ok = true
							}
						}
					}
				}
				if objKeyOf(u.fa).fresh {
					ok = true
				}
				if ok {
					rc.good(cons, u.in.Pos(), "the map is allocated when nil before the insertion")
				} else {
					rc.bad(cons, u.in.Pos(), "inserts into a children map that is allocated lazily, without allocating it when nil: for a directory that never had an entry this is an assignment to an entry of a nil map (panic)")
				}
			}
		}
	}
}

// derivesFromParam: value v was computed from parameter #idx of f (declared parameter list, receiver excluded) through
// calls, lookups, extracts and assertions: e.g. the node found by walking / looking up the path given as that parameter.
func derivesFromParam(v ssa.Value, f *ssa.Function, idx int, depth int) bool {
	if v == nil || depth > 10 {
		return false
	}
	if paramIndex(f, v) == idx {
		return true
	}
	switch x := v.(type) {
	case *ssa.Extract:
		return derivesFromParam(x.Tuple, f, idx, depth+1)
	case *ssa.TypeAssert:
		return derivesFromParam(x.X, f, idx, depth+1)
	case *ssa.ChangeInterface:
		return derivesFromParam(x.X, f, idx, depth+1)
	case *ssa.MakeInterface:
		return derivesFromParam(x.X, f, idx, depth+1)
	case *ssa.Lookup:
		return derivesFromParam(x.Index, f, idx, depth+1)
	case *ssa.Call:
		for _, a := range callArgs(x) {
			if derivesFromParam(a, f, idx, depth+1) {
				return true
			}
		}
	case *ssa.UnOp:
		if x.Op == token.MUL {
			if al, ok := x.X.(*ssa.Alloc); ok {
				for _, st := range storesTo(al) {
					if derivesFromParam(st.Val, f, idx, depth+1) {
						return true
					}
				}
			}
		}
	case *ssa.Phi:
		for _, e := range x.Edges {
			if e != ssa.Value(x) && derivesFromParam(e, f, idx, depth+1) {
				return true
			}
		}
	}
	return false
}
