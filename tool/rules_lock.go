package main

import (
	"fmt"
	"go/token"
	"sort"
	"strings"

	"golang.org/x/tools/go/ssa"
)

// Lock discipline rules: C07.pair, C07.order (+ recursion / self-lock).

var lockPkgs = []string{"avfs", "memfs", "orefafs", "memidm"}

var lockCache = map[*Config]*lockAnalysis{}

func lockAnalysisFor(c *Config) *lockAnalysis {
	if a, ok := lockCache[c]; ok {
		return a
	}
	a := newLockAnalysis(c, lockPkgs...)
	lockCache[c] = a
	return a
}

func isLockWrapperName(n string) bool {
	switch n {
	case "Lock", "Unlock", "RLock", "RUnlock":
		return true
	}
	return false
}

func init() {
	register(&Rule{ID: "C07.pair", Floor: 120, Also: []string{"C06", "C17", "C08"},
		Text: "every Lock/RLock is released on every path to every return (explicitly or by a deferred call), with the matching mode; no release of a lock that is not held; every deferred release is registered while the lock is held",
		Run:  c07Pair})
	register(&Rule{ID: "C07.order", Floor: 20, Also: []string{"C06", "C01"}, AlsoOnly: map[string][]string{"C06": {" reacquire "}, "C01": {" distinct"}}, AlsoFloor: map[string]int{"C06": 0, "C01": 0},
		Text: "lock-order: whenever a lock is requested while another may be held, (1) the edge between their classes must not close a cycle in the class graph, (2) two locks of the same class must be ordered parent-before-child (the second obtained from the first's children map, or the (parent, child) result pair of one walk together with a dominating distinctness test), (3) a lock is never requested while the same object's lock may already be held (directly or inside a callee)",
		Run:  c07Order})
}

func c07Pair(rc *RuleCtx) {
	a := lockAnalysisFor(rc.C)
	for _, f := range a.funcs {
		if isLockWrapperName(f.Name()) {
			continue
		}
		nAcq, nRel := map[string]int{}, map[string]int{}
		type acq struct {
			cons string
			in   ssa.Instruction
			bad  string
		}
		acqs := map[ssa.Instruction]*acq{}
		for _, vr := range a.variantsOf(f) {
			a.selectVariant(f, vr)
			nAcq, nRel = map[string]int{}, map[string]int{}
			a.visit(f, func(in ssa.Instruction, st *lstate) {
				for _, op := range a.opsOf(in) {
					k := lkey{a.canon(f, op.key.s), op.field}
					short := op.class
					if op.acquire && !op.defer_ {
						nAcq[short]++
						if acqs[in] == nil {
							acqs[in] = &acq{cons: fmt.Sprintf("%s acquire %s(%s)#%d", funcName(f), short, op.mode, acqOrdinal(f, in, a)), in: in}
						}
						continue
					}
					if op.acquire {
						continue
					}
					nRel[short]++
					kind := "release"
					if op.defer_ {
						kind = "deferred-release"
					}
					cons := fmt.Sprintf("%s %s %s(%s)#%d", funcName(f), kind, short, op.mode, acqOrdinal(f, in, a))
					h, isMust := st.must[k]
					_, isMay := st.may[k]
					switch {
					case !isMay:
						if f.Parent() == nil && op.key.param >= 0 && !isEntryPoint(f) {
							// internal helper releasing its caller's lock: an unlock wrapper by another name
							rc.good(cons, in.Pos(), "releases a lock of its parameter (summarised as net release for callers)")
						} else {
							rc.bad(cons, in.Pos(), "releases "+k.String()+" which is not held here: the runtime reports 'unlock of unlocked mutex' (fatal)")
						}
					case !isMust:
						rc.bad(cons, in.Pos(), "releases "+k.String()+" which is held only on some of the paths reaching this point")
					case h.mode != op.mode:
						rc.bad(cons, in.Pos(), fmt.Sprintf("releases %s with %s although it was acquired in mode %s", k.String(), unlockName(op.mode), h.mode))
					default:
						rc.good(cons, in.Pos(), "held in the matching mode")
					}
				}
				if r, ok := in.(*ssa.Return); ok {
					for k, h := range st.may {
						if ac := acqs[h.site]; ac != nil && ac.bad == "" {
							how := "on every path"
							if _, m := st.must[k]; !m {
								how = "on some path"
							}
							ac.bad = fmt.Sprintf("%s is still held %s when the function returns at %s: every later request for it blocks forever", k.String(), how, rc.C.pos(r.Pos()))
						}
					}
				}
			})
		}
		var list []*acq
		for _, ac := range acqs {
			list = append(list, ac)
		}
		sort.Slice(list, func(i, j int) bool { return list[i].cons < list[j].cons })
		for _, ac := range list {
			if ac.bad != "" {
				rc.bad(ac.cons, ac.in.Pos(), ac.bad)
			} else {
				rc.good(ac.cons, ac.in.Pos(), "released on every path to every return")
			}
		}
	}
}

func unlockName(m lockMode) string {
	if m == modeW {
		return "Unlock"
	}
	return "RUnlock"
}

// orderClass merges the per-struct classes into ordering classes (all memfs node kinds share baseNode.mu).
func orderClass(c string, k okey) string {
	if c != "memfs.baseNode.mu" {
		return c
	}
	if n := namedOf(k.typ); n != nil {
		switch nm(n.Obj()) {
		case "fileNode":
			return "memfs.fileNode.mu"
		case "symlinkNode":
			return "memfs.symlinkNode.mu"
		}
	}
	// *dirNode, or the node interface (which may hold a directory): the only kind that has children
	return "memfs.dirNode.mu"
}

type orderEdge struct {
	from, to   string
	fn         *ssa.Function
	site       ssa.Instruction
	hkey, akey okey
	hsite      ssa.Instruction
	via        *ssa.Function
	fact       []Fact
	gates      map[string]bool // classes of other locks certainly held in W mode at the request
	hk         lkey
}

// childrenParent: the object whose `children` map root was looked up / ranged over to obtain v; "" if none.
func childrenParent(v ssa.Value) (string, bool) {
	for i := 0; i < 8 && v != nil; i++ {
		switch x := v.(type) {
		case *ssa.TypeAssert:
			v = x.X
		case *ssa.ChangeInterface:
			v = x.X
		case *ssa.MakeInterface:
			v = x.X
		case *ssa.Extract:
			v = x.Tuple
		case *ssa.Next:
			v = x.Iter
		case *ssa.Range:
			v = x.X
		case *ssa.Lookup:
			v = x.X
			if ld, ok := v.(*ssa.UnOp); ok && ld.Op == token.MUL {
				if fa, ok := ld.X.(*ssa.FieldAddr); ok && fieldName(fa.X.Type(), fa.Field) == "children" {
					return objKeyOf(fa.X).s, true
				}
			}
			return "", false
		case *ssa.UnOp:
			if x.Op == token.MUL {
				if fa, ok := x.X.(*ssa.FieldAddr); ok && fieldName(fa.X.Type(), fa.Field) == "children" {
					return objKeyOf(fa.X).s, true
				}
				if al, ok := x.X.(*ssa.Alloc); ok {
					vals, entry := reachingStores(al, x)
					if !entry && len(vals) == 1 {
						v = vals[0]
						continue
					}
				}
			}
			return "", false
		default:
			return "", false
		}
	}
	return "", false
}

// walkPair: h and a are results #0 (parent) and #1 (child) of the same call.
func walkPair(h, a okey) bool {
	he, ok1 := stripToExtract(h.root)
	ae, ok2 := stripToExtract(a.root)
	return ok1 && ok2 && he.Tuple == ae.Tuple && he.Index == 0 && ae.Index == 1
}

func stripToExtract(v ssa.Value) (*ssa.Extract, bool) {
	for i := 0; i < 6 && v != nil; i++ {
		switch x := v.(type) {
		case *ssa.Extract:
			if _, isCall := x.Tuple.(*ssa.Call); isCall {
				return x, true
			}
			return nil, false
		case *ssa.TypeAssert:
			v = x.X
		case *ssa.ChangeInterface:
			v = x.X
		case *ssa.MakeInterface:
			v = x.X
		default:
			return nil, false
		}
	}
	return nil, false
}

// distinctFact: a dominating test establishes that the two objects are different.
func distinctFact(at ssa.Instruction, h, a okey) bool {
	for _, fa := range factsAt(at.Block()) {
		v, truth := normCond(fa.Cond, fa.Truth)
		b, ok := v.(*ssa.BinOp)
		if !ok || (b.Op != token.EQL && b.Op != token.NEQ) {
			continue
		}
		kx, ky := objKeyOf(b.X).s, objKeyOf(b.Y).s
		if !((kx == h.s && ky == a.s) || (kx == a.s && ky == h.s)) {
			continue
		}
		if (b.Op == token.NEQ && truth) || (b.Op == token.EQL && !truth) {
			return true
		}
	}
	return false
}

func c07Order(rc *RuleCtx) {
	a := lockAnalysisFor(rc.C)
	var edges []orderEdge
	type recur struct {
		fn   *ssa.Function
		site ssa.Instruction
		k    lkey
		h    held
		mode lockMode
		via  *ssa.Function
	}
	var recurs []recur
	for _, f := range a.funcs {
		if isLockWrapperName(f.Name()) {
			continue
		}
		for _, vr := range a.variantsOf(f) {
			a.selectVariant(f, vr)
			a.visit(f, func(in ssa.Instruction, st *lstate) {
				type ev struct {
					key   okey
					field string
					class string
					mode  lockMode
					via   *ssa.Function
				}
				var evs []ev
				for _, op := range a.opsOf(in) {
					if op.acquire && !op.defer_ {
						evs = append(evs, ev{op.key, op.field, op.class, op.mode, op.via})
					}
				}
				// acquisitions inside callees (net-zero ones included)
				if c, ok := in.(ssa.CallInstruction); ok {
					if _, isDefer := in.(*ssa.Defer); !isDefer {
						args := c.Common().Args
						if c.Common().IsInvoke() {
							args = append([]ssa.Value{c.Common().Value}, args...)
						}
						for _, callee := range a.calleesOf(c) {
							if isLockWrapperName(callee.Name()) {
								continue
							}
							for _, sl := range a.sums[callee].acquires {
								if sl.param >= len(args) {
									continue
								}
								k := objKeyOf(args[sl.param])
								k.s += sl.chain
								evs = append(evs, ev{k, sl.field, sl.class, sl.mode, callee})
							}
						}
					}
				}
				for _, e := range evs {
					k := lkey{a.canon(f, e.key.s), e.field}
					for hk, h := range st.may {
						if hk == k {
							recurs = append(recurs, recur{f, in, k, h, e.mode, e.via})
							continue
						}
						gates := map[string]bool{}
						for gk, g := range st.must {
							if gk != hk && gk != k && g.mode == modeW {
								gates[g.class] = true
							}
						}
						edges = append(edges, orderEdge{from: orderClass(h.class, h.key), to: orderClass(e.class, e.key), fn: f, site: in, hkey: h.key, akey: e.key, hsite: h.site, via: e.via, gates: gates, hk: hk})
					}
				}
			})
		}
	}
	// (3) recursion / self-lock
	seenR := map[string]bool{}
	for _, r := range recurs {
		via := ""
		if r.via != nil {
			via = " inside " + funcName(r.via)
		}
		cons := fmt.Sprintf("%s reacquire %s.%s%s", funcName(r.fn), prettyKey(r.h.key), r.k.field, via)
		if seenR[cons] {
			continue
		}
		seenR[cons] = true
		what := "requests " + r.k.String() + " (" + r.mode.String() + ")" + via + " while it may already hold it (acquired at " + rc.C.pos(r.h.site.Pos()) + ", mode " + r.h.mode.String() + ")"
		if r.mode == modeR && r.h.mode == modeR {
			what += ": a recursive read lock deadlocks as soon as a writer queues between the two requests"
		} else {
			what += ": the goroutine blocks on itself"
		}
		rc.bad(cons, r.site.Pos(), what)
	}
	// class graph
	adj := map[string]map[string][]orderEdge{}
	for _, e := range edges {
		if adj[e.from] == nil {
			adj[e.from] = map[string][]orderEdge{}
		}
		adj[e.from][e.to] = append(adj[e.from][e.to], e)
	}
	reach := func(from, to string) bool {
		seen := map[string]bool{}
		var dfs func(x string) bool
		dfs = func(x string) bool {
			if x == to {
				return true
			}
			if seen[x] {
				return false
			}
			seen[x] = true
			for y := range adj[x] {
				if y != x && dfs(y) {
					return true
				}
			}
			return false
		}
		for y := range adj[from] {
			if y != from && dfs(y) {
				return true
			}
		}
		return false
	}
	seenE := map[string]bool{}
	for _, e := range edges {
		via := ""
		if e.via != nil {
			via = " via " + funcName(e.via)
		}
		if e.from != e.to {
			cons := fmt.Sprintf("%s order %s -> %s%s", funcName(e.fn), e.from, e.to, via)
			if seenE[cons] {
				continue
			}
			seenE[cons] = true
			if reach(e.to, e.from) {
				// name one opposing function
				opp := ""
				for _, oe := range adj[e.to][e.from] {
					opp = funcName(oe.fn) + " (" + rc.C.pos(oe.site.Pos()) + ")"
					break
				}
				if opp == "" {
					opp = "a chain of other functions"
				}
				rc.bad(cons, e.site.Pos(), fmt.Sprintf("requests %s while holding %s; %s takes them in the opposite order: two goroutines can block each other forever", e.to, e.from, opp))
			} else {
				rc.good(cons, e.site.Pos(), "the class graph has no path back from "+e.to+" to "+e.from)
			}
			continue
		}
		// same class
		cons := fmt.Sprintf("%s order %s: %s then %s%s", funcName(e.fn), e.from, prettyKey(e.hkey), prettyKey(e.akey), via)
		if seenE[cons] {
			continue
		}
		seenE[cons] = true
		if len(e.gates) > 0 {
			var g []string
			for c := range e.gates {
				g = append(g, c)
			}
			sort.Strings(g)
			rc.good(cons, e.site.Pos(), "both requests are made under the write lock "+strings.Join(g, ",")+" (gate): no second goroutine can be between them")
			continue
		}
		how, ok := a.sameClassOrdered(e, e.akey.root, 0)
		if ok {
			rc.good(cons, e.site.Pos(), how)
		} else {
			rc.bad(cons, e.site.Pos(), how)
			// an unordered pair has a second, independent obligation: the two objects are not the same one
			if !walkPair(e.hkey, objKeyOf(e.akey.root)) {
				dcons := cons + " distinct"
				if distinctFact(e.site, e.hkey, e.akey) {
					rc.good(dcons, e.site.Pos(), "the two objects were compared and the second lock is requested only when they differ")
				} else {
					rc.bad(dcons, e.site.Pos(), "nothing establishes that "+prettyKey(e.hkey)+" and "+prettyKey(e.akey)+" are different objects: when they are the same one the goroutine blocks on itself")
				}
			}
		}
	}
}

// sameClassOrdered justifies requesting the lock of object `av` while the lock e.hk of the same class may be held.
func (a *lockAnalysis) sameClassOrdered(e orderEdge, av ssa.Value, depth int) (string, bool) {
	ak := objKeyOf(av)
	if ak.fresh {
		return "the second object was allocated by this call and is not yet reachable by others", true
	}
	if p, ok := childrenParent(av); ok && a.canon(e.fn, p) == a.canon(e.fn, e.hkey.s) {
		return "parent before child: the second object was obtained from the first one's children", true
	}
	if walkPair(e.hkey, ak) {
		if distinctFact(e.site, e.hkey, ak) {
			return "(parent, child) results of one walk, tested to be distinct", true
		}
		return "the (parent, child) results of the walk can be the same object (the walk returns the root as its own parent): locking both blocks the goroutine on itself", false
	}
	// a phi: every incoming value must be justified, unless the first lock cannot be held on that edge
	if phi, ok := stripIface(av).(*ssa.Phi); ok && depth < 3 {
		hReach := reachableFrom(phi.Block())[e.hsite.Block()]
		for i, edge := range phi.Edges {
			pred := phi.Block().Preds[i]
			if !hReach {
				out := a.stateAtEnd(pred)
				if _, heldThere := out.may[e.hk]; !heldThere {
					continue // on this edge the first lock is not held
				}
			}
			if how, ok := a.sameClassOrdered(e, edge, depth+1); !ok {
				return how, false
			}
		}
		return "every value that can reach the request while the first lock is held is a child of the first object (or fresh)", true
	}
	return "two locks of the same class are taken without a parent-before-child relation between the objects: two goroutines working on the same pair in opposite roles block each other forever", false
}

func stripIface(v ssa.Value) ssa.Value {
	for i := 0; i < 6; i++ {
		switch x := v.(type) {
		case *ssa.TypeAssert:
			v = x.X
		case *ssa.ChangeInterface:
			v = x.X
		case *ssa.MakeInterface:
			v = x.X
		case *ssa.Extract:
			if ta, ok := x.Tuple.(*ssa.TypeAssert); ok {
				v = ta.X
			} else {
				return v
			}
		default:
			return v
		}
	}
	return v
}

// stateAtEnd: the lock state at the end of block b.
func (a *lockAnalysis) stateAtEnd(b *ssa.BasicBlock) *lstate {
	st0, ok := a.blockIn[b.Parent()][b]
	if !ok {
		return newState()
	}
	st := st0.clone()
	for _, in := range b.Instrs {
		a.apply(st, in)
	}
	return st
}

// acqOrdinal: ordinal of a lock operation among the lock operations of its function, in source order (stable key).
func acqOrdinal(f *ssa.Function, at ssa.Instruction, a *lockAnalysis) int {
	var poss []token.Pos
	eachInstr(f, func(in ssa.Instruction) {
		if len(a.opsOf(in)) > 0 {
			poss = append(poss, in.Pos())
		}
	})
	sort.Slice(poss, func(i, j int) bool { return poss[i] < poss[j] })
	for i, p := range poss {
		if p == at.Pos() {
			return i + 1
		}
	}
	return 0
}
