package main

import (
	"fmt"
	"go/constant"
	"go/token"
	"go/types"
	"strings"

	"golang.org/x/tools/go/ssa"
)

// Rules added after the fifth set of independent changes (optimisations and sibling inconsistencies).

func init() {
	register(&Rule{ID: "C06.stale", Floor: 3, Also: []string{"C05"},
		Text: "OrefaFS: a node whose entry map is updated inside a critical section of the index lock (the directory handed to createDir / createFile / addChild) was looked up in the index inside that same critical section, or created in it: a directory found before the write lock was taken can have been removed meanwhile, and an entry created below it is reachable by its path while its directory is not (orphan in the path index)",
		Run:  c06Stale})
}

func c06Stale(rc *RuleCtx) {
	a := lockAnalysisFor(rc.C)
	pkgs := map[string]bool{"orefafs": true}
	prims := computeMapPrims(rc.C, a, map[string]bool{"memfs": true, "orefafs": true})
	for _, f := range a.funcs {
		if f.Pkg == nil || !pkgs[pkgShort[f.Pkg.Pkg.Path()]] || !isEntryPoint(f) || f.Signature.Recv() == nil {
			continue
		}
		if n := namedOf(f.Signature.Recv().Type()); n == nil || n.Obj().Name() != "OrefaFS" {
			continue
		}
		seq := map[string]int{}
		eachCall(f, func(ci ssa.CallInstruction) {
			args := ci.Common().Args
			for _, callee := range a.calleesOf(ci) {
				if isEntryPoint(callee) {
					continue
				}
				done := map[int]bool{}
				for _, p := range prims[callee] {
					if p.mapField != "children" || p.del || p.objParam >= len(args) || p.objParam == 0 || done[p.objParam] {
						continue
					}
					done[p.objParam] = true
					arg := args[p.objParam]
					base := fmt.Sprintf("%s directory handed to %s", funcName(f), nm(callee))
					seq[base]++
					cons := base
					if seq[base] > 1 {
						cons = fmt.Sprintf("%s#%d", base, seq[base])
					}
					var vr = a.variantsOf(f)[0]
					a.selectVariant(f, vr)
					st := a.stateBefore(ci)
					if st == nil {
						continue
					}
					var h held
					found := false
					for _, hh := range st.must {
						if hh.mode == modeW && strings.HasSuffix(hh.class, "OrefaFS.mu") {
							h, found = hh, true
						}
					}
					if !found {
						rc.bad(cons, ci.Pos(), "the entry map of the directory is updated without the index write lock held (see C06.cta)")
						continue
					}
					bad := ""
					n := 0
					for _, rv := range originsOf(arg) {
						n++
						switch x := rv.(type) {
						case *ssa.Extract:
							if l, ok := x.Tuple.(*ssa.Lookup); ok && isIndexLookup(l) {
								if !domInstr(h.site, l) {
									bad = "looked up at " + rc.C.pos(l.Pos()) + ", before the write lock was taken at " + rc.C.pos(h.site.Pos())
								}
								continue
							}
						case *ssa.Lookup:
							if isIndexLookup(x) {
								if !domInstr(h.site, x) {
									bad = "looked up at " + rc.C.pos(x.Pos()) + ", before the write lock was taken at " + rc.C.pos(h.site.Pos())
								}
								continue
							}
						case *ssa.Call:
							// created by this call inside the section
							if fn := x.Call.StaticCallee(); fn != nil && !isEntryPoint(fn) && domInstr(h.site, x) {
								if _, isPtr := x.Type().(*types.Pointer); isPtr {
									continue
								}
							}
						case *ssa.Alloc:
							continue
						}
						bad = "its origin (" + prettyVal(rv, 0) + ") is not a lookup of the index inside the critical section"
					}
					if n == 0 {
						bad = "its origin cannot be resolved"
					}
					if bad != "" {
						rc.bad(cons, ci.Pos(), "the directory whose entries are updated was "+bad+": it can have been removed from the index in between, and the new entry would be an orphan")
					} else {
						rc.good(cons, ci.Pos(), "looked up (or created) inside the critical section of the index write lock")
					}
				}
			}
		})
	}
}

// isIndexLookup: l reads the path index (field nodes) of a file system.
func isIndexLookup(l *ssa.Lookup) bool {
	ld, ok := stripCT(l.X).(*ssa.UnOp)
	if !ok || ld.Op != token.MUL {
		return false
	}
	fa, ok := ld.X.(*ssa.FieldAddr)
	return ok && fieldName(fa.X.Type(), fa.Field) == "nodes"
}

// originsOf: the defining values of v, through phis, cells and conversions (leaves only).
func originsOf(v ssa.Value) []ssa.Value {
	var out []ssa.Value
	seen := map[ssa.Value]bool{}
	var walk func(v ssa.Value, d int)
	walk = func(v ssa.Value, d int) {
		v = strip(v)
		if v == nil || seen[v] || d > 12 {
			return
		}
		seen[v] = true
		if ph, ok := v.(*ssa.Phi); ok {
			dead := phiDeadEdges(ph)
			for i, e := range ph.Edges {
				if !dead[i] {
					walk(e, d+1)
				}
			}
			return
		}
		rs := resolve(v)
		if len(rs) == 0 || (len(rs) == 1 && strip(rs[0]) == v) {
			out = append(out, v)
			return
		}
		for _, r := range rs {
			walk(r, d+1)
		}
	}
	walk(v, 0)
	return out
}

func init() {
	register(&Rule{ID: "C03.list", Floor: 2, Also: []string{"C14"},
		Text: "MemFS: the entries of a directory are enumerated (a call of a listing helper of the directory node: a method that ranges over the children map and returns a slice) only by methods of an open handle - whose opening tested read permission on the directory, C03.matrix (6) - or after checkPermission(OpenRead) succeeded on that directory on every path to the call: a path-level short cut that lists the node found by the walk would show the names in a directory the user may search but not read",
		Run:  c03List})
}

func c03List(rc *RuleCtx) {
	rd := openModeBit(rc.C, "OpenRead")
	if rd <= 0 {
		rc.anchor("avfs.OpenRead")
		return
	}
	funcs := rc.C.srcFuncs("memfs")
	// listing helpers
	helpers := map[*ssa.Function]bool{}
	for _, g := range funcs {
		if isEntryPoint(g) || g.Signature.Recv() == nil || len(g.Params) == 0 {
			continue
		}
		if n := namedOf(g.Signature.Recv().Type()); n == nil || n.Obj().Name() != "dirNode" {
			continue
		}
		slice := false
		for i := 0; i < g.Signature.Results().Len(); i++ {
			if _, ok := g.Signature.Results().At(i).Type().Underlying().(*types.Slice); ok {
				slice = true
			}
		}
		if !slice {
			continue
		}
		ranges := false
		eachInstr(g, func(in ssa.Instruction) {
			rg, ok := in.(*ssa.Range)
			if !ok {
				return
			}
			for _, o := range originsOf(rg.X) {
				if ld, ok := o.(*ssa.UnOp); ok && ld.Op == token.MUL {
					if fa, ok := ld.X.(*ssa.FieldAddr); ok && fieldName(fa.X.Type(), fa.Field) == "children" {
						ranges = true
					}
				}
			}
		})
		if ranges {
			helpers[g] = true
		}
	}
	if len(helpers) == 0 {
		rc.anchor("memfs: listing helpers of dirNode")
		return
	}
	callers := map[*ssa.Function][]string{}
	bad := map[*ssa.Function]bool{}
	for _, f := range funcs {
		eachCall(f, func(ci ssa.CallInstruction) {
			g := ci.Common().StaticCallee()
			if g == nil || !helpers[g] {
				return
			}
			if f.Signature.Recv() != nil {
				if n := namedOf(f.Signature.Recv().Type()); n != nil && n.Obj().Name() == "MemFile" {
					callers[g] = append(callers[g], funcName(f)+" (open handle)")
					return
				}
			}
			recv := ci.Common().Args[0]
			keys, _ := nonFreshKeys(recv)
			keys = append(keys, objKeyOf(recv).s)
			paths, complete := pathsTo(f, ci, 3000)
			ok := complete && len(paths) > 0
			for _, p := range paths {
				if !feasiblePath(p) {
					continue
				}
				if !permCheckedOnPath(p, keys, rd, nil) {
					ok = false
				}
			}
			if ok {
				callers[g] = append(callers[g], funcName(f)+" (after checkPermission(OpenRead))")
			} else {
				bad[g] = true
				rc.bad(fmt.Sprintf("%s lists a directory", funcName(f)), ci.Pos(), "calls "+nm(g)+" on a directory node without a successful checkPermission(OpenRead) on it on every path, and not from an open handle: the names in a directory the user cannot read are returned")
			}
		})
	}
	for g := range helpers {
		if !bad[g] {
			rc.good(funcName(g)+" callers", g.Pos(), fmt.Sprintf("%d callers: %s", len(callers[g]), strings.Join(callers[g], ", ")))
		}
	}
}

func init() {
	register(&Rule{ID: "C14.fresh", Floor: 2, Also: []string{"C01", "C05"},
		Text: "a listing is computed when it is asked for: in every listing helper of a directory node of MemFS and OrefaFS (a method that ranges over the children map and returns a slice), each return of a slice of entries (not of bare names) that may be non-nil is dominated by the enumeration of the children map made by that call - a listing kept in the node and handed out again shows the size, mode and link count the children had when it was built (and ReadDir then disagrees with Lstat)",
		Run:  c14Fresh})
}

// listingHelpers: unexported methods of the directory node type of pkg that range over the children map of their
// receiver and return a slice.
func listingHelpers(rc *RuleCtx, pkg string, recvNames map[string]bool) map[*ssa.Function][]*ssa.Range {
	out := map[*ssa.Function][]*ssa.Range{}
	for _, g := range rc.C.srcFuncs(pkg) {
		if isEntryPoint(g) || g.Signature.Recv() == nil || len(g.Params) == 0 {
			continue
		}
		if n := namedOf(g.Signature.Recv().Type()); n == nil || !recvNames[n.Obj().Name()] {
			continue
		}
		slice := false
		for i := 0; i < g.Signature.Results().Len(); i++ {
			if _, ok := g.Signature.Results().At(i).Type().Underlying().(*types.Slice); ok {
				slice = true
			}
		}
		if !slice {
			continue
		}
		eachInstr(g, func(in ssa.Instruction) {
			rg, ok := in.(*ssa.Range)
			if !ok {
				return
			}
			for _, o := range originsOf(rg.X) {
				if ld, ok := o.(*ssa.UnOp); ok && ld.Op == token.MUL {
					if fa, ok := ld.X.(*ssa.FieldAddr); ok && fieldName(fa.X.Type(), fa.Field) == "children" {
						out[g] = append(out[g], rg)
					}
				}
			}
		})
	}
	return out
}

func c14Fresh(rc *RuleCtx) {
	for _, t := range []struct {
		pkg   string
		recvs map[string]bool
	}{{"memfs", map[string]bool{"dirNode": true}}, {"orefafs", map[string]bool{"node": true}}} {
		hs := listingHelpers(rc, t.pkg, t.recvs)
		if len(hs) == 0 {
			rc.anchor(t.pkg + ": listing helpers of the directory node")
			continue
		}
		for g, ranges := range hs {
			n := 0
			for _, r := range returnsOf(g) {
				for i, res := range r.Results {
					st, ok := g.Signature.Results().At(i).Type().Underlying().(*types.Slice)
					if !ok {
						continue
					}
					if b, isBasic := st.Elem().Underlying().(*types.Basic); isBasic && b.Info()&types.IsString != 0 {
						continue // names change only with the key set of the map: keeping them is not observable sequentially (C08 decides the locking)
					}
					n++
					cons := fmt.Sprintf("%s return#%d computed from the children map", funcName(g), n)
					allNil := true
					for _, o := range originsOf(res) {
						if k, ok := o.(*ssa.Const); !ok || !k.IsNil() {
							allNil = false
						}
					}
					if allNil {
						rc.good(cons, r.Pos(), "returns nil (empty directory)")
						continue
					}
					dom := false
					for _, rg := range ranges {
						if domInstr(rg, r) {
							dom = true
						}
					}
					if dom {
						rc.good(cons, r.Pos(), "dominated by the enumeration of the children map")
					} else {
						rc.bad(cons, r.Pos(), "a listing is returned on a path that did not enumerate the children map in this call: it comes from state kept from an earlier call, and shows the attributes the children had then")
					}
				}
			}
		}
	}
}

func init() {
	register(&Rule{ID: "C05.subtree", Floor: 2, Also: []string{"C11", "C03"},
		Text: "MemFS: a directory node is released (delete) by the recursive-removal family (functions that call the recursive remover) only on paths on which the recursive remover was called on it or it was found empty: no path from the successful `child.(*dirNode)` assertion to the release avoids both - a directory unlinked with its content intact leaves every file below it with its link count, and views rooted below it, or hard links kept elsewhere, go on showing what was removed",
		Run:  c05Subtree})
}

func c05Subtree(rc *RuleCtx) {
	funcs := rc.C.srcFuncs("memfs")
	// the recursive remover: an unexported function that calls itself and takes a directory node
	var rec *ssa.Function
	for _, g := range funcs {
		if isEntryPoint(g) {
			continue
		}
		self := false
		eachCall(g, func(ci ssa.CallInstruction) {
			if ci.Common().StaticCallee() == g {
				self = true
			}
		})
		if !self {
			continue
		}
		for _, p := range g.Params[1:] {
			if n := namedOf(p.Type()); n != nil && n.Obj().Name() == "dirNode" {
				rec = g
			}
		}
	}
	if rec == nil {
		rc.anchor("memfs: recursive remover")
		return
	}
	isRecOn := func(in ssa.Instruction, obj ssa.Value) bool {
		c, ok := in.(ssa.CallInstruction)
		if !ok || c.Common().StaticCallee() != rec {
			return false
		}
		for _, a := range c.Common().Args {
			for _, o := range originsOf(a) {
				if o == obj {
					return true
				}
			}
		}
		return false
	}
	for _, f := range funcs {
		callsRec := false
		eachCall(f, func(ci ssa.CallInstruction) {
			if ci.Common().StaticCallee() == rec {
				callsRec = true
			}
		})
		if !callsRec {
			continue
		}
		n := 0
		eachCall(f, func(ci ssa.CallInstruction) {
			fn := calleeFunc(ci)
			if fn == nil || nm(fn) != "delete" {
				return
			}
			recv := callRecv(ci)
			if recv == nil {
				return
			}
			n++
			cons := fmt.Sprintf("%s release#%d of a node that may be a directory", funcName(f), n)
			// a statically typed directory: the remover must have been called on it, or it is the volume root handled whole
			var tas []*ssa.TypeAssert
			rv := stripIface(strip(recv))
			eachInstr(f, func(in ssa.Instruction) {
				ta, ok := in.(*ssa.TypeAssert)
				if !ok || !ta.CommaOk {
					return
				}
				if nn := namedOf(ta.AssertedType); nn == nil || nn.Obj().Name() != "dirNode" {
					return
				}
				if stripIface(strip(ta.X)) == rv || sameValue(ta.X, recv) {
					tas = append(tas, ta)
				}
			})
			if _, isIface := recv.Type().Underlying().(*types.Interface); !isIface {
				if nn := namedOf(recv.Type()); nn == nil || nn.Obj().Name() != "dirNode" {
					rc.good(cons, ci.Pos(), "statically not a directory")
					return
				}
				// *dirNode receiver: the remover dominates the release
				ok := false
				eachInstr(f, func(in ssa.Instruction) {
					if isRecOn(in, strip(recv)) && domInstr(in, ci) {
						ok = true
					}
				})
				if ok {
					rc.good(cons, ci.Pos(), "the recursive remover was called on it before")
				} else {
					rc.bad(cons, ci.Pos(), "a directory node is released without the recursive remover having been called on it")
				}
				return
			}
			if len(tas) == 0 {
				rc.bad(cons, ci.Pos(), "the node is released without its kind having been looked at: a directory would be released with its content intact")
				return
			}
			bad := ""
			for _, ta := range tas {
				var dirV, okV ssa.Value
				for _, u := range referrersOf(ta) {
					if e, ok := u.(*ssa.Extract); ok {
						if e.Index == 0 {
							dirV = e
						} else {
							okV = e
						}
					}
				}
				if okV == nil {
					bad = "the outcome of the kind test is not used"
					continue
				}
				// the branch on ok
				for _, b := range f.Blocks {
					ifi, isIf := b.Instrs[len(b.Instrs)-1].(*ssa.If)
					if !isIf {
						continue
					}
					c, truth := normCond(ifi.Cond, true)
					if c != okV {
						continue
					}
					start := b.Succs[0]
					if !truth {
						start = b.Succs[1]
					}
					// search a path start -> release avoiding the remover on dirV and the 'empty' outcome
					seen := map[*ssa.BasicBlock]bool{}
					var reach func(bb *ssa.BasicBlock) bool
					reach = func(bb *ssa.BasicBlock) bool {
						if seen[bb] {
							return false
						}
						seen[bb] = true
						for _, in := range bb.Instrs {
							if in == ssa.Instruction(ci.(ssa.Instruction)) {
								return true
							}
							if dirV != nil && isRecOn(in, dirV) {
								return false
							}
						}
						last := bb.Instrs[len(bb.Instrs)-1]
						if ii, ok := last.(*ssa.If); ok {
							for k, s := range bb.Succs {
								cv, tr := normCond(ii.Cond, k == 0)
								if emptyOutcome(cv, tr, dirV) {
									continue
								}
								if reach(s) {
									return true
								}
							}
							return false
						}
						for _, s := range bb.Succs {
							if reach(s) {
								return true
							}
						}
						return false
					}
					if reach(start) {
						bad = "a path from the successful `.(*dirNode)` test (" + rc.C.pos(ta.Pos()) + ") reaches the release without the recursive remover having been called on the directory and without it having been found empty"
					}
				}
			}
			if bad != "" {
				rc.bad(cons, ci.Pos(), bad+": the content of the directory stays linked")
			} else {
				rc.good(cons, ci.Pos(), "every path from the directory test to the release passes through the recursive remover or the empty test")
			}
		})
	}
}

// emptyOutcome: the branch outcome (cond == truth) states that len(dir.children) is 0.
func emptyOutcome(c ssa.Value, truth bool, dir ssa.Value) bool {
	for _, o := range originsOf(c) {
		b, ok := o.(*ssa.BinOp)
		if !ok {
			continue
		}
		var lenSide, other ssa.Value = b.X, b.Y
		if _, isC := strip(lenSide).(*ssa.Const); isC {
			lenSide, other = b.Y, b.X
		}
		k, isC := constInt(other)
		if !isC || k != 0 {
			continue
		}
		call, ok := strip(lenSide).(*ssa.Call)
		if !ok {
			continue
		}
		if bi, ok := call.Call.Value.(*ssa.Builtin); !ok || bi.Name() != "len" {
			continue
		}
		ld, ok := strip(call.Call.Args[0]).(*ssa.UnOp)
		if !ok || ld.Op != token.MUL {
			continue
		}
		fa, ok := ld.X.(*ssa.FieldAddr)
		if !ok || fieldName(fa.X.Type(), fa.Field) != "children" {
			continue
		}
		if dir != nil {
			same := false
			for _, oo := range originsOf(fa.X) {
				if oo == dir {
					same = true
				}
			}
			if !same {
				continue
			}
		}
		switch b.Op {
		case token.EQL:
			return truth
		case token.NEQ, token.GTR:
			return !truth
		}
	}
	return false
}

func init() {
	register(&Rule{ID: "C04.walked", Floor: 10, Also: []string{"C01"},
		Text: "MemFS: a path-taking call answers success only after it walked the path: in every exported method listed in the follow/no-follow table that walks one of its path parameters, no path from the entry to a return whose error may be nil avoids every walk of that method (a short cut that answers from state kept earlier - the working directory, a cache - returns names that were renamed, removed or replaced by links since)",
		Run:  c04Walked})
}

func c04Walked(rc *RuleCtx) {
	search := rc.C.method("memfs", "MemFS", "searchNode")
	if search == nil {
		rc.anchor("memfs.(*MemFS).searchNode")
		return
	}
	for name, f := range rc.C.methodsOf("memfs", "MemFS") {
		if !isEntryPoint(f) {
			continue
		}
		if _, listed := c04Expect[name]; !listed {
			continue
		}
		walkBlocks := map[*ssa.BasicBlock]bool{}
		eachCall(f, func(ci ssa.CallInstruction) {
			switch sc := ci.Common().StaticCallee(); {
			case sc == search:
				walkBlocks[ci.Block()] = true
			case sc != nil && sc.Pkg == f.Pkg && !isEntryPoint(sc) && len(sc.Blocks) > 0:
				if _, _, ok := walkThroughHelper(sc, search, ci); ok {
					walkBlocks[ci.Block()] = true
				}
			}
		})
		if len(walkBlocks) == 0 {
			continue // delegates to another method (judged there)
		}
		ei := errResultIndex(f.Signature)
		if ei < 0 {
			continue
		}
		n := 0
		for _, r := range returnsOf(f) {
			mayNil := false
			for _, o := range originsOf(r.Results[ei]) {
				if k, ok := o.(*ssa.Const); ok && k.IsNil() {
					mayNil = true
				}
			}
			if !mayNil {
				continue
			}
			n++
			cons := fmt.Sprintf("%s success#%d after the walk", funcName(f), n)
			seen := map[*ssa.BasicBlock]bool{}
			var reach func(b *ssa.BasicBlock) bool
			reach = func(b *ssa.BasicBlock) bool {
				if seen[b] || walkBlocks[b] {
					return false
				}
				seen[b] = true
				if b == r.Block() {
					return true
				}
				ifi, isIf := b.Instrs[len(b.Instrs)-1].(*ssa.If)
				for k, s := range b.Succs {
					if isIf {
						// the empty path names nothing: os answers without looking (RemoveAll("") is nil)
						if cv, tr := normCond(ifi.Cond, k == 0); isEmptyStringTest(cv, tr, f) {
							continue
						}
					}
					if reach(s) {
						return true
					}
				}
				return false
			}
			if reach(f.Blocks[0]) {
				rc.bad(cons, r.Pos(), "a return that reports success is reachable without any walk of the path: the answer does not come from the tree as it is now")
			} else {
				rc.good(cons, r.Pos(), "every path to this return passes through a walk")
			}
		}
	}
}

// isEmptyStringTest: the outcome states that a string parameter of f is "".
func isEmptyStringTest(c ssa.Value, truth bool, f *ssa.Function) bool {
	b, ok := c.(*ssa.BinOp)
	if !ok || (b.Op != token.EQL && b.Op != token.NEQ) || (b.Op == token.EQL) != truth {
		return false
	}
	for _, pr := range [][2]ssa.Value{{b.X, b.Y}, {b.Y, b.X}} {
		k, isC := strip(pr[1]).(*ssa.Const)
		if !isC || k.Value == nil {
			continue
		}
		// p == ""
		if p, isP := strip(pr[0]).(*ssa.Parameter); isP && p.Parent() == f && k.Value.ExactString() == `""` {
			return true
		}
		// len(p) == 0
		if call, isCall := strip(pr[0]).(*ssa.Call); isCall {
			if bi, isB := call.Call.Value.(*ssa.Builtin); isB && bi.Name() == "len" && k.Value.ExactString() == "0" {
				if p, isP := strip(call.Call.Args[0]).(*ssa.Parameter); isP && p.Parent() == f {
					if bt, isBasic := p.Type().Underlying().(*types.Basic); isBasic && bt.Info()&types.IsString != 0 {
						return true
					}
				}
			}
		}
	}
	return false
}

func init() {
	register(&Rule{ID: "C16.delegate", Floor: 4,
		Text: "io.CopyBuffer hands the copy over to the destination's ReadFrom or the source's WriteTo when the file type has one: a file type of the module either has neither (the copy loop is io's own, whose error discipline C16.flow relies on), or the error of every Read / Write it makes on its argument reaches the error it returns (a failed read reported as success leaves a short destination and a nil error from CopyFile)",
		Run:  c16Delegate})
}

func c16Delegate(rc *RuleCtx) {
	fileIface := rc.C.named("avfs", "File")
	if fileIface == nil {
		rc.anchor("avfs.File")
		return
	}
	it, _ := fileIface.Underlying().(*types.Interface)
	for _, pk := range []string{"memfs", "orefafs", "rofs", "failfs", "basepathfs", "osfs"} {
		p := rc.C.pkg(pk)
		if p == nil {
			continue
		}
		sc := p.Types.Scope()
		for _, tn := range sc.Names() {
			obj, ok := sc.Lookup(tn).(*types.TypeName)
			if !ok {
				continue
			}
			named, ok := obj.Type().(*types.Named)
			if !ok || it == nil || !types.Implements(types.NewPointer(named), it) {
				continue
			}
			cons := fmt.Sprintf("%s.%s copy delegation", pk, tn)
			ms := rc.C.methodsOf(pk, tn)
			var dels []*ssa.Function
			for _, mn := range []string{"ReadFrom", "WriteTo"} {
				if m := ms[mn]; m != nil && len(m.Blocks) > 0 {
					dels = append(dels, m)
				}
			}
			if len(dels) == 0 {
				rc.good(cons, obj.Pos(), "no ReadFrom / WriteTo: the copy loop is io.CopyBuffer's own")
				continue
			}
			bad := ""
			for _, m := range dels {
				ei := errResultIndex(m.Signature)
				if ei < 0 || len(m.Params) < 2 {
					bad = nm(m) + " has an unexpected signature"
					continue
				}
				want := "Read"
				if m.Name() == "WriteTo" {
					want = "Write"
				}
				retOrigins := map[ssa.Value]bool{}
				for _, r := range returnsOf(m) {
					for _, o := range originsOf(r.Results[ei]) {
						retOrigins[o] = true
					}
				}
				n := 0
				eachCall(m, func(ci ssa.CallInstruction) {
					fn := calleeFunc(ci)
					if fn == nil || fn.Name() != want || !ci.Common().IsInvoke() {
						return
					}
					if ci.Common().Value != ssa.Value(m.Params[1]) {
						return
					}
					n++
					flows := false
					if v := ci.Value(); v != nil {
						for _, u := range referrersOf(v) {
							if e, ok := u.(*ssa.Extract); ok && e.Index == 1 && retOrigins[e] {
								flows = true
							}
						}
					}
					if !flows {
						bad = fmt.Sprintf("%s: the error of the %s at %s never reaches the error the method returns", funcName(m), want, rc.C.pos(ci.Pos()))
					}
				})
				if n == 0 {
					bad = funcName(m) + " makes no " + want + " on its argument that the rule can follow"
				}
			}
			if bad != "" {
				rc.bad(cons, dels[0].Pos(), bad+": io.CopyBuffer delegates the copy to this method, so CopyFile reports success for a copy that stopped on an error")
			} else {
				rc.good(cons, dels[0].Pos(), "the errors of the reads / writes made by ReadFrom / WriteTo reach its result")
			}
		}
	}
}

func init() {
	register(&Rule{ID: "C12.features", Floor: 1,
		Text: "FailFS advertises exactly the features of its base: its constructor stores baseFS.Features() unchanged (code that asks HasFeature before it acts - RndTree, the helpers that need symbolic or hard links - must behave through the wrapper as on the base)",
		Run:  c12Features})
}

func c12Features(rc *RuleCtx) {
	n := 0
	for _, f := range rc.C.srcFuncs("failfs") {
		if f.Signature.Recv() != nil || f.Parent() != nil {
			continue
		}
		eachCall(f, func(ci ssa.CallInstruction) {
			fn := calleeFunc(ci)
			if fn == nil || fn.Name() != "SetFeatures" {
				return
			}
			n++
			cons := fmt.Sprintf("%s SetFeatures#%d", funcName(f), n)
			args := callArgs(ci)
			if len(args) != 1 {
				return
			}
			c, _ := resultOfCall(resolve1(args[0]))
			if c != nil && calleeFunc(c) != nil && calleeFunc(c).Name() == "Features" && c.Common().IsInvoke() {
				if p, ok := strip(c.Common().Value).(*ssa.Parameter); ok && p.Parent() == f {
					rc.good(cons, ci.Pos(), "SetFeatures(baseFS.Features())")
					return
				}
			}
			rc.bad(cons, ci.Pos(), "the features stored by the constructor are not the base's features unchanged ("+prettyVal(args[0], 0)+"): the wrapper is distinguishable from its base by HasFeature")
		})
	}
	if n == 0 {
		rc.anchor("failfs constructor: SetFeatures call")
	}
}

func init() {
	register(&Rule{ID: "C03.first", Floor: 1,
		Text: "MemFS.Remove tells the caller that a directory is not empty only after the write-and-search check on the containing directory succeeded: every path to the return of the not-empty error has seen checkPermission(OpenWrite|OpenLookup) == true on the directory returned by the walk (rmdir(2) answers EACCES first; the other order tells a caller who may not change a directory whether its sub-directories are empty)",
		Run:  c03First})
}

func c03First(rc *RuleCtx) {
	f := rc.C.method("memfs", "MemFS", "Remove")
	if f == nil {
		rc.anchor("memfs.(*MemFS).Remove")
		return
	}
	wr, lk := openModeBit(rc.C, "OpenWrite"), openModeBit(rc.C, "OpenLookup")
	ei := errResultIndex(f.Signature)
	var parent ssa.Value
	eachCall(f, func(ci ssa.CallInstruction) {
		if c, ok := ci.(*ssa.Call); ok {
			if fn := calleeFunc(c); fn != nil && nm(fn) == "searchNode" {
				for _, u := range referrersOf(c) {
					if e, ok := u.(*ssa.Extract); ok && e.Index == 0 {
						parent = e
					}
				}
			}
		}
	})
	if parent == nil || ei < 0 || wr < 0 || lk < 0 {
		rc.anchor("memfs.(*MemFS).Remove: walk / permission bits")
		return
	}
	keys, _ := nonFreshKeys(parent)
	keys = append(keys, objKeyOf(parent).s)
	n := 0
	for _, r := range returnsOf(f) {
		notEmpty := false
		for _, l := range errLeaves(rc.C, r.Results[ei], 0) {
			if strings.Contains(l.name, "DirNotEmpty") {
				notEmpty = true
			}
		}
		if !notEmpty {
			continue
		}
		n++
		cons := fmt.Sprintf("%s not-empty answer#%d after the permission check", funcName(f), n)
		paths, complete := pathsTo(f, r, 3000)
		ok := complete && len(paths) > 0
		for _, p := range paths {
			if !feasiblePath(p) {
				continue
			}
			need := wr | lk
			if dirFromWalk(parent) {
				need = wr // search permission was tested by the walk where the name was looked up (C03.matrix (5))
			}
			if !permCheckedOnPath(p, keys, need, nil) {
				ok = false
			}
		}
		if ok {
			rc.good(cons, r.Pos(), "every path has seen the write-and-search check on the containing directory succeed")
		} else {
			rc.bad(cons, r.Pos(), "the not-empty error is returned on a path that has not established write and search permission on the containing directory: a caller who may not change that directory learns whether the sub-directory is empty, where rmdir(2) answers EACCES")
		}
	}
	if n == 0 {
		rc.anchor("memfs.(*MemFS).Remove: return of the not-empty error")
	}
}

func init() {
	register(&Rule{ID: "C04.evalerr", Floor: 1,
		Text: "when EvalSymlinks fails, the error names what the walk had resolved when it stopped (a path taken from the walk's iterator, as filepath.EvalSymlinks names the link-free prefix ending at the failing element), not the caller's unresolved argument",
		Run:  c04EvalErr})
}

func c04EvalErr(rc *RuleCtx) {
	f := rc.C.method("memfs", "MemFS", "EvalSymlinks")
	if f == nil {
		rc.anchor("memfs.(*MemFS).EvalSymlinks")
		return
	}
	n := 0
	eachInstr(f, func(in ssa.Instruction) {
		st, ok := in.(*ssa.Store)
		if !ok {
			return
		}
		fa, ok := st.Addr.(*ssa.FieldAddr)
		if !ok || fieldName(fa.X.Type(), fa.Field) != "Path" || !isNamed(fa.X.Type(), "io/fs", "PathError") {
			return
		}
		n++
		cons := fmt.Sprintf("%s error path#%d", funcName(f), n)
		good := true
		what := ""
		for _, o := range originsOf(st.Val) {
			c, isCall := o.(*ssa.Call)
			if isCall {
				if r := callRecv(c); r != nil {
					if nn := namedOf(r.Type()); nn != nil && nn.Obj().Name() == "PathIterator" {
						continue
					}
				}
			}
			good = false
			what = prettyVal(o, 0)
		}
		if good {
			rc.good(cons, st.Pos(), "taken from the walk's iterator")
		} else {
			rc.bad(cons, st.Pos(), "the error names "+what+" instead of the path the walk had resolved when it stopped: after a link was followed, or when an inner element is missing, the caller is told about a path that is not the one that failed")
		}
	})
	if n == 0 {
		rc.anchor("memfs.(*MemFS).EvalSymlinks: PathError construction")
	}
}

func init() {
	register(&Rule{ID: "C17.sepsel", Floor: 1, Also: []string{"C05", "C13"},
		Text: "OSTypeFn.SetOSType stores a path separator chosen from the very OS type it stores: the comparison that selects '\\\\' tests the value that is assigned to the osType field (after the fall-back to the host type of a build without the tag), so that OSType() and PathSeparator() can never disagree",
		Run:  c17SepSel})
}

func c17SepSel(rc *RuleCtx) {
	f := rc.C.method("avfs", "OSTypeFn", "SetOSType")
	cons := "avfs.(*OSTypeFn).SetOSType separator follows the stored type"
	if f == nil {
		rc.anchor(cons)
		return
	}
	var typeVal ssa.Value
	var sepStore *ssa.Store
	eachInstr(f, func(in ssa.Instruction) {
		st, ok := in.(*ssa.Store)
		if !ok {
			return
		}
		fa, ok := st.Addr.(*ssa.FieldAddr)
		if !ok {
			return
		}
		switch fieldName(fa.X.Type(), fa.Field) {
		case "osType":
			typeVal = st.Val
		case "pathSeparator":
			sepStore = st
		}
	})
	if typeVal == nil || sepStore == nil {
		rc.anchor(cons + " (stores to osType / pathSeparator)")
		return
	}
	// the separator is a phi of constants selected by one or more comparisons: each of them must test the stored type
	var conds []ssa.Value
	seen := map[ssa.Value]bool{}
	var walk func(v ssa.Value)
	walk = func(v ssa.Value) {
		v = strip(v)
		if seen[v] {
			return
		}
		seen[v] = true
		if ph, ok := v.(*ssa.Phi); ok {
			b := ph.Block()
			for _, p := range b.Preds {
				for q := p; q != nil; q = q.Idom() {
					if iff, ok := q.Instrs[len(q.Instrs)-1].(*ssa.If); ok {
						conds = append(conds, iff.Cond)
						break
					}
					if len(q.Preds) != 1 {
						break
					}
				}
			}
			for _, e := range ph.Edges {
				walk(e)
			}
		}
	}
	walk(sepStore.Val)
	if len(conds) == 0 {
		rc.bad(cons, sepStore.Pos(), "the separator stored does not depend on a test of the OS type")
		return
	}
	tv := strip(typeVal)
	for _, c := range conds {
		v, _ := normCond(c, true)
		b, ok := v.(*ssa.BinOp)
		if !ok {
			continue
		}
		if _, isC := strip(b.Y).(*ssa.Const); isC && strip(b.X) != tv {
			rc.bad(cons, sepStore.Pos(), "the separator is selected by a test of "+prettyVal(b.X, 0)+", which is not the value stored as the OS type ("+prettyVal(typeVal, 0)+"): when the requested type is refused and the host type is stored instead, the object reports one OS type and splits paths with the separator of the other")
			return
		}
	}
	rc.good(cons, sepStore.Pos(), "the separator is selected by comparing the value that is stored as the OS type")
}

func init() {
	register(&Rule{ID: "C05.modebits", Floor: 3, Also: []string{"C16", "C03"},
		Text: "Chmod changes the permission bits and nothing else: in every setMode of a node (MemFS dirNode / fileNode, OrefaFS node) the value stored into the mode field is (old &^ FileModeMask) | (new & FileModeMask) with the same mask on both sides - the type bits of a node cannot be changed by a mode argument that carries some (in OrefaFS the mode IS the node's kind: a file would become a directory), and bits the mask covers (setuid, setgid, sticky) do not survive a later Chmod",
		Run:  c05ModeBits})
}

// callerMasks: the constants k of the arguments `x & k` that the calls of method name in package pk pass at position
// idx (counting the receiver as 0); all is false when some call passes something else.
func callerMasks(c *Config, pk, name string, idx int) (ks []int64, all bool) {
	all = true
	for _, g := range c.srcFuncs(pk) {
		eachCall(g, func(ci ssa.CallInstruction) {
			fn := calleeFunc(ci)
			if fn == nil || fn.Name() != name {
				return
			}
			args := ci.Common().Args
			if ci.Common().IsInvoke() {
				args = append([]ssa.Value{ci.Common().Value}, args...)
			}
			if idx >= len(args) {
				all = false
				return
			}
			b, ok := strip(args[idx]).(*ssa.BinOp)
			if !ok || b.Op != token.AND {
				all = false
				return
			}
			if k, isC := constInt(b.Y); isC {
				ks = append(ks, k)
			} else if k, isC := constInt(b.X); isC {
				ks = append(ks, k)
			} else {
				all = false
			}
		})
	}
	return ks, all
}

// requestedModeOnly: v is the caller's own mode parameter, possibly masked with a constant.
func requestedModeOnly(v ssa.Value, d int) bool {
	if d > 4 {
		return false
	}
	switch x := strip(v).(type) {
	case *ssa.Parameter:
		return true
	case *ssa.BinOp:
		if x.Op != token.AND {
			return false
		}
		if _, isC := constInt(x.Y); isC {
			return requestedModeOnly(x.X, d+1)
		}
		if _, isC := constInt(x.X); isC {
			return requestedModeOnly(x.Y, d+1)
		}
	}
	return false
}

// c05ModeArgs: what the callers of setMode hand over is the mode they were asked for, nothing or-ed in.
func c05ModeArgs(rc *RuleCtx) {
	for _, pk := range []string{"memfs", "orefafs"} {
		for _, g := range rc.C.srcFuncs(pk) {
			if rc.C.inlinedAway(g) || g.Synthetic != "" {
				continue
			}
			k := 0
			eachCall(g, func(ci ssa.CallInstruction) {
				fn := calleeFunc(ci)
				if fn == nil || nm(fn) != "setMode" {
					return
				}
				args := ci.Common().Args
				if !ci.Common().IsInvoke() {
					args = args[1:]
				}
				if len(args) == 0 {
					return
				}
				k++
				cons := fmt.Sprintf("%s hands setMode the requested mode#%d", funcName(g), k)
				if requestedModeOnly(args[0], 0) {
					rc.good(cons, ci.Pos(), "the mode parameter of the caller, at most masked with a constant")
				} else {
					rc.bad(cons, ci.Pos(), "the mode handed to setMode is not the caller's own mode parameter (at most masked): bits that were not requested (the file system's default permission bits, say) are or-ed in, so Chmod cannot clear them and a copy does not carry the source's permission bits over")
				}
			})
		}
	}
}

func c05ModeBits(rc *RuleCtx) {
	c05ModeArgs(rc)
	var mask int64 = -1
	if p := rc.C.pkg("avfs"); p != nil {
		if k, ok := p.Types.Scope().Lookup("FileModeMask").(*types.Const); ok {
			if v, exact := constant.Int64Val(k.Val()); exact {
				mask = v
			}
		}
	}
	if mask < 0 {
		rc.anchor("avfs.FileModeMask")
		return
	}
	n := 0
	for _, pk := range []string{"memfs", "orefafs"} {
		for _, f := range rc.C.srcFuncs(pk) {
			if nm(f) != "setMode" || len(f.Params) < 2 {
				continue
			}
			var last *ssa.Store
			eachInstr(f, func(in ssa.Instruction) {
				if st, ok := in.(*ssa.Store); ok {
					if fa, ok := st.Addr.(*ssa.FieldAddr); ok && fieldName(fa.X.Type(), fa.Field) == "mode" {
						if last == nil || domInstr(last, st) {
							last = st
						}
					}
				}
			})
			if last == nil {
				continue // a kind whose mode cannot be changed (symbolic links)
			}
			n++
			cons := funcName(f) + " permission bits only"
			param := ssa.Value(f.Params[1])
			// expand loads of the mode field through the store that reaches them
			var expand func(v ssa.Value, d int) ssa.Value
			isModeLoad := func(v ssa.Value) (*ssa.UnOp, bool) {
				ld, ok := v.(*ssa.UnOp)
				if !ok || ld.Op != token.MUL {
					return nil, false
				}
				fa, ok := ld.X.(*ssa.FieldAddr)
				return ld, ok && fieldName(fa.X.Type(), fa.Field) == "mode"
			}
			var clear, set []int64
			okShape := true
			var walk func(v ssa.Value, d int)
			walk = func(v ssa.Value, d int) {
				if d > 8 {
					okShape = false
					return
				}
				if ld, isLd := isModeLoad(v); isLd {
					// the value the field had: a store of this function that reaches the load, or the entry value
					var reach *ssa.Store
					eachInstr(f, func(in ssa.Instruction) {
						if st, ok := in.(*ssa.Store); ok {
							if fa, ok := st.Addr.(*ssa.FieldAddr); ok && fieldName(fa.X.Type(), fa.Field) == "mode" && domInstr(st, ld) {
								if reach == nil || domInstr(reach, st) {
									reach = st
								}
							}
						}
					})
					if reach != nil {
						walk(reach.Val, d+1)
					}
					return
				}
				if strip(v) == param {
					// the argument as it was received: every caller must have masked it (the convention "the caller
					// masks" is as good as "setMode masks")
					ks, all := callerMasks(rc.C, pk, "setMode", 1)
					if !all || len(ks) == 0 {
						okShape = false
						return
					}
					for _, k := range ks {
						if k != ks[0] {
							okShape = false
						}
					}
					set = append(set, ks[0])
					return
				}
				b, ok := v.(*ssa.BinOp)
				if !ok {
					okShape = false
					return
				}
				switch b.Op {
				case token.OR:
					walk(b.X, d+1)
					walk(b.Y, d+1)
				case token.AND_NOT:
					if k, isC := constInt(b.Y); isC {
						if _, isLd := isModeLoad(b.X); isLd {
							clear = append(clear, k)
							walk(b.X, d+1)
							return
						}
					}
					okShape = false
				case token.AND:
					k, isC := constInt(b.Y)
					if isC && strip(b.X) == param {
						set = append(set, k)
						return
					}
					okShape = false
				default:
					okShape = false
				}
			}
			_ = expand
			walk(last.Val, 0)
			switch {
			case !okShape || len(clear) != 1 || len(set) != 1:
				rc.bad(cons, last.Pos(), "the mode stored is not (old &^ FileModeMask) | (new & FileModeMask): bits of the argument outside the permission mask reach the node (a mode with type bits changes the kind of the node), or bits of the old mode are kept / lost that should not be")
			case clear[0] != mask || set[0] != mask:
				rc.bad(cons, last.Pos(), fmt.Sprintf("the old mode is cleared with mask %#o and the new one taken with mask %#o where both must be FileModeMask (%#o): bits covered by one mask and not the other survive a Chmod or leak into the node", clear[0], set[0], mask))
			default:
				rc.good(cons, last.Pos(), "(old &^ FileModeMask) | (new & FileModeMask)")
			}
		}
	}
	if n == 0 {
		rc.anchor("setMode of the node types")
	}
}

func init() {
	register(&Rule{ID: "C02.dirbatch", Floor: 8, Also: []string{"C08", "C14"},
		Text: "directory handles: ReadDir and Readdirnames of MemFile and OrefaFile return the whole listing exactly when n <= 0 (every comparison of the count with 0 is `n <= 0` or `n > 0`), and each of the two resets only the snapshot it hands out batches of (ReadDir stores nil to dirEntries, Readdirnames to dirNames - the sibling's snapshot is the sibling's): a snapshot that is not dropped at io.EOF is replayed by the next pass, which does not see entries created or removed since",
		Run:  c02DirBatch})
}

func c02DirBatch(rc *RuleCtx) {
	own := map[string]string{"ReadDir": "dirEntries", "Readdirnames": "dirNames"}
	for _, fp := range filePkgs {
		ms := rc.C.methodsOf(fp.pkg, fp.typ)
		for _, name := range []string{"ReadDir", "Readdirnames"} {
			f := ms[name]
			base := fmt.Sprintf("%s.(*%s).%s", fp.pkg, fp.typ, name)
			if f == nil || len(f.Params) < 2 {
				rc.anchor(base)
				continue
			}
			// (a) comparisons of the count with 0
			cons := base + " whole listing iff n <= 0"
			bad := ""
			nCmp := 0
			eachInstr(f, func(in ssa.Instruction) {
				b, ok := in.(*ssa.BinOp)
				if !ok {
					return
				}
				var other ssa.Value
				op := b.Op
				if strip(b.X) == ssa.Value(f.Params[1]) {
					other = b.Y
				} else if strip(b.Y) == ssa.Value(f.Params[1]) {
					other = b.X
					// mirror the operator
					op = map[token.Token]token.Token{token.LSS: token.GTR, token.GTR: token.LSS, token.LEQ: token.GEQ, token.GEQ: token.LEQ, token.EQL: token.EQL, token.NEQ: token.NEQ}[op]
				} else {
					return
				}
				if k, isC := constInt(other); !isC || k != 0 {
					return
				}
				nCmp++
				if op != token.LEQ && op != token.GTR {
					bad = "the count is compared with 0 by `" + op.String() + "` (" + rc.C.pos(b.Pos()) + "): n == 0 is then treated like a positive batch size, where os.File returns the whole listing for every n <= 0"
				}
			})
			switch {
			case bad != "":
				rc.bad(cons, f.Pos(), bad)
			case nCmp == 0:
				rc.bad(cons, f.Pos(), "the count is never compared with 0")
			default:
				rc.good(cons, f.Pos(), fmt.Sprintf("%d comparison(s), all `n <= 0` / `n > 0`", nCmp))
			}
			// (b) only its own snapshot is reset
			cons = base + " resets its own snapshot"
			ownReset, foreign := 0, ""
			eachInstr(f, func(in ssa.Instruction) {
				st, ok := in.(*ssa.Store)
				if !ok {
					return
				}
				fa, ok := st.Addr.(*ssa.FieldAddr)
				if !ok {
					return
				}
				fn := fieldName(fa.X.Type(), fa.Field)
				if fn != "dirEntries" && fn != "dirNames" {
					return
				}
				if k, isC := strip(st.Val).(*ssa.Const); isC && k.IsNil() {
					if fn == own[name] {
						ownReset++
					} else {
						foreign = fn
					}
				} else if fn != own[name] {
					foreign = fn
				}
			})
			switch {
			case foreign != "":
				rc.bad(cons, f.Pos(), name+" assigns "+foreign+", the snapshot of its sibling, instead of its own "+own[name]+": its own snapshot is not dropped at the end of the directory and the next pass through the handle replays it")
			case ownReset == 0:
				rc.bad(cons, f.Pos(), name+" never drops its snapshot ("+own[name]+" = nil): a second pass through the handle replays the listing taken by the first")
			default:
				rc.good(cons, f.Pos(), fmt.Sprintf("%d reset(s) of %s, none of the sibling's", ownReset, own[name]))
			}
		}
	}
}

func init() {
	register(&Rule{ID: "C09.stateless", Floor: 1,
		Text: "a read-only view has no state that a call could change: outside its constructor no function of package rofs stores to a field of a RoFS or RoFile (the errors a refusal returns are chosen once, when the view is built; a call that overwrites them changes what every later refusal answers)",
		Run:  c09Stateless})
	register(&Rule{ID: "C12.handle", Floor: 1,
		Text: "an open FailFile consults the failure function its file system has now: the handle refers to its FailFS by pointer (a copy taken when the file was opened would keep the failure function of that moment, and SetFailFunc would never reach open files)",
		Run:  c12Handle})
	register(&Rule{ID: "C15.lookup", Floor: 4,
		Text: "the lookups of MemIdm answer from the maps: the object returned with a nil error by LookupGroup, LookupGroupId, LookupUser and LookupUserId is the value found in the map that AddX / DelX maintain - never an object kept elsewhere (the administrator objects stored at construction), which DelX does not remove",
		Run:  c15Lookup})
}

func c09Stateless(rc *RuleCtx) {
	n := 0
	cons := "rofs: no store to view state outside the constructor"
	bad := ""
	for _, f := range rc.C.srcFuncs("rofs") {
		isCtor := f.Signature.Recv() == nil
		eachInstr(f, func(in ssa.Instruction) {
			st, ok := in.(*ssa.Store)
			if !ok {
				return
			}
			fa, ok := st.Addr.(*ssa.FieldAddr)
			if !ok {
				return
			}
			nn := namedOf(fa.X.Type())
			if nn == nil || (nn.Obj().Name() != "RoFS" && nn.Obj().Name() != "RoFile") {
				return
			}
			n++
			if isCtor || objKeyOf(fa).fresh {
				return
			}
			bad = funcName(f) + " stores to " + nn.Obj().Name() + "." + fieldName(fa.X.Type(), fa.Field) + " (" + rc.C.pos(st.Pos()) + ")"
		})
	}
	switch {
	case bad != "":
		rc.bad(cons, token.NoPos, bad+": a call through the read-only view changes the view, and with it what later calls answer")
	case n == 0:
		rc.anchor("rofs: stores to RoFS / RoFile fields in the constructor")
	default:
		rc.good(cons, token.NoPos, fmt.Sprintf("%d stores, all in constructors or on objects being built", n))
	}
}

func c12Handle(rc *RuleCtx) {
	ff := rc.C.named("failfs", "FailFile")
	cons := "failfs.FailFile refers to its file system by pointer"
	if ff == nil {
		rc.anchor(cons)
		return
	}
	st, ok := ff.Underlying().(*types.Struct)
	if !ok {
		rc.anchor(cons)
		return
	}
	found := false
	for i := 0; i < st.NumFields(); i++ {
		fl := st.Field(i)
		t := fl.Type()
		if p, isPtr := t.(*types.Pointer); isPtr {
			if nn := namedOf(p.Elem()); nn != nil && nn.Obj().Name() == "FailFS" {
				found = true
			}
			continue
		}
		if nn := namedOf(t); nn != nil && nn.Obj().Name() == "FailFS" {
			rc.bad(cons, fl.Pos(), "field "+fl.Name()+" holds a FailFS by value: the handle keeps the failure function its file system had when the file was opened")
			return
		}
	}
	if found {
		rc.good(cons, ff.Obj().Pos(), "*FailFS")
	} else {
		rc.bad(cons, ff.Obj().Pos(), "FailFile has no reference to its FailFS")
	}
}

func c15Lookup(rc *RuleCtx) {
	for _, name := range []string{"LookupGroup", "LookupGroupId", "LookupUser", "LookupUserId"} {
		f := rc.C.method("memidm", "MemIdm", name)
		cons := "memidm.(*MemIdm)." + name + " answers from the map"
		if f == nil {
			rc.anchor(cons)
			continue
		}
		ei := errResultIndex(f.Signature)
		bad := ""
		n := 0
		for _, r := range returnsOf(f) {
			nilErr := false
			for _, o := range originsOf(r.Results[ei]) {
				if k, isC := o.(*ssa.Const); isC && k.IsNil() {
					nilErr = true
				}
			}
			if !nilErr {
				continue
			}
			n++
			for _, o := range originsOf(r.Results[0]) {
				if e, ok := o.(*ssa.Extract); ok {
					if _, isLk := e.Tuple.(*ssa.Lookup); isLk && e.Index == 0 {
						continue
					}
				}
				if _, isLk := o.(*ssa.Lookup); isLk {
					continue
				}
				bad = "a successful return (" + rc.C.pos(r.Pos()) + ") hands out " + prettyVal(o, 0) + ", which is not the value found in the map: after DelUser / DelGroup of that object the lookup by id and the lookup by name disagree"
			}
		}
		switch {
		case bad != "":
			rc.bad(cons, f.Pos(), bad)
		case n == 0:
			rc.bad(cons, f.Pos(), "no successful return found")
		default:
			rc.good(cons, f.Pos(), "every successful return hands out the value of the map lookup")
		}
	}
}
