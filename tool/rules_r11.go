package main

// Round 11: error identity (the Op / Path / Old / New fields of the errors the in-memory file systems build).

import (
	"fmt"
	"go/ast"
	"go/constant"
	"go/token"
	"go/types"
	"golang.org/x/tools/go/ssa"
	"os"
	"sort"
	"strings"
)

func init() {
	register(&Rule{ID: "C01.perr", Floor: 60, Also: []string{"C02"}, AlsoFloor: map[string]int{"C02": 20}, AlsoOnly: map[string][]string{"C02": {"MemFile", "OrefaFile"}},
		Text: "the errors MemFS, OrefaFS and their file handles build name the operation and the path as os does: in every method of the four types each *fs.PathError / *os.LinkError literal has (a) an Op that is a string constant taken from the method's entry of the table of os's operation names (frozen from os/file*.go, os/dir*.go, os/stat*.go of this toolchain: Open, OpenFile, Create -> \"open\", Mkdir, MkdirAll -> \"mkdir\", ...), (b) a Path that is the method's own path parameter as the caller passed it (for a handle: the name field of the handle), the part of it a walk has consumed so far (LeftPart / Path of the method's PathIterator), or the empty string where os reports none, and (c) Old and New that are the first and the second parameter in that order - callers print these fields, match them (`pe.Path == name`) and BasePathFS translates them",
		Run:  c01PErr})
}

// osOps: the operation names os (go1.23, linux) puts into the errors of each call; File methods are those of os.File.
var osOps = map[string][]string{
	// file-system level
	"Chdir": {"chdir"}, "Chmod": {"chmod"}, "Chown": {"chown"}, "Lchown": {"lchown"}, "Chtimes": {"chtimes"},
	"Chroot": {"chroot"}, "Create": {"open"}, "CreateTemp": {"createtemp"}, "EvalSymlinks": {"lstat"}, "Link": {"link"}, "Lstat": {"lstat"},
	"Mkdir": {"mkdir"}, "MkdirAll": {"mkdir"}, "MkdirTemp": {"mkdirtemp"}, "Open": {"open"}, "OpenFile": {"open"},
	"ReadDir": {"open", "readdirent"}, "ReadFile": {"open", "read"}, "Readlink": {"readlink"}, "Remove": {"remove"},
	"RemoveAll": {"unlinkat", "removeall"}, "Rename": {"rename"}, "Stat": {"stat"}, "Symlink": {"symlink"}, "Truncate": {"truncate"}, "WriteFile": {"open", "write"},
	"Sub":       {"sub"},
	"VolumeAdd": {"VolumeAdd"}, "VolumeDelete": {"VolumeDelete"}, // avfs's own calls, named after themselves
	// handle level (os.File)
	"F.Chdir": {"chdir"}, "F.Chmod": {"chmod"}, "F.Chown": {"chown"}, "F.Close": {"close"}, "F.Read": {"read"}, "F.ReadAt": {"readat", "read"},
	"F.ReadDir": {"readdirent"}, "F.Readdirnames": {"readdirent"}, "F.Seek": {"seek"}, "F.Stat": {"stat"}, "F.Sync": {"sync"},
	"F.Truncate": {"truncate"}, "F.Write": {"write"}, "F.WriteAt": {"writeat", "write"}, "F.WriteString": {"write"},
}

func c01PErr(rc *RuleCtx) {
	dbg := os.Getenv("AVFSLINT_DEBUG") != ""
	for _, t := range []struct {
		pk, typ string
		file    bool
	}{{"memfs", "MemFS", false}, {"orefafs", "OrefaFS", false}, {"memfs", "MemFile", true}, {"orefafs", "OrefaFile", true}} {
		p := rc.C.pkg(t.pk)
		if p == nil || p.TypesInfo == nil {
			rc.anchor("package " + t.pk)
			continue
		}
		info := p.TypesInfo
		nlit := 0
		for _, file := range p.Syntax {
			fn := rc.C.Fset.Position(file.Pos()).Filename
			if strings.HasSuffix(fn, "_test.go") {
				continue
			}
			for _, d := range file.Decls {
				fd, ok := d.(*ast.FuncDecl)
				if !ok || fd.Recv == nil || fd.Body == nil || len(fd.Recv.List) != 1 {
					continue
				}
				rt := info.TypeOf(fd.Recv.List[0].Type)
				if n := namedOf(rt); n == nil || n.Obj().Name() != t.typ {
					continue
				}
				if !fd.Name.IsExported() {
					continue
				}
				// string parameters in order
				var sparams []types.Object
				for _, fl := range fd.Type.Params.List {
					for _, nm := range fl.Names {
						o := info.Defs[nm]
						if o != nil {
							if b, ok := o.Type().Underlying().(*types.Basic); ok && b.Kind() == types.String {
								sparams = append(sparams, o)
							}
						}
					}
				}
				var recvObj types.Object
				if len(fd.Recv.List[0].Names) == 1 {
					recvObj = info.Defs[fd.Recv.List[0].Names[0]]
				}
				key := fd.Name.Name
				if t.file {
					key = "F." + key
				}
				cons := fmt.Sprintf("%s.(*%s).%s error fields", t.pk, t.typ, fd.Name.Name)
				var probs []string
				var badAt token.Pos
				n := 0
				note := func(pos token.Pos, s string) {
					for _, p := range probs {
						if p == s {
							return
						}
					}
					probs = append(probs, s)
					if badAt == token.NoPos {
						badAt = pos
					}
				}
				// pathish: what a Path / Old / New expression is
				var classify func(e ast.Expr, depth int) string
				classify = func(e ast.Expr, depth int) string {
					e = ast.Unparen(e)
					switch x := e.(type) {
					case *ast.BasicLit:
						if x.Kind == token.STRING && (x.Value == `""` || x.Value == "``") {
							return "empty"
						}
						return "literal " + x.Value
					case *ast.Ident:
						o := info.Uses[x]
						for i, sp := range sparams {
							if o == sp {
								return fmt.Sprintf("param%d", i)
							}
						}
						if c, ok := o.(*types.Const); ok && c.Val().Kind() == constant.String && constant.StringVal(c.Val()) == "" {
							return "empty"
						}
						// a copy made once and never assigned again (the parameter bindings of an inlined helper: `vfs, op, name := vfs, "lchown", name`)
						if init := singleDef(info, fd, o); init != nil && depth < 6 {
							return classify(init, depth+1)
						}
						return "local " + x.Name
					case *ast.SelectorExpr:
						if id, ok := ast.Unparen(x.X).(*ast.Ident); ok && recvObj != nil && x.Sel.Name == "name" && t.file {
							o := info.Uses[id]
							for d := 0; o != nil && o != recvObj && d < 6; d++ {
								init, _ := ast.Unparen(orNil(singleDef(info, fd, o))).(*ast.Ident)
								if init == nil {
									break
								}
								o = info.Uses[init]
							}
							if o == recvObj {
								return "handle-name"
							}
						}
						return "selector " + types.ExprString(x)
					case *ast.CallExpr:
						if se, ok := x.Fun.(*ast.SelectorExpr); ok && len(x.Args) == 0 && (se.Sel.Name == "LeftPart" || se.Sel.Name == "Path") {
							if n := namedOf(info.TypeOf(se.X)); n != nil && n.Obj().Name() == "PathIterator" {
								return "walked"
							}
						}
						return "call " + types.ExprString(x.Fun)
					}
					return "expr " + types.ExprString(e)
				}
				ast.Inspect(fd.Body, func(nd ast.Node) bool {
					cl, ok := nd.(*ast.CompositeLit)
					if !ok {
						return true
					}
					tt := info.TypeOf(cl)
					isP, isL := isNamed(tt, "io/fs", "PathError"), isNamed(tt, "os", "LinkError")
					if !isP && !isL {
						return true
					}
					n++
					fields := map[string]ast.Expr{}
					for i, el := range cl.Elts {
						if kv, ok := el.(*ast.KeyValueExpr); ok {
							if id, ok := kv.Key.(*ast.Ident); ok {
								fields[id.Name] = kv.Value
							}
						} else {
							names := []string{"Op", "Path", "Err"}
							if isL {
								names = []string{"Op", "Old", "New", "Err"}
							}
							if i < len(names) {
								fields[names[i]] = el
							}
						}
					}
					// (a) Op
					if op, ok := fields["Op"]; !ok {
						note(cl.Pos(), "a literal without Op")
					} else {
						vals, okc := opValues(info, fd, op)
						if !okc {
							note(op.Pos(), "Op is not a constant, nor a local variable that is only ever assigned constants")
						}
						for _, ov := range vals {
							tab, tn := osOps, "os on Linux"
							if ov.win {
								tab, tn = winOps, "os on Windows"
							}
							want, known := tab[key]
							if !ov.win {
								known = known || len(winOps[key]) > 0
							}
							okOp := false
							for _, w := range want {
								if w == ov.s {
									okOp = true
								}
							}
							if dbg {
								fmt.Fprintf(os.Stderr, "PERR %s %s op=%q win=%v\n", rc.C.Name, cons, ov.s, ov.win)
							}
							if !known && !ov.win {
								note(op.Pos(), fmt.Sprintf("no entry for method %s in the table of os's operation names (Op %q)", key, ov.s))
							} else if !okOp {
								note(ov.pos, fmt.Sprintf("Op %q, where %s reports %s", ov.s, tn, strings.Join(want, " / ")))
							}
						}
					}
					// (b), (c)
					for _, fnm := range []string{"Path", "Old", "New"} {
						e, ok := fields[fnm]
						if !ok {
							if (fnm == "Path") == isP {
								note(cl.Pos(), "a literal without "+fnm)
							}
							continue
						}
						k := classify(e, 0)
						if dbg {
							fmt.Fprintf(os.Stderr, "PERR %s %s %s=%s\n", rc.C.Name, cons, fnm, k)
						}
						switch fnm {
						case "Path":
							switch {
							case t.file && k == "handle-name":
							case !t.file && k == "param0", k == "walked", k == "empty":
							case pathExceptions[t.pk+"."+t.typ+"."+fd.Name.Name+"|"+k] != "":
							default:
								note(e.Pos(), "Path is "+k+", not the caller's path")
							}
						case "Old":
							if k != "param0" {
								note(e.Pos(), "Old is "+k+", not the first parameter")
							}
						case "New":
							if k != "param1" {
								note(e.Pos(), "New is "+k+", not the second parameter")
							}
						}
					}
					return true
				})
				if n == 0 {
					continue
				}
				nlit += n
				if len(probs) > 0 {
					sort.Strings(probs)
					rc.bad(cons, badAt, strings.Join(probs, "; "))
				} else {
					rc.good(cons, fd.Pos(), fmt.Sprintf("%d error literals: Op from os's names, Path / Old / New the caller's", n))
				}
			}
		}
		rc.count("error literals of "+t.pk+"."+t.typ, nlit)
	}
}

type opVal struct {
	s   string
	win bool // assigned under `OSType() == OsWindows`
	pos token.Pos
}

// opValues: the string constants an Op expression may hold: the constant itself, or every constant assigned to the
// local variable it names (ok=false when something else is assigned to it). win: the assignment (or the literal)
// lies in the body of an `if` whose condition compares with OsWindows.
func opValues(info *types.Info, fd *ast.FuncDecl, op ast.Expr) (vals []opVal, ok bool) {
	op = ast.Unparen(op)
	winAt := func(pos token.Pos) bool {
		w := false
		ast.Inspect(fd.Body, func(n ast.Node) bool {
			is, isIf := n.(*ast.IfStmt)
			if !isIf {
				return true
			}
			pol, ok := winCond(is.Cond)
			if !ok {
				return true
			}
			if is.Body.Pos() <= pos && pos < is.Body.End() && pol {
				w = true
			}
			if is.Else != nil && is.Else.Pos() <= pos && pos < is.Else.End() && !pol {
				w = true
			}
			return true
		})
		return w
	}
	if tv, has := info.Types[op]; has && tv.Value != nil && tv.Value.Kind() == constant.String {
		if id, isID := op.(*ast.Ident); !isID || info.Uses[id] == nil || !isLocalVar(info.Uses[id]) {
			return []opVal{{constant.StringVal(tv.Value), winAt(op.Pos()), op.Pos()}}, true
		}
	}
	id, isID := op.(*ast.Ident)
	if !isID {
		return nil, false
	}
	obj := info.Uses[id]
	if obj == nil || !isLocalVar(obj) {
		return nil, false
	}
	ok = true
	ast.Inspect(fd.Body, func(n ast.Node) bool {
		switch x := n.(type) {
		case *ast.AssignStmt:
			for i, l := range x.Lhs {
				lid, isID := l.(*ast.Ident)
				if !isID {
					continue
				}
				o := info.Defs[lid]
				if o == nil {
					o = info.Uses[lid]
				}
				if o != obj {
					continue
				}
				if len(x.Rhs) != len(x.Lhs) {
					ok = false
					continue
				}
				tv, has := info.Types[x.Rhs[i]]
				if !has || tv.Value == nil || tv.Value.Kind() != constant.String {
					ok = false
					continue
				}
				vals = append(vals, opVal{constant.StringVal(tv.Value), winAt(x.Pos()), x.Rhs[i].Pos()})
			}
		case *ast.ValueSpec:
			for i, nm := range x.Names {
				if info.Defs[nm] != obj {
					continue
				}
				if i >= len(x.Values) {
					ok = false
					continue
				}
				tv, has := info.Types[x.Values[i]]
				if !has || tv.Value == nil || tv.Value.Kind() != constant.String {
					ok = false
					continue
				}
				vals = append(vals, opVal{constant.StringVal(tv.Value), winAt(x.Pos()), x.Values[i].Pos()})
			}
		case *ast.UnaryExpr:
			if x.Op == token.AND {
				if aid, isID := ast.Unparen(x.X).(*ast.Ident); isID && info.Uses[aid] == obj {
					ok = false
				}
			}
		}
		return true
	})
	if len(vals) == 0 {
		ok = false
	}
	return vals, ok
}

func isLocalVar(o types.Object) bool {
	v, isVar := o.(*types.Var)
	return isVar && !v.IsField() && v.Parent() != nil && v.Pkg() != nil && v.Parent() != v.Pkg().Scope()
}

// winOps: the operation names os (go1.23, windows) uses where they differ from the Linux ones, as avfs emulates them.
var winOps = map[string][]string{
	"Chown": {"chown"}, "Lchown": {"lchown"}, "Lstat": {"CreateFile"}, "Stat": {"CreateFile"}, "EvalSymlinks": {"CreateFile"},
	"Truncate": {"open"}, "F.Chown": {"chown"}, "F.ReadDir": {"readdir"}, "F.Readdirnames": {"readdir"}, "F.Stat": {"GetFileType"},
}

// pathExceptions: Path expressions accepted beyond the caller's own path, one line of reason each.
var pathExceptions = map[string]string{
	"orefafs.OrefaFS.MkdirAll|local dirName": "the ancestor of the absolute path that exists and is not a directory, which is what os.MkdirAll names (MemFS takes it from the iterator)",
}

// ---- precedence of failure conditions: twins must not contradict each other ----

func init() {
	register(&Rule{ID: "C02.precede", Floor: 10, Also: []string{"C01"}, AlsoFloor: map[string]int{"C01": 1}, AlsoOnly: map[string][]string{"C01": {"MemFS", "OrefaFS"}},
		Text: "when two failure conditions of a call hold at once, one of them wins, and MemFS and OrefaFS (MemFile and OrefaFile) must agree on which: for every method the two types share, and every pair of error values A, B that both twins hand back from guards on the straight path of the method (`if cond { return &PathError{Err: A} }`), the twin that tests A before B and the twin that tests B before A contradict each other - one of them answers a caller in whose situation both conditions hold differently from the kernel / os.File (a contradiction rule: no table of the right order is needed, the two implementations are each other's reference); a pair both twins order alike is discharged",
		Run:  c02Precede})
}

type guardRet struct {
	leaf string
	blk  *ssa.BasicBlock // block of the return
	pos  token.Pos
}

// guardsOf: the error-carrying returns of f with exactly the leaves they may carry.
func guardsOf(c *Config, f *ssa.Function) []guardRet {
	ei := errResultIndex(f.Signature)
	if ei < 0 {
		return nil
	}
	var out []guardRet
	for _, r := range returnsOf(f) {
		if ei >= len(r.Results) {
			continue
		}
		v := returnOperandOr(r, ei)
		seen := map[string]bool{}
		for _, l := range errLeaves(c, v, 0) {
			nm := l.name
			if strings.HasPrefix(nm, "?") || strings.HasPrefix(nm, "field ") {
				nm = "*" // an error computed elsewhere (the path walk, the base): may be any of the values
			}
			if nm == "nil" || seen[nm] {
				continue
			}
			seen[nm] = true
			out = append(out, guardRet{nm, r.Block(), r.Pos()})
		}
	}
	return out
}

// guardBefore: guard a is decided before guard b. Return blocks have no successors, so two different ones never
// dominate each other; in Go without goto the return that comes first in the source is the one whose condition is
// tested first (the then-branch of an `if` before what follows the `if`, an earlier case before a later one; the two
// branches of one if / else are decided by the same test, where the order claims nothing since c and !c exclude each other).
func guardBefore(a, b guardRet) bool {
	return a.blk != b.blk && a.pos.IsValid() && b.pos.IsValid() && a.pos < b.pos
}

func c02Precede(rc *RuleCtx) {
	dbg := os.Getenv("AVFSLINT_DEBUG") != ""
	for _, tw := range [][2][2]string{{{"memfs", "MemFS"}, {"orefafs", "OrefaFS"}}, {{"memfs", "MemFile"}, {"orefafs", "OrefaFile"}}} {
		ma, mb := rc.C.methodsOf(tw[0][0], tw[0][1]), rc.C.methodsOf(tw[1][0], tw[1][1])
		if len(ma) == 0 || len(mb) == 0 {
			rc.anchor("methods of " + tw[0][1] + " / " + tw[1][1])
			continue
		}
		var names []string
		for n := range ma {
			if mb[n] != nil && token.IsExported(n) {
				names = append(names, n)
			}
		}
		sort.Strings(names)
		for _, n := range names {
			ga, gb := guardsOf(rc.C, ma[n]), guardsOf(rc.C, mb[n])
			univ := map[string]bool{}
			for _, g := range append(append([]guardRet{}, ga...), gb...) {
				if g.leaf != "*" {
					univ[g.leaf] = true
				}
			}
			expand := func(l string) []string {
				if l != "*" {
					return []string{l}
				}
				var out []string
				for u := range univ {
					out = append(out, u)
				}
				return out
			}
			// concrete: both guards name their value; any: also the orders a computed error (which may be any value) takes part in
			order := func(gs []guardRet) (concrete, any map[[2]string]token.Pos) {
				concrete, any = map[[2]string]token.Pos{}, map[[2]string]token.Pos{}
				for _, x := range gs {
					for _, y := range gs {
						if !guardBefore(x, y) {
							continue
						}
						for _, xl := range expand(x.leaf) {
							for _, yl := range expand(y.leaf) {
								if xl == yl {
									continue
								}
								k := [2]string{xl, yl}
								if _, has := any[k]; !has {
									any[k] = x.pos
								}
								if x.leaf != "*" && y.leaf != "*" {
									if _, has := concrete[k]; !has {
										concrete[k] = x.pos
									}
								}
							}
						}
					}
				}
				return
			}
			oa, anyA := order(ga)
			ob, anyB := order(gb)
			cons := fmt.Sprintf("%s.%s / %s.%s %s: order of the failure conditions", tw[0][0], tw[0][1], tw[1][0], tw[1][1], n)
			var probs []string
			var at token.Pos
			npairs := 0
			var keys [][2]string
			for k := range oa {
				keys = append(keys, k)
			}
			sort.Slice(keys, func(i, j int) bool { return keys[i][0]+keys[i][1] < keys[j][0]+keys[j][1] })
			for _, k := range keys {
				rev := [2]string{k[1], k[0]}
				_, sameA := anyA[rev]
				if sameA {
					continue // both orders occur inside one twin (two sites): no verdict
				}
				if _, same := ob[k]; same {
					npairs++
				}
				if p, contra := ob[rev]; contra {
					if _, both := anyB[k]; both {
						continue
					}
					probs = append(probs, fmt.Sprintf("%s tests %s before %s, %s (%s) the other way round", tw[0][1], k[0], k[1], tw[1][1], rc.C.pos(p)))
					if at == token.NoPos {
						at = oa[k]
					}
				}
			}
			if dbg {
				fmt.Fprintf(os.Stderr, "PREC %s pairs=%d probs=%v\n", cons, npairs, probs)
			}
			if len(probs) > 0 {
				rc.bad(cons, at, strings.Join(probs, "; "))
			} else if npairs > 0 {
				rc.good(cons, ma[n].Pos(), fmt.Sprintf("%d pairs of conditions ordered alike by both", npairs))
			}
		}
	}
}

// ---- round 11: RoFS refuses before it asks the base; the administrator objects are those fixed at construction ----

func init() {
	register(&Rule{ID: "C09.first", Floor: 1,
		Text: "RoFS.OpenFile refuses a request to write before it consults the base: every call made on the base file system in OpenFile lies on the branch where the test of the flag against O_RDONLY answered 'read-only' - asking the base first lets the base's answer (ENOENT, ENOTDIR for a path it cannot open) win over the permission-class error the property promises for every mutating call, and opens (then closes) a handle on the base for a call that must have no effect",
		Run:  c09First})
	register(&Rule{ID: "C15.fixed", Floor: 2,
		Text: "AdminGroup() and AdminUser() of MemIdm return the objects fixed at construction: every return is a load of the adminGroup / adminUser field and no lookup by name or id takes part - the name 'root' can be deleted and bound again to an ordinary group (DelGroup + AddGroup), the administrator group stays gid 0",
		Run:  c15Fixed})
}

func c09First(rc *RuleCtx) {
	f := rc.C.method("rofs", "RoFS", "OpenFile")
	cons := "rofs.(*RoFS).OpenFile refuses before the base is asked"
	if f == nil || len(f.Params) < 3 {
		rc.anchor(cons)
		return
	}
	flag := ssa.Value(f.Params[2])
	n := 0
	var badAt token.Pos
	for _, g := range withAnon(f) {
		eachCall(g, func(c ssa.CallInstruction) {
			rv := callRecv(c)
			if rv == nil || !isFieldLoad(resolve1(rv), "baseFS") {
				return
			}
			n++
			if g != f {
				if badAt == token.NoPos {
					badAt = c.Pos()
				}
				return
			}
			ok := false
			for _, fa := range factsAt(c.Block()) {
				cv, truth := normCond(fa.Cond, fa.Truth)
				b, isB := cv.(*ssa.BinOp)
				if !isB {
					continue
				}
				var other ssa.Value
				if strip(b.X) == flag {
					other = b.Y
				} else if strip(b.Y) == flag {
					other = b.X
				} else {
					continue
				}
				k, isK := constInt(other)
				if !isK || k != 0 {
					continue
				}
				if (b.Op == token.EQL && truth) || (b.Op == token.NEQ && !truth) {
					ok = true
				}
			}
			if !ok && badAt == token.NoPos {
				badAt = c.Pos()
			}
		})
	}
	switch {
	case n == 0:
		rc.bad(cons, f.Pos(), "no call on the base file system was recognised in OpenFile")
	case badAt != token.NoPos:
		rc.bad(cons, badAt, "the base file system is called before the flag was tested against O_RDONLY: for a path the base cannot open its error wins over the refusal")
	default:
		rc.good(cons, f.Pos(), fmt.Sprintf("%d calls on the base, each after flag == O_RDONLY was established", n))
	}
}

func c15Fixed(rc *RuleCtx) {
	for _, t := range [][2]string{{"AdminGroup", "adminGroup"}, {"AdminUser", "adminUser"}} {
		f := rc.C.method("memidm", "MemIdm", t[0])
		cons := "memidm.(*MemIdm)." + t[0] + " returns the object fixed at construction"
		if f == nil {
			rc.anchor(cons)
			continue
		}
		var badAt token.Pos
		why := ""
		n := 0
		for _, r := range returnsOf(f) {
			if len(r.Results) != 1 {
				continue
			}
			for _, v := range resolveRaw(returnOperandOr(r, 0)) {
				n++
				x := strip(v)
				if mi, ok := x.(*ssa.MakeInterface); ok {
					x = strip(mi.X)
				}
				if !isFieldLoad(resolve1(x), t[1]) && badAt == token.NoPos {
					badAt, why = r.Pos(), "a return hands out "+accessPath(x)+", not the "+t[1]+" field"
				}
			}
		}
		eachCall(f, func(c ssa.CallInstruction) {
			if fn := calleeFunc(c); fn != nil && strings.HasPrefix(fn.Name(), "Lookup") && badAt == token.NoPos {
				badAt, why = c.Pos(), "calls "+fn.Name()+": the answer follows whatever the name or id is bound to now"
			}
		})
		switch {
		case badAt != token.NoPos:
			rc.bad(cons, badAt, why)
		case n == 0:
			rc.bad(cons, f.Pos(), "no return recognised")
		default:
			rc.good(cons, f.Pos(), "every return is the "+t[1]+" field")
		}
	}
}

func init() {
	register(&Rule{ID: "C01.notdir", Floor: 1,
		Text: "OrefaFS.Mkdir tells 'a directory on the way is missing' from 'something on the way is not a directory': on the branch where the parent of the new name is not in the index, a return carrying NotADirectory exists beside the one carrying NoSuchDir (the nearest ancestor that exists decides) - without it Mkdir(\"file/x/y\") answers ENOENT where the kernel answers ENOTDIR, and errors.Is(err, fs.ErrNotExist) sends MkdirAll-style callers down the wrong road",
		Run:  c01NotDir})
}

func c01NotDir(rc *RuleCtx) {
	f := rc.C.method("orefafs", "OrefaFS", "Mkdir")
	cons := "orefafs.(*OrefaFS).Mkdir missing parent: ENOTDIR beside ENOENT"
	if f == nil {
		rc.anchor(cons)
		return
	}
	has := map[string]bool{}
	n := 0
	for _, g := range guardsOf(rc.C, f) {
		missing := false
		for _, fa := range factsAt(g.blk) {
			cv, truth := normCond(fa.Cond, fa.Truth)
			if e, ok := cv.(*ssa.Extract); ok && e.Index == 1 && !truth {
				if lk, isLk := e.Tuple.(*ssa.Lookup); isLk && lk.CommaOk && isFieldLoad(resolve1(lk.X), "nodes") {
					// the lookup of the parent: its key is the directory part SplitAbs answered
					if ke, isE := strip(lk.Index).(*ssa.Extract); isE && ke.Index == 0 {
						if kc, isC := ke.Tuple.(*ssa.Call); isC {
							if fn := calleeFunc(kc); fn != nil && fn.Name() == "SplitAbs" {
								missing = true
							}
						}
					}
				}
			}
		}
		if missing {
			n++
			has[g.leaf] = true
		}
	}
	switch {
	case n == 0:
		rc.bad(cons, f.Pos(), "no return on the branch where the parent is missing from the index was recognised")
	case !has["avfs.ErrNotADirectory"]:
		rc.bad(cons, f.Pos(), "on the branch where the parent is missing from the index no return carries NotADirectory: a path below a regular file is answered as if a directory were missing")
	case !has["avfs.ErrNoSuchFileOrDir"]:
		rc.bad(cons, f.Pos(), "on the branch where the parent is missing from the index no return carries NoSuchDir")
	default:
		rc.good(cons, f.Pos(), fmt.Sprintf("%d returns on the missing-parent branch, ENOTDIR and ENOENT among them", n))
	}
}

// ---- round 11: precedence of failure conditions inside MemFS, where the kernel's order is known ----

func init() {
	register(&Rule{ID: "C03.precede", Floor: 4, Also: []string{"C01", "C04", "C11"}, AlsoFloor: map[string]int{"C01": 4, "C04": 1, "C11": 1},
		AlsoOnly: map[string][]string{"C04": {"searchNode"}, "C11": {"Remove"}},
		Text:     "where a caller may lack permission and the call is also wrong for another reason, MemFS answers in the kernel's order (table of 4, each from the kernel's own sequence: path walk - may_lookup before the lookup of the name; do_sys_truncate - length < 0 and S_ISDIR before inode_permission; the root as operand before anything about its parent): in the named function a guard returning the first error value is decided before every guard returning the second, and never after one - with the order turned round a caller in whose situation both hold is told 'permission denied' about a call no permission could make succeed (or the reverse), and errors.Is(err, fs.ErrPermission) / fs.ErrNotExist changes its answer",
		Run:      c03Precede})
}

var c03Orders = []struct {
	fn, first, second, why string
	inLoop                 bool // only the guards inside the walk's loop (the volume test before the loop is another condition)
}{
	{"searchNode", "PermDenied", "NoSuchDir", "a directory without search permission refuses the lookup before the name is looked up (EACCES, not ENOENT)", true},
	{"Truncate", "IsADirectory", "PermDenied", "do_sys_truncate: S_ISDIR before inode_permission(MAY_WRITE)", false},
	{"Truncate", "InvalidArgument", "PermDenied", "do_sys_truncate: length < 0 before anything else", false},
	{"Remove", "InvalidArgument", "PermDenied", "the root directory is refused as an operand whatever the caller may do to it (RemoveAll answers the same)", false},
}

// errFields: the fields of the error table (vfs.err.X) a returned error may carry, through &PathError{Err: ...} and named results.
func errFields(v ssa.Value, depth int) []string {
	if depth > 6 {
		return nil
	}
	var out []string
	for _, rv := range resolveRaw(v) {
		x := strip(rv)
		if mi, ok := x.(*ssa.MakeInterface); ok {
			x = strip(mi.X)
		}
		switch y := x.(type) {
		case *ssa.Alloc:
			for _, r := range referrersOf(y) {
				if fa, ok := r.(*ssa.FieldAddr); ok && fieldName(fa.X.Type(), fa.Field) == "Err" {
					for _, s := range storesTo(fa) {
						out = append(out, errFields(s.Val, depth+1)...)
					}
				}
			}
		case *ssa.UnOp:
			if fa, ok := y.X.(*ssa.FieldAddr); ok && y.Op == token.MUL {
				if n := namedOf(deref(fa.X.Type())); n != nil && n.Obj().Name() == "Errors" {
					out = append(out, fieldName(fa.X.Type(), fa.Field))
				}
			}
		case *ssa.Phi:
			for _, e := range y.Edges {
				out = append(out, errFields(e, depth+1)...)
			}
		}
	}
	return out
}

func c03Precede(rc *RuleCtx) {
	for _, o := range c03Orders {
		f := rc.C.method("memfs", "MemFS", o.fn)
		cons := fmt.Sprintf("memfs.(*MemFS).%s %s before %s", o.fn, o.first, o.second)
		if f == nil {
			rc.anchor(cons)
			continue
		}
		ei := errResultIndex(f.Signature)
		var firsts, seconds []guardRet
		for _, r := range returnsOf(f) {
			if ei < 0 || ei >= len(r.Results) {
				continue
			}
			for _, fld := range errFields(returnOperandOr(r, ei), 0) {
				g := guardRet{fld, r.Block(), r.Pos()}
				if o.inLoop && !blockInLoop(r.Block().Idom()) {
					continue // a return block reaches nothing: "in the loop" is asked of the block that decides it
				}
				if fld == o.first {
					firsts = append(firsts, g)
				} else if fld == o.second {
					seconds = append(seconds, g)
				}
			}
		}
		if len(firsts) == 0 || len(seconds) == 0 {
			rc.bad(cons, f.Pos(), fmt.Sprintf("the guards were not recognised (%d returning %s, %d returning %s)", len(firsts), o.first, len(seconds), o.second))
			continue
		}
		var badAt token.Pos
		for _, a := range firsts {
			for _, b := range seconds {
				if !guardBefore(a, b) && badAt == token.NoPos {
					badAt = b.pos
				}
			}
		}
		if badAt != token.NoPos {
			rc.bad(cons, badAt, fmt.Sprintf("a guard returning %s is not decided after every guard returning %s: %s", o.second, o.first, o.why))
		} else {
			rc.good(cons, f.Pos(), o.why)
		}
	}
}

func blockInLoop(b *ssa.BasicBlock) bool {
	// b or one of its dominators lies on a cycle (a block all of whose paths return is inside the loop's body without reaching itself)
	for ; b != nil; b = b.Idom() {
		for _, su := range b.Succs {
			if reachableFrom(su)[b] {
				return true
			}
		}
	}
	return false
}

// ---- round 11: FailFS hands the injected error on as it is; a listing that ended drops its snapshot; OrefaFS releases what it unindexes ----

func init() {
	register(&Rule{ID: "C12.verbatim", Floor: 1,
		Text: "an injected failure is returned exactly as the failure function produced it: every return of FailFS.fail is the result of the call of the failFunc field, neither wrapped (a *PathError around io.EOF turns the end of a file into an error for ReadFile and io.ReadAll) nor replaced",
		Run:  c12Verbatim})
	register(&Rule{ID: "C14.eofdrop", Floor: 4, Also: []string{"C02"},
		Text: "a batched listing that reached its end starts afresh: in ReadDir and Readdirnames of MemFile and OrefaFile every return carrying io.EOF is preceded, in its own block or a dominating one after the end was detected, by a store of nil to the handle's snapshot (dirEntries / dirNames) - a snapshot kept beyond EOF is replayed by the next ReadDir(n>0) on the handle, which then enumerates names that no longer exist and misses new ones (os.File reads the directory again)",
		Run:  c14EOFDrop})
	register(&Rule{ID: "C05.release", Floor: 2,
		Text: "OrefaFS never drops a path from its index during a removal without releasing the node behind it: in Remove and removeAll every delete on the nodes map is dominated by a call of node.remove in the same function, or by the decrement of the node's nlink field written out in its place (that is where the link counter goes down) - an index entry deleted alone leaves Nlink counting a name that is gone on every other hard link of the file",
		Run:  c05Release})
}

func c12Verbatim(rc *RuleCtx) {
	f := rc.C.method("failfs", "FailFS", "fail")
	cons := "failfs.(*FailFS).fail returns the injected error as it is"
	if f == nil {
		rc.anchor(cons)
		return
	}
	n := 0
	var badAt token.Pos
	why := ""
	for _, r := range returnsOf(f) {
		if len(r.Results) != 1 {
			continue
		}
		for _, v := range resolveRaw(returnOperandOr(r, 0)) {
			n++
			c, _ := resultOfCall(resolve1(v))
			ok := false
			if c != nil && c.Common().StaticCallee() == nil && !c.Common().IsInvoke() {
				ok = isFieldLoad(resolve1(c.Common().Value), "failFunc")
			}
			if !ok && badAt == token.NoPos {
				badAt, why = r.Pos(), "a return hands out "+accessPath(strip(v))+", not the result of failFunc"
			}
		}
	}
	switch {
	case n == 0:
		rc.bad(cons, f.Pos(), "no return recognised")
	case badAt != token.NoPos:
		rc.bad(cons, badAt, why)
	default:
		rc.good(cons, f.Pos(), fmt.Sprintf("%d return values, each the result of failFunc", n))
	}
}

func c14EOFDrop(rc *RuleCtx) {
	for _, t := range []struct{ pk, typ, m, fld string }{
		{"memfs", "MemFile", "ReadDir", "dirEntries"}, {"memfs", "MemFile", "Readdirnames", "dirNames"},
		{"orefafs", "OrefaFile", "ReadDir", "dirEntries"}, {"orefafs", "OrefaFile", "Readdirnames", "dirNames"}} {
		f := rc.C.method(t.pk, t.typ, t.m)
		cons := fmt.Sprintf("%s.(*%s).%s drops the snapshot at EOF", t.pk, t.typ, t.m)
		if f == nil {
			rc.anchor(cons)
			continue
		}
		ei := errResultIndex(f.Signature)
		n := 0
		var badAt token.Pos
		for _, r := range returnsOf(f) {
			eof := false
			for _, l := range errLeaves(rc.C, returnOperandOr(r, ei), 0) {
				if l.name == "io.EOF" {
					eof = true
				}
			}
			if !eof {
				continue
			}
			n++
			dropped := false
			for b := r.Block(); b != nil && !dropped; b = b.Idom() {
				for _, in := range b.Instrs {
					if st, ok := in.(*ssa.Store); ok {
						if fa, ok := st.Addr.(*ssa.FieldAddr); ok && fieldName(fa.X.Type(), fa.Field) == t.fld && isNilConst(strip(st.Val)) {
							dropped = true
						}
					}
				}
				if len(b.Preds) != 1 {
					break // stop at the first join: beyond it the store is not on every path to this return
				}
			}
			if !dropped && badAt == token.NoPos {
				badAt = r.Pos()
			}
		}
		switch {
		case n == 0:
			rc.bad(cons, f.Pos(), "no return carrying io.EOF was recognised")
		case badAt != token.NoPos:
			rc.bad(cons, badAt, "io.EOF is returned with the snapshot "+t.fld+" still in place: the next batched call on the handle replays it")
		default:
			rc.good(cons, f.Pos(), fmt.Sprintf("%d EOF returns, each after %s = nil", n, t.fld))
		}
	}
}

func c05Release(rc *RuleCtx) {
	for _, m := range []string{"Remove", "removeAll"} {
		f := rc.C.method("orefafs", "OrefaFS", m)
		cons := "orefafs.(*OrefaFS)." + m + " releases every node it unindexes"
		if f == nil {
			rc.anchor(cons)
			continue
		}
		var rel []ssa.Instruction
		eachCall(f, func(c ssa.CallInstruction) {
			if fn := calleeFunc(c); fn != nil && fn.Name() == "remove" && recvNamed(fn) != nil && recvNamed(fn).Obj().Name() == "node" {
				rel = append(rel, c.(ssa.Instruction))
			}
		})
		// the release written out where it happens: a decrement of the nlink field
		eachInstr(f, func(in ssa.Instruction) {
			if st, ok := in.(*ssa.Store); ok {
				if fa, ok := st.Addr.(*ssa.FieldAddr); ok && fieldName(fa.X.Type(), fa.Field) == "nlink" {
					if b, ok := strip(st.Val).(*ssa.BinOp); ok && b.Op == token.SUB {
						rel = append(rel, in)
					}
				}
			}
		})
		n := 0
		var badAt token.Pos
		eachCall(f, func(c ssa.CallInstruction) {
			if builtinName(c) != "delete" || len(c.Common().Args) != 2 || !isFieldLoad(resolve1(c.Common().Args[0]), "nodes") {
				return
			}
			n++
			ok := false
			for _, r := range rel {
				if domInstr(r, c.(ssa.Instruction)) {
					ok = true
				}
			}
			if !ok && badAt == token.NoPos {
				badAt = c.Pos()
			}
		})
		switch {
		case n == 0:
			rc.bad(cons, f.Pos(), "no delete on the index was recognised")
		case badAt != token.NoPos:
			rc.bad(cons, badAt, "a path is deleted from the index on a path of the function where node.remove was not called: the link counter of the node keeps counting the name")
		default:
			rc.good(cons, f.Pos(), fmt.Sprintf("%d deletions from the index, each after node.remove", n))
		}
	}
}

func orNil(e ast.Expr) ast.Expr {
	if e == nil {
		return &ast.BadExpr{}
	}
	return e
}

// winCond: the condition is `X == OsWindows` (true, ok), `X != OsWindows` (false, ok), under any number of `!` and
// parentheses; anything else (a conjunction, a helper call) gives ok=false and the branch is compared with the Linux table
// only if it assigns an Op at all.
func winCond(e ast.Expr) (isWindows, ok bool) {
	neg := false
	for {
		e = ast.Unparen(e)
		u, isU := e.(*ast.UnaryExpr)
		if !isU || u.Op != token.NOT {
			break
		}
		neg = !neg
		e = u.X
	}
	b, isB := e.(*ast.BinaryExpr)
	if !isB || (b.Op != token.EQL && b.Op != token.NEQ) {
		return false, false
	}
	isW := func(x ast.Expr) bool {
		switch y := ast.Unparen(x).(type) {
		case *ast.SelectorExpr:
			return y.Sel.Name == "OsWindows"
		case *ast.Ident:
			return y.Name == "OsWindows"
		}
		return false
	}
	if !isW(b.X) && !isW(b.Y) {
		return false, false
	}
	return (b.Op == token.EQL) != neg, true
}

// singleDef: the initialiser of a local variable that is defined once (`:=` or var) and never assigned again nor has its address taken.
func singleDef(info *types.Info, fd *ast.FuncDecl, obj types.Object) ast.Expr {
	if obj == nil || !isLocalVar(obj) {
		return nil
	}
	var init ast.Expr
	n, spoiled := 0, false
	ast.Inspect(fd.Body, func(nd ast.Node) bool {
		switch x := nd.(type) {
		case *ast.AssignStmt:
			for i, l := range x.Lhs {
				id, isID := l.(*ast.Ident)
				if !isID {
					continue
				}
				if info.Defs[id] == obj {
					n++
					if len(x.Lhs) == len(x.Rhs) {
						init = x.Rhs[i]
					} else {
						spoiled = true
					}
				} else if info.Uses[id] == obj {
					spoiled = true
				}
			}
		case *ast.ValueSpec:
			for i, nm := range x.Names {
				if info.Defs[nm] == obj {
					n++
					if i < len(x.Values) && len(x.Values) == len(x.Names) {
						init = x.Values[i]
					} else {
						spoiled = true
					}
				}
			}
		case *ast.UnaryExpr:
			if x.Op == token.AND {
				if id, isID := ast.Unparen(x.X).(*ast.Ident); isID && info.Uses[id] == obj {
					spoiled = true
				}
			}
		case *ast.IncDecStmt:
			if id, isID := ast.Unparen(x.X).(*ast.Ident); isID && info.Uses[id] == obj {
				spoiled = true
			}
		case *ast.RangeStmt:
			for _, e := range []ast.Expr{x.Key, x.Value} {
				if id, isID := e.(*ast.Ident); isID && (info.Defs[id] == obj || info.Uses[id] == obj) {
					spoiled = true
				}
			}
		}
		return true
	})
	if n != 1 || spoiled {
		return nil
	}
	return init
}
