package main

import (
	"fmt"
	"go/ast"
	"go/constant"
	"go/token"
	"go/types"
	"sort"
	"strings"

	"golang.org/x/tools/go/ssa"
)

// C17 — OS-type emulation does not depend on the host.

func init() {
	notDecided["C17"] = []string{
		"pairwise behavioural agreement of the Windows-typed and the Linux-typed emulation on portable paths",
		"volume-management call sequences (VolumeAdd/VolumeDelete/VolumeList) beyond the constructor defaults",
		"which Windows error value each situation must produce (only the type of the value and the totality of the table are decided)",
	}
	register(&Rule{ID: "C17.guard", Floor: 2,
		Text: "OSTypeFn.SetOSType, partially evaluated with BuildFeatures() folded to the constant of each build configuration: with avfs_setostype no path returns an error and every path stores the requested type; without it a type different from the host's is never stored and a refused request is reported",
		Run:  c17Guard})
	register(&Rule{ID: "C17.errors", Floor: 4, Also: []string{"C01", "C04"},
		Text: "Errors.SetOSType, evaluated for every OSType constant, assigns every field of avfs.Errors on every path; the Windows branch only WindowsError values (bar the documented TooManySymlinks), every other branch the LinuxError of the field's meaning",
		Run:  c17Errors})
	register(&Rule{ID: "C17.ctor", Floor: 5, Also: []string{"C01", "C02"},
		Text: "the constructors of MemFS, OrefaFS and MemIdm select the error table from the object's own OSType() after SetOSType, and set the Windows defaults (volumes, modes, separator-dependent working directory) only under an OSType()==OsWindows test on the object",
		Run:  c17Ctor})
	register(&Rule{ID: "C17.hostfree", Floor: 150,
		Text:     "outside vfs_ostype_off.go (the untagged host pass-through), osfs/osidm and the host detection itself, no function of the emulation refers to a host-dependent path facility (path/filepath functions or Separator, os.PathSeparator, os.IsPathSeparator, runtime.GOOS, os.Getwd/TempDir); host-independent sentinel values (SkipDir, SkipAll, ErrBadPattern) are allowed",
		Also:     []string{"C13", "C10", "C09", "C12"},
		AlsoOnly: map[string][]string{"C09": {"rofs."}, "C12": {"failfs."}}, AlsoFloor: map[string]int{"C09": 20, "C12": 20},
		Run: c17HostFree})
}

// constOfCall: the static callee returns the same constant on every path.
func constOfCall(v ssa.Value) (constant.Value, bool) {
	c, ok := v.(*ssa.Call)
	if !ok {
		return nil, false
	}
	callee := c.Call.StaticCallee()
	if callee == nil || len(callee.Blocks) == 0 {
		return nil, false
	}
	var out constant.Value
	for _, r := range returnsOf(callee) {
		if len(r.Results) != 1 {
			return nil, false
		}
		k, ok := strip(r.Results[0]).(*ssa.Const)
		if !ok || k.Value == nil {
			return nil, false
		}
		if out != nil && !constant.Compare(out, token.EQL, k.Value) {
			return nil, false
		}
		out = k.Value
	}
	return out, out != nil
}

// valueOnPath resolves phis along a concrete block path.
func valueOnPath(v ssa.Value, blocks []*ssa.BasicBlock) ssa.Value {
	for i := 0; i < 10; i++ {
		p, ok := v.(*ssa.Phi)
		if !ok {
			return v
		}
		n := phiOnPath(p, blocks)
		if n == nil {
			return v
		}
		v = n
	}
	return v
}

func isCallNamed(v ssa.Value, name string) bool {
	c, _ := resultOfCall(v)
	if c == nil {
		return false
	}
	fn := calleeFunc(c)
	return fn != nil && nm(fn) == name
}

func c17Guard(rc *RuleCtx) {
	f := rc.C.method("avfs", "OSTypeFn", "SetOSType")
	if f == nil {
		rc.anchor("avfs.(*OSTypeFn).SetOSType")
		return
	}
	param := f.Params[1]
	env := func(v ssa.Value) (constant.Value, bool) {
		if c, ok := v.(*ssa.Call); ok {
			if fn := calleeFunc(c); fn != nil && fn.Name() == "BuildFeatures" {
				return constOfCall(c)
			}
		}
		return nil, false
	}
	// is the feature enabled in this configuration?
	bf := rc.C.fn("avfs", "BuildFeatures")
	if bf == nil {
		rc.anchor("avfs.BuildFeatures")
		return
	}
	var bfVal constant.Value
	for _, r := range returnsOf(bf) {
		if k, ok := strip(r.Results[0]).(*ssa.Const); ok {
			bfVal = k.Value
		}
	}
	if bfVal == nil {
		rc.bad(funcName(f)+" ["+rc.C.Name+"]", f.Pos(), "BuildFeatures() does not return a constant in this configuration: the guard cannot be folded")
		return
	}
	enabled := constant.Sign(bfVal) != 0
	paths := evalPaths(f, env, 64)
	cons := fmt.Sprintf("%s [%s build]", funcName(f), rc.C.Name)
	if len(paths) == 0 {
		rc.bad(cons, f.Pos(), "no path could be evaluated")
		return
	}
	for _, p := range paths {
		// error on this path
		ev := valueOnPath(p.Ret.Results[0], p.Blocks)
		ev = strip(ev)
		errNil := isNilConst(ev)
		// stored type on this path
		var stored ssa.Value
		for _, b := range p.Blocks {
			for _, in := range b.Instrs {
				if st, ok := in.(*ssa.Store); ok {
					if fa, ok := st.Addr.(*ssa.FieldAddr); ok && fieldName(fa.X.Type(), fa.Field) == "osType" {
						stored = valueOnPath(st.Val, p.Blocks)
					}
				}
			}
		}
		kind := "nothing"
		switch {
		case stored == nil:
		case strip(stored) == ssa.Value(param):
			kind = "param"
			for _, c := range p.Conds {
				v, truth := normCond(c.Cond, c.Truth)
				if b, ok := v.(*ssa.BinOp); ok {
					x, y := strip(valueOnPath(b.X, p.Blocks)), strip(valueOnPath(b.Y, p.Blocks))
					other := y
					if y == ssa.Value(param) {
						other = x
					} else if x != ssa.Value(param) {
						continue
					}
					if isCallNamed(other, "CurrentOSType") && ((b.Op == token.NEQ && !truth) || (b.Op == token.EQL && truth)) {
						kind = "param==host"
					}
				}
			}
		case isCallNamed(stored, "CurrentOSType"):
			kind = "host"
		default:
			kind = "other:" + accessPath(stored)
		}
		if enabled {
			if !errNil {
				rc.bad(cons, p.Ret.Pos(), "with the avfs_setostype tag a path of SetOSType still returns an error ("+accessPath(ev)+"): a foreign OS type is refused although selection is enabled")
				return
			}
			// host is acceptable only on the OsUnknown path (param == OsUnknown)
			if kind == "host" {
				okUnknown := false
				for _, c := range p.Conds {
					v, truth := normCond(c.Cond, c.Truth)
					if b, ok := v.(*ssa.BinOp); ok && b.Op == token.EQL && truth {
						if k, isC := constInt(b.Y); isC && k == 0 && strip(valueOnPath(b.X, p.Blocks)) == ssa.Value(param) {
							okUnknown = true
						}
					}
				}
				if !okUnknown {
					rc.bad(cons, p.Ret.Pos(), "with the tag set a path stores the host's type instead of the requested one")
					return
				}
			} else if kind != "param" && kind != "param==host" {
				rc.bad(cons, p.Ret.Pos(), "a successful path stores "+kind+" instead of the requested type")
				return
			}
		} else {
			if errNil && kind != "host" && kind != "param==host" {
				rc.bad(cons, p.Ret.Pos(), "without the avfs_setostype tag a path accepts and stores a type that may differ from the host's ("+kind+") while the path functions are the host's")
				return
			}
			if !errNil && kind != "host" && kind != "nothing" && kind != "param==host" {
				rc.bad(cons, p.Ret.Pos(), "a refused request still stores a foreign type ("+kind+")")
				return
			}
		}
	}
	rc.good(cons, f.Pos(), fmt.Sprintf("%d paths evaluated with BuildFeatures()=%s: guard polarity agrees with the build configuration", len(paths), bfVal))
}

var linuxMeaning = map[string]string{
	"BadFileDesc": "ErrBadFileDesc", "DirNotEmpty": "ErrDirNotEmpty", "FileExists": "ErrFileExists",
	"InvalidArgument": "ErrInvalidArgument", "IsADirectory": "ErrIsADirectory", "NoSuchDir": "ErrNoSuchFileOrDir",
	"NoSuchFile": "ErrNoSuchFileOrDir", "NotADirectory": "ErrNotADirectory", "OpNotPermitted": "ErrOpNotPermitted",
	"PermDenied": "ErrPermDenied", "TooManySymlinks": "ErrTooManySymlinks",
}

func c17Errors(rc *RuleCtx) {
	f := rc.C.method("avfs", "Errors", "SetOSType")
	errsT := rc.C.named("avfs", "Errors")
	osT := rc.C.named("avfs", "OSType")
	if f == nil || errsT == nil || osT == nil {
		rc.anchor("avfs.(*Errors).SetOSType / avfs.Errors / avfs.OSType")
		return
	}
	st := errsT.Underlying().(*types.Struct)
	var fields []string
	for i := 0; i < st.NumFields(); i++ {
		fields = append(fields, fieldRole(errsT, i, st.Field(i).Name()))
	}
	// totality of the meaning table against the struct
	for _, fn := range fields {
		if _, ok := linuxMeaning[fn]; !ok {
			rc.bad("avfs.Errors field "+fn+" classified", errsT.Obj().Pos(), "field of avfs.Errors without an entry in the meaning table: the rule cannot judge it")
		}
	}
	sc := osT.Obj().Pkg().Scope()
	var osNames []string
	osVals := map[string]constant.Value{}
	for _, nm := range sc.Names() {
		if k, ok := sc.Lookup(nm).(*types.Const); ok && types.Identical(k.Type(), osT) {
			osNames = append(osNames, nm)
			osVals[nm] = k.Val()
		}
	}
	sort.Strings(osNames)
	param := f.Params[1]
	for _, osn := range osNames {
		val := osVals[osn]
		env := func(v ssa.Value) (constant.Value, bool) {
			if v == ssa.Value(param) {
				return val, true
			}
			return nil, false
		}
		paths := evalPaths(f, env, 16)
		cons := fmt.Sprintf("%s osType=%s", funcName(f), osn)
		if len(paths) != 1 {
			rc.bad(cons, f.Pos(), fmt.Sprintf("%d paths for a constant OS type (expected exactly one)", len(paths)))
			continue
		}
		assigned := map[string]string{}
		for _, b := range paths[0].Blocks {
			for _, in := range b.Instrs {
				if s, ok := in.(*ssa.Store); ok {
					if fa, ok := s.Addr.(*ssa.FieldAddr); ok && namedOf(fa.X.Type()) == errsT {
						l := errLeaves(rc.C, s.Val, 0)
						name := "?"
						if len(l) == 1 {
							name = l[0].name
						}
						assigned[fieldName(fa.X.Type(), fa.Field)] = name
					}
				}
			}
		}
		bad := ""
		for _, fn := range fields {
			got, ok := assigned[fn]
			if !ok {
				bad = "field " + fn + " is left unassigned: a refusal of that kind would be a nil error"
				break
			}
			got = strings.TrimPrefix(got, "avfs.")
			if osn == "OsWindows" {
				if fn == "TooManySymlinks" && got == "ErrTooManySymlinks" {
					continue // documented: no Windows counterpart
				}
				if !strings.HasPrefix(got, "ErrWin") {
					bad = "the Windows table assigns " + got + " to " + fn + ": not a WindowsError value"
					break
				}
			} else {
				if want := linuxMeaning[fn]; got != want {
					bad = "the POSIX table assigns " + got + " to " + fn + " instead of " + want
					break
				}
			}
		}
		if bad != "" {
			rc.bad(cons, f.Pos(), bad)
		} else {
			rc.good(cons, f.Pos(), fmt.Sprintf("all %d fields assigned with values of the right family", len(fields)))
		}
	}
}

func c17Ctor(rc *RuleCtx) {
	for _, pk := range []string{"memfs", "orefafs", "memidm"} {
		f := rc.C.fn(pk, "NewWithOptions")
		cons := pk + ".NewWithOptions"
		if f == nil {
			rc.anchor(cons)
			continue
		}
		var setOS, errSet ssa.CallInstruction
		var obj ssa.Value
		eachCall(f, func(c ssa.CallInstruction) {
			fn := calleeFunc(c)
			if fn == nil || fn.Name() != "SetOSType" {
				return
			}
			if isNamed(fn.Type().(*types.Signature).Recv().Type(), modPath, "OSTypeFn") {
				setOS = c
			} else if isNamed(fn.Type().(*types.Signature).Recv().Type(), modPath, "Errors") {
				errSet = c
			}
		})
		if setOS == nil {
			rc.bad(cons, f.Pos(), "the constructor does not call SetOSType with the requested type")
			continue
		}
		// the object under construction: root of the receiver access path
		obj = rootAlloc(callRecv(setOS))
		bad := ""
		if errSet != nil {
			if !domInstr(setOS, errSet) {
				bad = "the error table is selected before the OS type is set"
			} else {
				a := callArgs(errSet)
				oc, _ := resultOfCall(a[0])
				if oc == nil || calleeFunc(oc) == nil || calleeFunc(oc).Name() != "OSType" || rootAlloc(callRecv(oc)) != obj {
					bad = "the error table is not selected from the object's own OSType() (it would follow the request even when it was refused)"
				}
			}
		} else if pk != "memidm" {
			bad = "the constructor does not select the error table"
		}
		// Windows defaults under an OSType()==OsWindows test
		if bad == "" {
			eachInstr(f, func(in ssa.Instruction) {
				s, ok := in.(*ssa.Store)
				if !ok || bad != "" {
					return
				}
				fa, ok := s.Addr.(*ssa.FieldAddr)
				if !ok {
					return
				}
				name := fieldName(fa.X.Type(), fa.Field)
				if name != "volumes" {
					return
				}
				okw := false
				for _, fct := range factsAt(s.Block()) {
					v, truth := normCond(fct.Cond, fct.Truth)
					if b, isB := v.(*ssa.BinOp); isB && b.Op == token.EQL && truth {
						if isCallNamed(b.X, "OSType") {
							if k, isC := constInt(b.Y); isC && k == 2 {
								okw = true
							}
						}
					}
				}
				if !okw {
					bad = "the volume table (a Windows default) is created outside an OSType()==OsWindows test"
				}
			})
		}
		if bad != "" {
			rc.bad(cons, f.Pos(), bad)
		} else {
			rc.good(cons, f.Pos(), "SetOSType precedes the selection of the error table from the object's own OSType(); Windows defaults are guarded")
		}
		if pk != "memidm" {
			c17CtorVolume(rc, pk, f)
		}
	}
}

// underWindowsTest: the block is reached only when OSType()==OsWindows was established.
func underWindowsTest(b *ssa.BasicBlock) bool {
	for _, fct := range factsAt(b) {
		v, truth := normCond(fct.Cond, fct.Truth)
		if bo, isB := v.(*ssa.BinOp); isB && bo.Op == token.EQL && truth && isCallNamed(bo.X, "OSType") {
			if k, isC := constInt(bo.Y); isC && k == 2 {
				return true
			}
		}
	}
	return false
}

// c17CtorVolume: the name under which the constructor registers the root directory, and the volume it hands to
// SystemDirs, is the default volume exactly when the object is Windows-typed and the empty name otherwise.
func c17CtorVolume(rc *RuleCtx, pk string, f *ssa.Function) {
	cons := pk + ".NewWithOptions volume"
	def := ""
	if o, ok := rc.C.pkg("avfs").Types.Scope().Lookup("DefaultVolume").(*types.Const); ok && o.Val().Kind() == constant.String {
		def = constant.StringVal(o.Val())
	}
	if def == "" {
		rc.anchor(cons + " (avfs.DefaultVolume)")
		return
	}
	strOf := func(v ssa.Value) (string, bool) {
		if c, ok := v.(*ssa.Const); ok && c.Value != nil && c.Value.Kind() == constant.String {
			return constant.StringVal(c.Value), true
		}
		return "", false
	}
	// follows the OS type: the default volume under the Windows test, the empty name on the other way in
	follows := func(v ssa.Value, at *ssa.BasicBlock) string {
		if s, ok := strOf(v); ok {
			if s == def && underWindowsTest(at) {
				return ""
			}
			return fmt.Sprintf("is the constant %q whatever the OS type of the object", s)
		}
		ph, ok := v.(*ssa.Phi)
		if !ok {
			return "is not selected by the OsWindows test of the constructor"
		}
		win, other := 0, 0
		for i, e := range ph.Edges {
			s, ok := strOf(e)
			switch {
			case ok && s == def && underWindowsTest(ph.Block().Preds[i]):
				win++
			case ok && s == "" && !underWindowsTest(ph.Block().Preds[i]):
				other++
			default:
				return "is not the default volume on the Windows side and the empty name on the other"
			}
		}
		if win == 0 || other == 0 {
			return "does not depend on the OS type of the object"
		}
		return ""
	}
	n := 0
	bad := ""
	var at token.Pos = f.Pos()
	eachInstr(f, func(in ssa.Instruction) {
		if bad != "" {
			return
		}
		switch x := in.(type) {
		case *ssa.MapUpdate:
			fa := ""
			if u, ok := x.Map.(*ssa.UnOp); ok {
				if a, ok := u.X.(*ssa.FieldAddr); ok {
					fa = fieldName(a.X.Type(), a.Field)
				}
			} else if mm, ok := x.Map.(*ssa.MakeMap); ok {
				// the map is stored into the field afterwards
				for _, r := range *mm.Referrers() {
					if st, ok := r.(*ssa.Store); ok {
						if a, ok := st.Addr.(*ssa.FieldAddr); ok {
							fa = fieldName(a.X.Type(), a.Field)
						}
					}
				}
			}
			if fa != "nodes" && fa != "volumes" {
				return
			}
			n++
			if why := follows(x.Key, x.Block()); why != "" {
				bad, at = "the name under which the root directory is registered in "+fa+" "+why, x.Pos()
			}
		case ssa.CallInstruction:
			fn := calleeFunc(x)
			if fn == nil || fn.Name() != "SystemDirs" {
				return
			}
			a := callArgs(x)
			if len(a) < 2 {
				return
			}
			n++
			if why := follows(a[len(a)-1], in.Block()); why != "" {
				bad, at = "the volume handed to SystemDirs "+why, in.Pos()
			}
		}
	})
	switch {
	case bad == "" && n < 2:
		rc.bad(cons, f.Pos(), "the constructor no longer registers the root directory in the index and asks SystemDirs for the directories of that volume")
	case bad != "":
		rc.bad(cons, at, bad+": a Windows-typed file system has no root directory where its paths look for it (every call on its own volume fails), whatever the host")
	default:
		rc.good(cons, f.Pos(), fmt.Sprintf("%d uses of the volume name: the default volume under the OsWindows test, the empty name otherwise", n))
	}
}

func rootAlloc(v ssa.Value) ssa.Value {
	for i := 0; i < 20 && v != nil; i++ {
		switch x := v.(type) {
		case *ssa.FieldAddr:
			v = x.X
		case *ssa.UnOp:
			v = x.X
		case *ssa.ChangeType:
			v = x.X
		case *ssa.MakeInterface:
			v = x.X
		default:
			return v
		}
	}
	return v
}

var hostDependent = map[string]map[string]bool{
	"path/filepath": {"Abs": true, "Base": true, "Clean": true, "Dir": true, "EvalSymlinks": true, "Ext": true, "FromSlash": true, "Glob": true,
		"IsAbs": true, "IsLocal": true, "Join": true, "Match": true, "Rel": true, "Split": true, "SplitList": true, "ToSlash": true,
		"VolumeName": true, "Walk": true, "WalkDir": true, "Separator": true, "ListSeparator": true, "Localize": true},
	"os":      {"PathSeparator": true, "PathListSeparator": true, "IsPathSeparator": true, "Getwd": true, "TempDir": true, "DevNull": true},
	"runtime": {"GOOS": true},
	modPath:   {"CurrentOSType": true},
}

// hostTypedByDesign: declarations that may ask for the host's OS type: the default of a request that names none, the
// refusal of another type in the untagged build, the identity managers that stand for the host.
var hostTypedByDesign = map[string]bool{"avfs.(*OSTypeFn).SetOSType": true, "avfs.(*DummyIdm).OSType": true, "memidm.New": true, "memidm.NewWithOptions": true}

// usedOnlyByHostDetection: d declares an unexported function of package avfs whose every reference in the module lies
// inside the declaration of currentOSType or CurrentOSType (the one place that is allowed to look at the host).
func usedOnlyByHostDetection(rc *RuleCtx, d ast.Decl) bool {
	fd, ok := d.(*ast.FuncDecl)
	if !ok || fd.Recv != nil || token.IsExported(fd.Name.Name) {
		return false
	}
	p := rc.C.pkg("avfs")
	obj := p.TypesInfo.Defs[fd.Name]
	if obj == nil {
		return false
	}
	var spans [][2]token.Pos
	for _, file := range p.Syntax {
		for _, dd := range file.Decls {
			if n := declName(dd); n == "currentOSType" || n == "CurrentOSType" {
				spans = append(spans, [2]token.Pos{dd.Pos(), dd.End()})
			}
		}
	}
	uses := 0
	for _, pk := range []string{"avfs", "memfs", "orefafs", "memidm", "rofs", "basepathfs", "failfs", "osfs", "osidm", "test"} {
		q := rc.C.pkg(pk)
		if q == nil {
			continue
		}
		for id, o := range q.TypesInfo.Uses {
			if o != obj {
				continue
			}
			uses++
			in := false
			for _, sp := range spans {
				if pk == "avfs" && id.Pos() >= sp[0] && id.Pos() < sp[1] {
					in = true
				}
			}
			if !in {
				return false
			}
		}
	}
	return uses > 0
}

func c17HostFree(rc *RuleCtx) {
	for _, pk := range []string{"avfs", "memfs", "orefafs", "memidm", "rofs", "basepathfs", "failfs"} {
		p := rc.C.pkg(pk)
		if p == nil {
			rc.anchor("package " + pk)
			continue
		}
		for _, file := range p.Syntax {
			fname := rc.C.Fset.Position(file.Pos()).Filename
			base := fname[strings.LastIndex(fname, "/")+1:]
			if base == "vfs_ostype_off.go" {
				continue // the untagged build is by definition the host pass-through (C13 decides its forwards)
			}
			for _, d := range file.Decls {
				start, end := d.Pos(), d.End()
				name := declName(d)
				if name == "" {
					continue
				}
				var hits []string
				var hitPos token.Pos
				for id, obj := range p.TypesInfo.Uses {
					if id.Pos() < start || id.Pos() >= end || obj.Pkg() == nil {
						continue
					}
					if hostDependent[obj.Pkg().Path()][obj.Name()] && !(obj.Name() == "CurrentOSType" && hostTypedByDesign[pk+"."+name]) {
						// package-level object only
						if obj.Parent() == obj.Pkg().Scope() {
							hits = append(hits, obj.Pkg().Name()+"."+obj.Name())
							hitPos = id.Pos()
						}
					}
				}
				cons := pk + "." + name + " host-free"
				if pk == "avfs" && (name == "currentOSType" || name == "CurrentOSType") {
					rc.good(cons, d.Pos(), "the host detection itself")
					continue
				}
				if pk == "avfs" && len(hits) > 0 && usedOnlyByHostDetection(rc, d) {
					rc.good(cons, d.Pos(), "part of the host detection: referenced only by the declaration of currentOSType / CurrentOSType")
					continue
				}
				if len(hits) == 0 {
					rc.good(cons, d.Pos(), "no host-dependent path facility referenced")
				} else {
					sort.Strings(hits)
					rc.bad(cons, hitPos, "refers to "+strings.Join(uniq(hits), ", ")+": the result depends on the host's separator / OS instead of the emulated OS type")
				}
			}
		}
	}
}
