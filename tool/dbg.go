package main

import (
	"fmt"
	"go/types"
	"os"
	"strings"

	"golang.org/x/tools/go/ssa"
)

func init() {
	if len(os.Args) > 1 && os.Args[1] == "-methodsets" {
		c, err := loadConfig("/repo", "default", "")
		if err != nil {
			panic(err)
		}
		for _, n := range []string{"VFS", "File", "VFSBase", "IOFS", "IdentityMgr"} {
			t := c.named("avfs", n)
			ms := types.NewMethodSet(t)
			fmt.Printf("%s (%d):", n, ms.Len())
			for i := 0; i < ms.Len(); i++ {
				fmt.Printf(" %s", ms.At(i).Obj().Name())
			}
			fmt.Println()
		}
		os.Exit(0)
	}
}

func dbgFacts(c *Config, p []Fact) string {
	var out []string
	for _, fa := range p {
		v, t := normCond(fa.Cond, fa.Truth)
		out = append(out, fmt.Sprintf("%s:%v[%s]", shortPos(c.pos(v.Pos())), t, v.String()))
	}
	return strings.Join(out, " ; ")
}

func dbgVals(vs []ssa.Value) string {
	var out []string
	for _, v := range vs {
		out = append(out, fmt.Sprintf("%T:%s", v, v.String()))
	}
	return strings.Join(out, " | ")
}
