package main

import (
	"fmt"
	"go/token"
	"go/types"
	"os"
	"strings"
	"sync"

	"golang.org/x/tools/go/ssa"
)

// C16 — CopyFile / CopyFileHash / HashFile report every failure.

func init() {
	notDecided["C16"] = []string{
		"byte-for-byte fidelity of io.CopyBuffer and of the destination file system's Write",
		"correctness of the digest computed by the caller's hash.Hash",
		"that the file systems' own methods report their failures (C12/C02 territory)",
	}
	register(&Rule{ID: "C16.checked", Floor: 10,
		Text: "every call in copy.go whose last result is an error has that error tested (non-nil branch returns it), returned directly, or stored into the enclosing function's error result by a deferred handler; the only call that may drop it is a deferred Close of a handle opened with the constant flag O_RDONLY",
		Run:  c16Checked})
	register(&Rule{ID: "C16.nonil", Floor: 1,
		Text: "inside a deferred closure a store to the enclosing function's error result is dominated by `stored != nil` or by `result == nil` (a deferred handler may turn success into failure, never failure into success)",
		Run:  c16NoNil})
	register(&Rule{ID: "C16.success", Floor: 3,
		Text: "every return whose error operand is nil is dominated by the success branch (err == nil) of every fallible, non-deferred call of the function that can reach it",
		Run:  c16Success})
	register(&Rule{ID: "C16.iface", Floor: 3,
		Text: "the copy functions use their file systems and files only through interface methods (no type assertion of a VFSBase/File/io value to a concrete type)",
		Run:  c16Iface})
	register(&Rule{ID: "C16.digest", Floor: 2,
		Text: "a hasher is Reset before the bytes are copied into it, is a destination of the copy, and Sum is taken only after the copy succeeded",
		Run:  c16Digest})
}

// c16ResultParams: named deferred handlers -> the parameter that points at the deferring function's error result.
var (
	c16ResultParams   = map[*ssa.Function]*ssa.Parameter{}
	c16ResultParamsMu sync.Mutex
)

func c16Funcs(rc *RuleCtx) []*ssa.Function {
	var out []*ssa.Function
	for _, n := range []string{"CopyFile", "CopyFileHash", "HashFile", "copyBufPool"} {
		f := rc.C.fn("avfs", n)
		if f == nil {
			rc.anchor("avfs." + n)
			continue
		}
		out = append(out, withAnon(f)...)
		// named functions of the package that f defers (a deferred handler written as a function instead of a literal)
		eachInstr(f, func(in ssa.Instruction) {
			if d, ok := in.(*ssa.Defer); ok {
				if g := d.Call.StaticCallee(); g != nil && g.Pkg == f.Pkg && len(g.Blocks) > 0 && g.Parent() == nil && !isEntryPoint(g) {
					dup := false
					for _, o := range out {
						if o == g {
							dup = true
						}
					}
					if !dup {
						out = append(out, g)
						if p := deferredResultParam(rc, g); p != nil {
							c16ResultParamsMu.Lock()
							c16ResultParams[g] = p
							c16ResultParamsMu.Unlock()
						}
					}
				}
			}
		})
	}
	return out
}

// deferredResultParam: g is a named function deferred by a copy function with the address of that function's error
// result as an argument; returns the parameter of g that receives it.
func deferredResultParam(rc *RuleCtx, g *ssa.Function) *ssa.Parameter {
	var out *ssa.Parameter
	for _, n := range []string{"CopyFile", "CopyFileHash", "HashFile", "copyBufPool"} {
		f := rc.C.fn("avfs", n)
		if f == nil {
			continue
		}
		pc := errCell(f)
		if pc == nil {
			continue
		}
		eachInstr(f, func(in ssa.Instruction) {
			d, ok := in.(*ssa.Defer)
			if !ok || d.Call.StaticCallee() != g {
				return
			}
			for i, a := range d.Call.Args {
				if strip(a) == ssa.Value(pc) && i < len(g.Params) {
					out = g.Params[i]
				}
			}
		})
	}
	return out
}

// errCell returns the Alloc that holds f's error result when results are spilled (named results + defer), or nil.
func errCell(f *ssa.Function) *ssa.Alloc {
	idx := errResultIndex(f.Signature)
	if idx < 0 {
		return nil
	}
	var cell *ssa.Alloc
	for _, r := range returnsOf(f) {
		if len(r.Results) <= idx {
			return nil
		}
		a, _ := cellOf(r.Results[idx]).(*ssa.Alloc)
		if a == nil {
			return nil
		}
		if cell != nil && cell != a {
			return nil
		}
		cell = a
	}
	return cell
}

// freeVarBinding maps a FreeVar of closure fn to the value bound in its parent's MakeClosure.
func freeVarBinding(fv *ssa.FreeVar) ssa.Value {
	fn := fv.Parent()
	par := fn.Parent()
	if par == nil {
		return nil
	}
	idx := -1
	for i, x := range fn.FreeVars {
		if x == fv {
			idx = i
		}
	}
	var out ssa.Value
	eachInstr(par, func(in ssa.Instruction) {
		if mc, ok := in.(*ssa.MakeClosure); ok && mc.Fn == fn && idx < len(mc.Bindings) {
			out = mc.Bindings[idx]
		}
	})
	return out
}

func isOsConst(v ssa.Value, want int64) bool {
	i, ok := constInt(v)
	return ok && i == want
}

func c16Checked(rc *RuleCtx) {
	for _, f := range c16Funcs(rc) {
		seq := map[string]int{}
		eachCall(f, func(c ssa.CallInstruction) {
			var sig *types.Signature
			if fn := calleeFunc(c); fn != nil {
				sig = fn.Type().(*types.Signature)
			} else if s, ok := c.Common().Value.Type().Underlying().(*types.Signature); ok {
				sig = s
			}
			if sig == nil {
				return
			}
			ei := errResultIndex(sig)
			if ei < 0 {
				return
			}
			name := "dynamic"
			if fn := calleeFunc(c); fn != nil {
				name = fn.Name()
				if n := recvNamed(fn); n != nil {
					name = n.Obj().Name() + "." + name
				}
			}
			seq[name]++
			cons := fmt.Sprintf("%s call %s#%d", funcName(f), name, seq[name])
			// deferred / go calls: result is dropped
			if d, ok := c.(*ssa.Defer); ok {
				// allowed: Close of a handle opened read-only
				fn := calleeFunc(c)
				if fn != nil && fn.Name() == "Close" {
					if oc, i := resultOfCall(resolve1(callRecv(c))); oc != nil && i == 0 {
						if of := calleeFunc(oc); of != nil && of.Name() == "OpenFile" {
							args := callArgs(oc)
							if len(args) >= 2 && isOsConst(args[1], int64(os.O_RDONLY)) {
								rc.good(cons, d.Pos(), "deferred Close of a handle opened with constant O_RDONLY: nothing can be lost")
								return
							}
						}
					}
				}
				rc.bad(cons, d.Pos(), "the error result of a deferred call is dropped and the handle is not provably opened read-only")
				return
			}
			call, ok := c.(*ssa.Call)
			if !ok {
				rc.bad(cons, c.Pos(), "error result of a go statement is dropped")
				return
			}
			// find the error value
			var ev ssa.Value
			if sig.Results().Len() == 1 {
				ev = call
			} else {
				for _, r := range referrersOf(call) {
					if e, ok := r.(*ssa.Extract); ok && e.Index == ei {
						ev = e
					}
				}
			}
			if ev == nil {
				rc.bad(cons, call.Pos(), "the error result is never extracted: it is dropped")
				return
			}
			how, ok := errorIsHandled(f, ev)
			if ok {
				rc.good(cons, call.Pos(), how)
			} else {
				rc.bad(cons, call.Pos(), how)
			}
		})
	}
}

// errorIsHandled decides whether error value ev (a call result) is tested-and-returned, returned, or propagated to the
// enclosing function's error result.
func errorIsHandled(f *ssa.Function, ev ssa.Value) (string, bool) {
	ei := errResultIndex(f.Signature)
	// carriers: ev itself plus loads of cells whose single reaching store is ev
	isEv := func(v ssa.Value) bool {
		if resolve1(v) == ev {
			return true
		}
		// ev among the values v can have (a result variable assigned on several branches, unobservable edges dropped)
		for _, o := range originsOf(v) {
			if o == ev {
				return true
			}
		}
		return false
	}
	// (1) returned directly
	for _, r := range returnsOf(f) {
		if ei >= 0 && len(r.Results) > ei && isEv(r.Results[ei]) {
			// is this return conditional on ev != nil, or unconditional?
			for _, fa := range factsAt(r.Block()) {
				if x, isNil, ok := nilTest(fa); ok && !isNil && isEv(x) {
					return "tested: the non-nil branch returns it", true
				}
			}
			// unconditional return of the error
			if domInstr(ev.(ssa.Instruction), r) {
				return "returned directly to the caller", true
			}
		}
	}
	// (2) stored to the parent's error result from a closure
	if f.Parent() != nil {
		pc := errCell(f.Parent())
		var propagated bool
		eachInstr(f, func(in ssa.Instruction) {
			if s, ok := in.(*ssa.Store); ok && isEv(s.Val) {
				if fv, ok := s.Addr.(*ssa.FreeVar); ok && pc != nil && freeVarBinding(fv) == ssa.Value(pc) {
					propagated = true
				}
			}
		})
		if propagated {
			return "stored into the enclosing function's error result by the deferred handler (see C16.nonil for the condition)", true
		}
	}
	// (2') the same from a named deferred handler, through the pointer it was given
	c16ResultParamsMu.Lock()
	p := c16ResultParams[f]
	c16ResultParamsMu.Unlock()
	if p != nil {
		propagated := false
		eachInstr(f, func(in ssa.Instruction) {
			if s, ok := in.(*ssa.Store); ok && isEv(s.Val) && s.Addr == ssa.Value(p) {
				propagated = true
			}
		})
		if propagated {
			return "stored into the deferring function's error result through the pointer handed to the deferred handler (see C16.nonil for the condition)", true
		}
	}
	return "the error value is neither tested with a returning non-nil branch, nor returned, nor propagated", false
}

func c16NoNil(rc *RuleCtx) {
	for _, f := range c16Funcs(rc) {
		// the address through which the handler reaches the error result of the function that deferred it: the captured
		// variable of a literal, or the pointer parameter of a named handler
		var isResultAddr func(a ssa.Value) bool
		if f.Parent() != nil {
			pc := errCell(f.Parent())
			isResultAddr = func(a ssa.Value) bool {
				fv, ok := a.(*ssa.FreeVar)
				return ok && pc != nil && freeVarBinding(fv) == ssa.Value(pc)
			}
		} else if p := deferredResultParam(rc, f); p != nil {
			isResultAddr = func(a ssa.Value) bool { return a == ssa.Value(p) }
		} else {
			continue
		}
		n := 0
		eachInstr(f, func(in ssa.Instruction) {
			s, ok := in.(*ssa.Store)
			if !ok || !isResultAddr(s.Addr) {
				return
			}
			n++
			cons := fmt.Sprintf("%s store-to-result#%d", funcName(f), n)
			for _, fa := range factsAt(s.Block()) {
				x, isNil, ok := nilTest(fa)
				if !ok {
					continue
				}
				if !isNil && sameValue(x, s.Val) {
					rc.good(cons, s.Pos(), "dominated by `stored value != nil`")
					return
				}
				if isNil {
					// x must be a load of the same address with no store in between
					if u, ok := x.(*ssa.UnOp); ok && u.Op == token.MUL && u.X == s.Addr {
						vals, _ := reachingStores(s.Addr, s)
						if len(vals) == 0 {
							rc.good(cons, s.Pos(), "dominated by `result == nil`: only a nil result is overwritten")
							return
						}
					}
				}
			}
			if c, ok := strip(s.Val).(*ssa.Const); ok && !c.IsNil() {
				rc.good(cons, s.Pos(), "stores a non-nil constant")
				return
			}
			rc.bad(cons, s.Pos(), "a deferred handler overwrites the function's error result without knowing that the stored value is non-nil or that the result was nil: an earlier failure can be turned into success")
		})
	}
}

func c16Success(rc *RuleCtx) {
	for _, f := range c16Funcs(rc) {
		if f.Parent() != nil {
			continue
		}
		ei := errResultIndex(f.Signature)
		if ei < 0 {
			continue
		}
		// fallible steps: non-deferred calls with an error result
		type step struct {
			call *ssa.Call
			ev   ssa.Value
			name string
		}
		var steps []step
		eachCall(f, func(c ssa.CallInstruction) {
			call, ok := c.(*ssa.Call)
			if !ok {
				return
			}
			fn := calleeFunc(c)
			if fn == nil {
				return
			}
			sig := fn.Type().(*types.Signature)
			i := errResultIndex(sig)
			if i < 0 {
				return
			}
			var ev ssa.Value
			if sig.Results().Len() == 1 {
				ev = call
			} else {
				for _, r := range referrersOf(call) {
					if e, ok := r.(*ssa.Extract); ok && e.Index == i {
						ev = e
					}
				}
			}
			steps = append(steps, step{call, ev, fn.Name()})
		})
		nret := 0
		for _, r := range returnsOf(f) {
			if len(r.Results) <= ei {
				continue
			}
			vals := resolve(r.Results[ei])
			allNil := true
			for _, v := range vals {
				if !isNilConst(v) {
					allNil = false
				}
			}
			if !allNil {
				continue
			}
			nret++
			cons := fmt.Sprintf("%s return-nil#%d", funcName(f), nret)
			okAll := true
			why := ""
			facts := factsAt(r.Block())
			for _, st := range steps {
				if !instrReaches(st.call, r) {
					continue
				}
				if st.ev == nil {
					okAll, why = false, "the error of "+st.name+" is dropped before this successful return"
					break
				}
				found := false
				for _, fa := range facts {
					if x, isNil, ok := nilTest(fa); ok && isNil && resolve1(x) == st.ev {
						found = true
					}
				}
				if !found {
					okAll, why = false, "this successful return is not dominated by the success branch of "+st.name
					break
				}
			}
			if okAll {
				rc.good(cons, r.Pos(), "dominated by err == nil of every fallible step that reaches it")
			} else {
				rc.bad(cons, r.Pos(), why)
			}
		}
	}
}

func c16Iface(rc *RuleCtx) {
	for _, f := range c16Funcs(rc) {
		if nm(f) == "copyBufPool" {
			// the pool's Get() is asserted to *[]byte: not a file system object
		}
		bad := ""
		var pos token.Pos
		eachInstr(f, func(in ssa.Instruction) {
			ta, ok := in.(*ssa.TypeAssert)
			if !ok {
				return
			}
			// asserting an interface value coming from a file system / file / io value to a concrete type
			if _, isIface := ta.AssertedType.Underlying().(*types.Interface); isIface {
				return
			}
			src := typeStr(ta.X.Type())
			if src == "any" || src == "interface{}" {
				// sync.Pool.Get result
				if c, _ := resultOfCall(ta.X); c != nil {
					if fn := calleeFunc(c); fn != nil && fn.Name() == "Get" && isNamed(fn.Type().(*types.Signature).Recv().Type(), "sync", "Pool") {
						return
					}
				}
			}
			bad = fmt.Sprintf("type assertion of a %s value to concrete type %s", src, typeStr(ta.AssertedType))
			pos = ta.Pos()
		})
		cons := funcName(f) + " interface-only"
		if bad == "" {
			rc.good(cons, f.Pos(), "no assertion to a concrete file-system type")
		} else {
			rc.bad(cons, pos, bad+": the function would not work across any pair of file systems")
		}
	}
}

func c16Digest(rc *RuleCtx) {
	for _, n := range []string{"CopyFileHash", "HashFile"} {
		f := rc.C.fn("avfs", n)
		if f == nil {
			rc.anchor("avfs." + n)
			continue
		}
		var hasher *ssa.Parameter
		for _, p := range f.Params {
			if isNamed(p.Type(), "hash", "Hash") {
				hasher = p
			}
		}
		if hasher == nil {
			rc.anchor("hash.Hash parameter of avfs." + n)
			continue
		}
		var reset, sum, copyc ssa.CallInstruction
		var copyErr ssa.Value
		eachCall(f, func(c ssa.CallInstruction) {
			fn := calleeFunc(c)
			if fn == nil {
				return
			}
			if c.Common().IsInvoke() && c.Common().Value == ssa.Value(hasher) {
				switch nm(fn) {
				case "Reset":
					reset = c
				case "Sum":
					sum = c
				}
			}
			if isPkgFunc(fn, modPath, "copyBufPool") {
				copyc = c
				for _, r := range referrersOf(c.(*ssa.Call)) {
					if e, ok := r.(*ssa.Extract); ok && e.Index == 1 {
						copyErr = e
					}
				}
			}
		})
		// Reset may be made by a helper that receives the hasher and builds the writer: it must then precede every
		// return of the helper that hands the hasher on, and the helper's call is what must precede the copy
		if reset == nil {
			eachCall(f, func(c ssa.CallInstruction) {
				sc := c.Common().StaticCallee()
				if sc == nil || len(sc.Blocks) == 0 || reset != nil {
					return
				}
				for i, a := range c.Common().Args {
					if i >= len(sc.Params) || strip(a) != ssa.Value(hasher) {
						continue
					}
					hp := sc.Params[i]
					var hr ssa.CallInstruction
					eachCall(sc, func(hc ssa.CallInstruction) {
						if fn := calleeFunc(hc); fn != nil && fn.Name() == "Reset" && hc.Common().IsInvoke() && hc.Common().Value == ssa.Value(hp) {
							hr = hc
						}
					})
					if hr == nil {
						continue
					}
					ok := true
					for _, r := range returnsOf(sc) {
						for _, res := range r.Results {
							if valueReaches(hp, res) && !domInstr(hr, r) {
								ok = false
							}
						}
					}
					if ok {
						reset = c
					}
				}
			})
		}
		cons := funcName(f) + " hasher"
		switch {
		case copyc == nil:
			rc.bad(cons, f.Pos(), "no call of copyBufPool found")
		case sum == nil:
			rc.bad(cons, f.Pos(), "the digest is not taken from the hasher (no Sum call)")
		case reset == nil || !domOrGuarded(reset, copyc, hasher):
			rc.bad(cons, f.Pos(), "hasher.Reset() does not precede the copy on every path where the hasher is used")
		case !valueReaches(hasher, callArgs(copyc)[0]):
			rc.bad(cons, copyc.Pos(), "the hasher is not a destination of the copy")
		default:
			ok := false
			for _, fa := range factsAt(sum.Block()) {
				if x, isNil, k := nilTest(fa); k && isNil && copyErr != nil && resolve1(x) == copyErr {
					ok = true
				}
			}
			if ok {
				rc.good(cons, sum.Pos(), "Reset precedes the copy, the hasher receives the copied bytes, Sum is dominated by the copy's success")
			} else {
				rc.bad(cons, sum.Pos(), "Sum is not dominated by the success branch of the copy")
			}
		}
	}
}

// domOrGuarded: a dominates b, or a dominates every path into b on which `guard != nil` (the hasher==nil branch skips both).
func domOrGuarded(a, b ssa.Instruction, guard ssa.Value) bool {
	if domInstr(a, b) {
		return true
	}
	// a is in a block entered only when guard != nil; b is at a join. Accept if every predecessor path of b's block
	// that does not pass through a's block is under the fact guard == nil.
	bb := b.Block()
	for _, p := range bb.Preds {
		if p == a.Block() || a.Block().Dominates(p) {
			continue
		}
		ok := false
		for _, fa := range factsAt(p) {
			if x, isNil, k := nilTest(fa); k && isNil && x == guard {
				ok = true
			}
		}
		if !ok {
			return false
		}
	}
	return len(bb.Preds) > 0
}

// valueReaches: src flows into dst through interface changes, phis, and variadic slices passed to io.MultiWriter.
func valueReaches(src ssa.Value, dst ssa.Value) bool {
	seen := map[ssa.Value]bool{}
	var walk func(v ssa.Value) bool
	walk = func(v ssa.Value) bool {
		if v == nil || seen[v] {
			return false
		}
		seen[v] = true
		if v == src {
			return true
		}
		switch x := v.(type) {
		case *ssa.ChangeInterface:
			return walk(x.X)
		case *ssa.MakeInterface:
			return walk(x.X)
		case *ssa.ChangeType:
			return walk(x.X)
		case *ssa.Phi:
			for _, e := range x.Edges {
				if walk(e) {
					return true
				}
			}
		case *ssa.Call:
			if fn := calleeFunc(x); fn != nil && isPkgFunc(fn, "io", "MultiWriter") {
				for _, a := range x.Call.Args {
					if walk(a) {
						return true
					}
				}
			}
			// a helper of the library that builds the writer: the source reaches the result when the argument it is
			// passed as reaches a returned value of the helper
			if sc := x.Call.StaticCallee(); sc != nil && len(sc.Blocks) > 0 && sc.Pkg != nil && strings.HasPrefix(sc.Pkg.Pkg.Path(), modPath) {
				for i, a := range x.Call.Args {
					if i >= len(sc.Params) || !walk(a) {
						continue
					}
					for _, r := range returnsOf(sc) {
						for _, res := range r.Results {
							if valueReaches(sc.Params[i], res) {
								return true
							}
						}
					}
				}
			}
		case *ssa.Slice:
			return walk(x.X)
		case *ssa.Alloc:
			// varargs array: look at stores into its elements
			for _, r := range referrersOf(x) {
				if ia, ok := r.(*ssa.IndexAddr); ok {
					for _, s := range storesTo(ia) {
						if walk(s.Val) {
							return true
						}
					}
				}
			}
		case *ssa.UnOp:
			if x.Op == token.MUL {
				for _, rv := range resolve(x) {
					if rv != ssa.Value(x) && walk(rv) {
						return true
					}
				}
			}
		}
		return false
	}
	return walk(dst)
}

func init() {
	register(&Rule{ID: "C16.mode", Floor: 2,
		Text: "every successful return of CopyFileHash is dominated by the success branch of dstFs.Chmod(dstPath, m) where m is Mode() of a Stat of the source (creation alone cannot give the permission bits: it is filtered by the destination's umask and ignored for an existing file)",
		Run:  c16Mode})
}

func c16Mode(rc *RuleCtx) {
	f := rc.C.fn("avfs", "CopyFileHash")
	if f == nil {
		rc.anchor("avfs.CopyFileHash")
		return
	}
	if len(f.Params) < 4 {
		rc.anchor("parameters of avfs.CopyFileHash")
		return
	}
	dstFs, srcFs, dstPath := f.Params[0], f.Params[1], f.Params[2]
	var chmodErr ssa.Value
	why := "no call dstFs.Chmod(dstPath, mode-of-source) found"
	eachCall(f, func(c ssa.CallInstruction) {
		fn := calleeFunc(c)
		if fn == nil || fn.Name() != "Chmod" || !c.Common().IsInvoke() || c.Common().Value != ssa.Value(dstFs) {
			return
		}
		args := callArgs(c)
		if len(args) != 2 || strip(args[0]) != ssa.Value(dstPath) {
			why = "Chmod is not applied to the destination path parameter"
			return
		}
		mc, _ := resultOfCall(resolve1(args[1]))
		if mc == nil || calleeFunc(mc) == nil || calleeFunc(mc).Name() != "Mode" {
			why = "the mode given to Chmod is not the Mode() of a FileInfo"
			return
		}
		sc, idx := resultOfCall(resolve1(callRecv(mc)))
		if sc == nil || idx != 0 || calleeFunc(sc) == nil || calleeFunc(sc).Name() != "Stat" {
			why = "the FileInfo does not come from a Stat call"
			return
		}
		// Stat receiver: srcFs parameter, or a file opened from srcFs
		r := resolve1(callRecv(sc))
		fromSrc := r == ssa.Value(srcFs)
		if oc, i := resultOfCall(r); oc != nil && i == 0 && resolve1(callRecv(oc)) == ssa.Value(srcFs) {
			fromSrc = true
		}
		if !fromSrc {
			why = "the Stat is not a Stat of the source"
			return
		}
		if call, ok := c.(*ssa.Call); ok {
			chmodErr = call
		}
	})
	ei := errResultIndex(f.Signature)
	n := 0
	for _, r := range returnsOf(f) {
		vals := resolve(r.Results[ei])
		allNil := true
		for _, v := range vals {
			if !isNilConst(v) {
				allNil = false
			}
		}
		if !allNil {
			continue
		}
		n++
		cons := fmt.Sprintf("%s return-nil#%d mode-copied", funcName(f), n)
		if chmodErr == nil {
			rc.bad(cons, r.Pos(), why)
			continue
		}
		ok := false
		for _, fa := range factsAt(r.Block()) {
			if x, isNil, k := nilTest(fa); k && isNil && resolve1(x) == chmodErr {
				ok = true
			}
		}
		if ok {
			rc.good(cons, r.Pos(), "dominated by the success of dstFs.Chmod(dstPath, Stat(source).Mode())")
		} else {
			rc.bad(cons, r.Pos(), "a successful return is not dominated by the success of the Chmod that copies the permission bits")
		}
	}
}
