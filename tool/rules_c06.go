package main

import (
	"fmt"
	"go/token"
	"go/types"
	"os"
	"sort"
	"strings"

	"golang.org/x/tools/go/ssa"
)

// C06 — concurrent namespace operations are linearizable.
// Decided clause: the decision (is the name present?) and the act (insert / remove the entry) of every namespace update
// happen inside ONE critical section of the lock guarding the directory's entries.

func init() {
	notDecided["C06"] = []string{
		"existence of a sequential witness for every concurrent history (linearizability itself)",
		"equality of the final tree with that of some sequential order; exact link counts under concurrency beyond C08's guarded-by",
		"attribute-only updates (Chmod, Chown, Chtimes) and content updates, which do not create or remove names",
	}
	register(&Rule{ID: "C06.cta", Floor: 15,
		Text: "check-then-act: every insertion into / removal from a directory's entry map made by an exported operation (directly or through an unexported update primitive) is guarded by a lookup of the same map with the same key whose outcome controls the update, and that lookup lies inside the critical section (write lock of the map's guard, uninterrupted) in which the update happens",
		Run:  c06CTA})
	register(&Rule{ID: "C06.temp", Floor: 2,
		Text: "CreateTemp hands out only files it opened itself with O_CREATE|O_EXCL, and MkdirTemp returns only a name for which its own Mkdir succeeded (so two callers never receive the same name, given exclusive create/mkdir)",
		Run:  c06Temp})
}

// mapPrim describes an update primitive: an internal function that inserts into / deletes from an entry map of an object
// rooted at one of its parameters.
type mapPrim struct {
	objParam int
	chain    string
	mapField string // "children" | "nodes"
	keyParam int    // parameter index of the key, -1 if computed
	del      bool
	site     ssa.Instruction
	// the primitive is self-contained: it takes the write lock of the object itself before the update (selfLocked) /
	// it makes the write-and-search permission check on the object itself before the update (selfChecked). The
	// obligation then lies inside the primitive (which the rules treat as a unit of its own), not at its callers.
	selfLocked  bool
	selfChecked bool
}

func (m mapPrim) id() string {
	return fmt.Sprintf("p%d%s.%s key=p%d del=%v", m.objParam, m.chain, m.mapField, m.keyParam, m.del)
}

var entryMaps = map[string]bool{"children": true, "nodes": true}

type mapUpd struct {
	in    ssa.Instruction
	mapV  ssa.Value // the loaded map value
	fa    *ssa.FieldAddr
	key   ssa.Value
	del   bool
	field string
}

func entryMapUpdates(f *ssa.Function) []mapUpd {
	var out []mapUpd
	mapOf := func(m ssa.Value) (*ssa.FieldAddr, string, bool) {
		for {
			if ct, ok := m.(*ssa.ChangeType); ok {
				m = ct.X
				continue
			}
			break
		}
		ld, ok := m.(*ssa.UnOp)
		if !ok || ld.Op != token.MUL {
			return nil, "", false
		}
		fa, ok := ld.X.(*ssa.FieldAddr)
		if !ok {
			return nil, "", false
		}
		n := fieldName(fa.X.Type(), fa.Field)
		if !entryMaps[n] {
			return nil, "", false
		}
		return fa, n, true
	}
	eachInstr(f, func(in ssa.Instruction) {
		switch x := in.(type) {
		case *ssa.MapUpdate:
			if fa, n, ok := mapOf(x.Map); ok {
				out = append(out, mapUpd{in: x, mapV: x.Map, fa: fa, key: x.Key, field: n})
			}
		case *ssa.Call:
			if b, ok := x.Call.Value.(*ssa.Builtin); ok && nm(b) == "delete" && len(x.Call.Args) == 2 {
				if fa, n, ok := mapOf(x.Call.Args[0]); ok {
					out = append(out, mapUpd{in: x, mapV: x.Call.Args[0], fa: fa, key: x.Call.Args[1], del: true, field: n})
				}
			}
		}
	})
	return out
}

// computeMapPrims: fixed point over internal functions.
func computeMapPrims(c *Config, a *lockAnalysis, pkgs map[string]bool) map[*ssa.Function][]mapPrim {
	prims := map[*ssa.Function][]mapPrim{}
	wr, lkp := openModeBit(c, "OpenWrite"), openModeBit(c, "OpenLookup")
	// does f lock / check the object (given by a value of f) itself before instruction at?
	selfOf := func(f *ssa.Function, obj ssa.Value, at ssa.Instruction) (locked, checked bool) {
		key := a.canon(f, objKeyOf(obj).s)
		eachCall(f, func(ci ssa.CallInstruction) {
			fn := calleeFunc(ci)
			if fn == nil || fn.Name() != "Lock" || !domInstr(ci, at) {
				return
			}
			if r := callRecv(ci); r != nil {
				if fa, ok := r.(*ssa.FieldAddr); ok && a.canon(f, objKeyOf(fa.X).s) == key {
					locked = true
				}
				if a.canon(f, objKeyOf(r).s) == key {
					locked = true
				}
			}
		})
		for _, fa := range factsAt(at.Block()) {
			pc, truth, ok := permFact(fa)
			if !ok || !truth {
				continue
			}
			if m, isC := constInt(pc.mask); isC && wr > 0 && lkp > 0 && m&(wr|lkp) == wr|lkp && a.canon(f, objKeyOf(pc.recv).s) == key {
				checked = true
			}
		}
		return
	}
	add := func(f *ssa.Function, p mapPrim) bool {
		for i, q := range prims[f] {
			if q.id() == p.id() {
				// self-contained only if every site is
				if (q.selfLocked && !p.selfLocked) || (q.selfChecked && !p.selfChecked) {
					prims[f][i].selfLocked = q.selfLocked && p.selfLocked
					prims[f][i].selfChecked = q.selfChecked && p.selfChecked
					return true
				}
				return false
			}
		}
		prims[f] = append(prims[f], p)
		return true
	}
	internal := func(f *ssa.Function) bool { return f.Parent() == nil && !isEntryPoint(f) }
	var funcs []*ssa.Function
	for _, f := range a.funcs {
		if f.Pkg != nil && pkgs[pkgShort[f.Pkg.Pkg.Path()]] {
			funcs = append(funcs, f)
		}
	}
	for _, f := range funcs {
		if !internal(f) {
			continue
		}
		for _, u := range entryMapUpdates(f) {
			k := objKeyOf(u.fa)
			if k.param < 0 {
				continue
			}
			sl, sc := selfOf(f, u.fa.X, u.in)
			add(f, mapPrim{objParam: k.param, chain: k.chain, mapField: u.field, keyParam: paramIdxRaw(f, u.key), del: u.del, site: u.in, selfLocked: sl, selfChecked: sc})
		}
	}
	for round := 0; round < 6; round++ {
		changed := false
		for _, f := range funcs {
			if !internal(f) {
				continue
			}
			eachCall(f, func(ci ssa.CallInstruction) {
				args := ci.Common().Args
				if ci.Common().IsInvoke() {
					args = append([]ssa.Value{ci.Common().Value}, args...)
				}
				for _, callee := range a.calleesOf(ci) {
					for _, p := range prims[callee] {
						if p.objParam >= len(args) {
							continue
						}
						k := objKeyOf(args[p.objParam])
						if k.param < 0 {
							continue
						}
						kp := -1
						if p.keyParam >= 0 && p.keyParam < len(args) {
							kp = paramIdxRaw(f, args[p.keyParam])
						}
						sl, sc := selfOf(f, args[p.objParam], ci)
						if add(f, mapPrim{objParam: k.param, chain: k.chain + p.chain, mapField: p.mapField, keyParam: kp, del: p.del, site: ci, selfLocked: sl || p.selfLocked, selfChecked: sc || p.selfChecked}) {
							changed = true
						}
					}
				}
			})
		}
		if !changed {
			break
		}
	}
	return prims
}

// paramIdxRaw: index into f.Params (receiver included) of v, or -1.
func paramIdxRaw(f *ssa.Function, v ssa.Value) int {
	v = strip(v)
	for i, p := range f.Params {
		if ssa.Value(p) == v {
			return i
		}
	}
	return -1
}

// guardMutexFor: the lock that guards map `field` of object key k: children -> the object's mu; nodes -> the file
// system's mu (the object IS the file system).
func c06Guard(field string) string { return "mu" }

func c06CTA(rc *RuleCtx) {
	a := lockAnalysisFor(rc.C)
	pkgs := map[string]bool{"memfs": true, "orefafs": true}
	prims := computeMapPrims(rc.C, a, pkgs)
	for _, f := range a.funcs {
		if f.Pkg == nil || !pkgs[pkgShort[f.Pkg.Pkg.Path()]] {
			continue
		}
		selfUnit := false
		for _, p := range prims[f] {
			want := "children"
			if pkgShort[f.Pkg.Pkg.Path()] == "orefafs" {
				want = "nodes"
			}
			if p.selfLocked && p.mapField == want {
				selfUnit = true // an unexported primitive with a critical section of its own: decided as a unit
			}
		}
		if !isEntryPoint(f) && !selfUnit {
			continue
		}
		if f.Signature.Recv() == nil {
			continue
		}
		if n := namedOf(f.Signature.Recv().Type()); n == nil || (n.Obj().Name() != "MemFS" && n.Obj().Name() != "OrefaFS") {
			continue // constructors and file handles do not create or remove names
		}
		type site struct {
			in    ssa.Instruction
			obj   okey
			field string
			key   ssa.Value
			del   bool
			via   string
		}
		var sites []site
		// memfs: a directory's entries are its children map; orefafs: the path index vfs.nodes is authoritative for
		// existence (the per-directory children maps must follow it: C05.index)
		wantField := "children"
		if pkgShort[f.Pkg.Pkg.Path()] == "orefafs" {
			wantField = "nodes"
		}
		for _, u := range entryMapUpdates(f) {
			k := objKeyOf(u.fa)
			if k.fresh || u.field != wantField {
				continue
			}
			sites = append(sites, site{u.in, k, u.field, u.key, u.del, ""})
		}
		eachCall(f, func(ci ssa.CallInstruction) {
			args := ci.Common().Args
			if ci.Common().IsInvoke() {
				args = append([]ssa.Value{ci.Common().Value}, args...)
			}
			for _, callee := range a.calleesOf(ci) {
				if isEntryPoint(callee) {
					continue
				}
				for _, p := range prims[callee] {
					if p.objParam >= len(args) || p.selfLocked {
						continue
					}
					k := objKeyOf(args[p.objParam])
					k.s += p.chain
					if k.fresh || p.mapField != wantField {
						continue
					}
					var key ssa.Value
					if p.keyParam >= 0 && p.keyParam < len(args) {
						key = args[p.keyParam]
					}
					sites = append(sites, site{ci, k, p.mapField, key, p.del, funcName(callee)})
				}
			}
		})
		seq := map[string]int{}
		for _, vr := range a.variantsOf(f)[:1] {
			a.selectVariant(f, vr)
			for _, s := range sites {
				what := "insert"
				if s.del {
					what = "delete"
				}
				// the key names the operation, the kind of update and the map: not the primitive it goes through (a
				// primitive written out at its call site is the same update)
				base := fmt.Sprintf("%s %s %s.%s", funcName(f), what, prettyKey(s.obj), s.field)
				seq[base]++
				cons := base
				if seq[base] > 1 {
					cons = fmt.Sprintf("%s#%d", base, seq[base])
				}
				st := a.stateBefore(s.in)
				if st == nil {
					continue
				}
				// the lock guarding the map, held in W mode at the site
				lk := lkey{a.canon(f, s.obj.s), "mu"}
				h, held := st.must[lk]
				if !held {
					// an object reached through a phi of (locked | allocated by this call) values
					if ok, _ := a.guardHeld(f, st, s.obj, "mu", modeW, 0); ok {
						for _, hh := range st.must {
							if hh.mode == modeW && strings.HasSuffix(hh.class, ".mu") {
								h, held = hh, true
							}
						}
					}
				}
				if !held || h.mode != modeW {
					// gate: a recursive removal below an already detached / locked parent is outside this rule
					rc.bad(cons, s.in.Pos(), "the entry map is updated without the write lock of its directory/index held at that point (see also C08): decision and update cannot be one critical section")
					continue
				}
				// idiom A: the whole operation is one critical section — the lock held at the update was acquired before
				// every lookup / enumeration of this map made by the function
				whole := true
				nLook, keyed := 0, 0
				eachInstr(f, func(in ssa.Instruction) {
					var m ssa.Value
					switch x := in.(type) {
					case *ssa.Lookup:
						m = x.X
					case *ssa.Range:
						m = x.X
					default:
						return
					}
					ld, ok := stripCT(m).(*ssa.UnOp)
					if !ok || ld.Op != token.MUL {
						return
					}
					lfa, ok := ld.X.(*ssa.FieldAddr)
					if !ok || fieldName(lfa.X.Type(), lfa.Field) != s.field || a.canon(f, objKeyOf(lfa).s) != a.canon(f, s.obj.s) {
						return
					}
					nLook++
					if !domInstr(h.site, in) {
						whole = false
					}
					if lk, isLk := in.(*ssa.Lookup); isLk && s.key != nil && sameValue(lk.Index, s.key) {
						keyed++
					}
					if _, isRange := in.(*ssa.Range); isRange {
						keyed++
					}
				})
				// ... and, when a walk made before the lock was taken looked names up in this map, one of the lookups made
				// under the lock asks about the entry that is updated (a lookup of another key under the lock decides
				// nothing about this one: the unlocked walk did)
				preWalk := false
				eachCall(f, func(ci ssa.CallInstruction) {
					if domInstr(h.site, ci) || preWalk {
						return
					}
					for _, callee := range a.calleesOf(ci) {
						if isEntryPoint(callee) || len(callee.Blocks) == 0 {
							continue
						}
						eachInstr(callee, func(in ssa.Instruction) {
							if lk, ok := in.(*ssa.Lookup); ok {
								if ld, ok := stripCT(lk.X).(*ssa.UnOp); ok && ld.Op == token.MUL {
									if lfa, ok := ld.X.(*ssa.FieldAddr); ok && fieldName(lfa.X.Type(), lfa.Field) == s.field {
										preWalk = true
									}
								}
							}
						})
					}
				})
				if whole && nLook > 0 && (keyed > 0 || s.key == nil || !preWalk) {
					rc.good(cons, s.in.Pos(), fmt.Sprintf("the write lock %s.mu is taken before all %d lookups of this map made by the operation and held until the update: one critical section", prettyKey(s.obj), nLook))
					continue
				}
				// idiom B: the update is made while enumerating the same map under the lock
				inRange := false
				eachInstr(f, func(in ssa.Instruction) {
					nx, ok := in.(*ssa.Next)
					if !ok {
						return
					}
					rg, ok := nx.Iter.(*ssa.Range)
					if !ok {
						return
					}
					ld, ok := stripCT(rg.X).(*ssa.UnOp)
					if !ok || ld.Op != token.MUL {
						return
					}
					lfa, ok := ld.X.(*ssa.FieldAddr)
					if !ok || fieldName(lfa.X.Type(), lfa.Field) != s.field || a.canon(f, objKeyOf(lfa).s) != a.canon(f, s.obj.s) {
						return
					}
					if domInstr(h.site, rg) && nx.Block().Dominates(s.in.Block()) && nx.Block() != s.in.Block() {
						inRange = true
					}
				})
				if inRange {
					rc.good(cons, s.in.Pos(), "made while enumerating the same map inside the critical section")
					continue
				}
				if s.key == nil {
					rc.bad(cons, s.in.Pos(), "the key of the update cannot be related to a lookup (computed inside the primitive)")
					continue
				}
				// guarding lookup
				var found *ssa.Lookup
				why := "no lookup of " + prettyKey(s.obj) + "." + s.field + "[" + prettyVal(s.key, 0) + "] controls this update"
				for _, fa := range factsAt(s.in.Block()) {
					l := lookupInCond(fa.Cond)
					if l == nil {
						continue
					}
					ld, ok := stripCT(l.X).(*ssa.UnOp)
					if !ok || ld.Op != token.MUL {
						continue
					}
					lfa, ok := ld.X.(*ssa.FieldAddr)
					if !ok || fieldName(lfa.X.Type(), lfa.Field) != s.field {
						continue
					}
					if a.canon(f, objKeyOf(lfa).s) != a.canon(f, s.obj.s) {
						continue
					}
					if !sameValue(l.Index, s.key) {
						why = "the lookup that controls this update uses a different key"
						continue
					}
					if found == nil || domInstr(h.site, l) {
						found = l // a lookup made inside the critical section (the re-validation) is the one that counts
					}
				}
				if found == nil {
					rc.bad(cons, s.in.Pos(), why+": the presence/absence of the name was decided by the unlocked walk, so two concurrent calls can both act on it")
					continue
				}
				if !domInstr(h.site, found) {
					rc.bad(cons, s.in.Pos(), "the lookup that controls this update was made before the write lock was taken (acquired at "+rc.C.pos(h.site.Pos())+"): the entry can change between the decision and the update")
					continue
				}
				rc.good(cons, s.in.Pos(), "re-validated by a lookup of the same entry inside the critical section of "+prettyKey(s.obj)+".mu")
			}
		}
	}
}

func stripCT(v ssa.Value) ssa.Value {
	for {
		if ct, ok := v.(*ssa.ChangeType); ok {
			v = ct.X
			continue
		}
		return v
	}
}

// lookupInCond: the condition tests the result of a map lookup (value == nil / != nil, or the comma-ok flag).
func lookupInCond(c ssa.Value) *ssa.Lookup {
	v, _ := normCond(c, true)
	switch x := v.(type) {
	case *ssa.BinOp:
		for _, o := range []ssa.Value{x.X, x.Y} {
			if l := lookupOf(o); l != nil {
				return l
			}
		}
	case *ssa.Extract:
		if l, ok := x.Tuple.(*ssa.Lookup); ok {
			return l
		}
	}
	return nil
}

func lookupOf(v ssa.Value) *ssa.Lookup {
	for i := 0; i < 6 && v != nil; i++ {
		switch x := v.(type) {
		case *ssa.Lookup:
			return x
		case *ssa.Extract:
			v = x.Tuple
		case *ssa.TypeAssert:
			v = x.X
		case *ssa.ChangeInterface:
			v = x.X
		case *ssa.MakeInterface:
			v = x.X
		default:
			return nil
		}
	}
	return nil
}

func c06Temp(rc *RuleCtx) {
	// CreateTemp
	if f := rc.C.fn("avfs", "CreateTemp"); f == nil {
		rc.anchor("avfs.CreateTemp")
	} else {
		cons := "avfs.CreateTemp exclusive"
		var oc *ssa.Call
		eachCall(f, func(c ssa.CallInstruction) {
			if fn := calleeFunc(c); fn != nil && fn.Name() == "OpenFile" {
				if call, ok := c.(*ssa.Call); ok {
					oc = call
				}
			}
		})
		bad := ""
		if oc == nil {
			bad = "CreateTemp does not open the file itself"
		} else {
			flag, isC := constInt(callArgs(oc)[1])
			want := int64(os.O_CREATE | os.O_EXCL)
			if !isC || flag&want != want {
				bad = "the temporary file is not opened with a constant flag containing O_CREATE|O_EXCL: two callers can be handed the same file"
			}
			for _, r := range returnsOf(f) {
				v := resolve1(r.Results[0])
				if isNilConst(v) {
					continue
				}
				if c, i := resultOfCall(v); c != ssa.CallInstruction(oc) || i != 0 {
					bad = "a returned file is not the one opened exclusively by this call"
				}
			}
		}
		if bad != "" {
			rc.bad(cons, f.Pos(), bad)
		} else {
			rc.good(cons, oc.Pos(), "returns only the file opened with O_RDWR|O_CREATE|O_EXCL")
		}
	}
	// MkdirTemp
	if f := rc.C.fn("avfs", "MkdirTemp"); f == nil {
		rc.anchor("avfs.MkdirTemp")
	} else {
		cons := "avfs.MkdirTemp exclusive"
		var mc *ssa.Call
		eachCall(f, func(c ssa.CallInstruction) {
			if fn := calleeFunc(c); fn != nil && fn.Name() == "Mkdir" {
				if call, ok := c.(*ssa.Call); ok {
					mc = call
				}
			}
		})
		bad := ""
		if mc == nil {
			bad = "MkdirTemp does not create the directory with Mkdir itself"
		} else {
			n := 0
			for _, r := range returnsOf(f) {
				v := resolve1(r.Results[0])
				if k, ok := v.(*ssa.Const); ok && k.Value != nil && k.Value.ExactString() == `""` {
					continue
				}
				n++
				if !sameValue(v, callArgs(mc)[0]) {
					bad = "a returned name is not the argument of this call's own Mkdir"
					continue
				}
				ok := false
				for _, fa := range factsAt(r.Block()) {
					if x, isNil, k := nilTest(fa); k && isNil && resolve1(x) == ssa.Value(mc) {
						ok = true
					}
				}
				if !ok {
					bad = "a name is returned on a path where this call's own Mkdir has not succeeded"
				}
			}
			if n == 0 && bad == "" {
				bad = "no successful return found"
			}
		}
		if bad != "" {
			rc.bad(cons, f.Pos(), bad)
		} else {
			rc.good(cons, mc.Pos(), "returns only a name for which its own Mkdir returned nil")
		}
	}
	_ = types.Typ
	_ = sort.Strings
	_ = strings.Join
}
