package main

import (
	"fmt"
	"go/token"
	"go/types"
	"os"
	"sort"
	"strings"

	"golang.org/x/tools/go/packages"
	"golang.org/x/tools/go/ssa"
	"golang.org/x/tools/go/ssa/ssautil"
)

// Config is one build configuration of /repo, fully loaded.
type Config struct {
	Name  string // "default" or "avfs_setostype"
	Tags  string
	Fset  *token.FileSet
	Pkgs  map[string]*packages.Package // by import path
	All   []*packages.Package
	Prog  *ssa.Program
	SSA   map[string]*ssa.Package
	Repo  string
	Funcs int
	// Inlined lists, per file, the calls of helpers unknown to the rules that were inlined before the analysis
	Inlined []string
	// Away: helpers whose every reference was an inlined call ("import path|receiver|name")
	Away map[string]bool
	// helpers that play the role of a named helper under another name (anchors.go)
	alias    map[*types.Func]string
	aliasRev map[anchorRole]*ssa.Function
}

const modPath = "github.com/avfs/avfs"

var pkgShort = map[string]string{
	modPath:                     "avfs",
	modPath + "/vfs/memfs":      "memfs",
	modPath + "/vfs/orefafs":    "orefafs",
	modPath + "/vfs/rofs":       "rofs",
	modPath + "/vfs/basepathfs": "basepathfs",
	modPath + "/vfs/failfs":     "failfs",
	modPath + "/vfs/osfs":       "osfs",
	modPath + "/idm/memidm":     "memidm",
	modPath + "/idm/osidm":      "osidm",
	modPath + "/test":           "test",
}

func longPath(short string) string {
	for k, v := range pkgShort {
		if v == short {
			return k
		}
	}
	return short
}

func loadConfig(repo, name, tags string, extra ...string) (*Config, error) {
	cfg := &packages.Config{
		Mode:  packages.LoadAllSyntax,
		Dir:   repo,
		Tests: false,
		Env: append(os.Environ(), "GOFLAGS=-mod=mod", "GOPROXY=off", "GOSUMDB=off",
			"GOTOOLCHAIN=local", "GOWORK=off", "GOOS=linux", "GOARCH=amd64", "CGO_ENABLED=0"),
	}
	if tags != "" {
		cfg.BuildFlags = []string{"-tags=" + tags}
	}
	pats := append([]string{"./..."}, extra...)
	// helpers the rules do not know are inlined at their call sites first (inline.go)
	overlay, inlined, away, oerr := inlineOverlay(repo, tags)
	if oerr != nil {
		overlay, inlined, away = nil, nil, nil
	}
	var pkgs []*packages.Package
	var c *Config
	for attempt := 0; attempt < 2; attempt++ {
		cfg.Overlay = overlay
		var err error
		pkgs, err = packages.Load(cfg, pats...)
		if err != nil {
			return nil, err
		}
		if len(pkgs) == 0 {
			return nil, fmt.Errorf("no packages loaded from %s", repo)
		}
		c = &Config{Name: name, Tags: tags, Pkgs: map[string]*packages.Package{}, SSA: map[string]*ssa.Package{}, Repo: repo, Inlined: inlined, Away: away}
		var errs []string
		packages.Visit(pkgs, nil, func(p *packages.Package) {
			for _, e := range p.Errors {
				if strings.HasPrefix(p.PkgPath, modPath) {
					errs = append(errs, e.Error())
				}
			}
			c.Pkgs[p.PkgPath] = p
		})
		if len(errs) == 0 {
			break
		}
		sort.Strings(errs)
		if overlay != nil && attempt == 0 {
			// the rewritten sources do not type-check: analyse the tree as it is (the inliner met a form it does not handle)
			if os.Getenv("AVFSLINT_DEBUG") != "" {
				fmt.Fprintf(os.Stderr, "inlining abandoned for %s: %s\n", name, strings.Join(errs, "\n  "))
			}
			overlay, away, inlined = nil, nil, []string{"inlining abandoned: the rewritten sources did not type-check"}
			continue
		}
		return nil, fmt.Errorf("type-check errors in %s configuration:\n  %s", name, strings.Join(errs, "\n  "))
	}
	c.All = pkgs
	c.Fset = pkgs[0].Fset
	prog, spkgs := ssautil.AllPackages(pkgs, ssa.InstantiateGenerics|ssa.GlobalDebug)
	prog.Build()
	c.Prog = prog
	for i, sp := range spkgs {
		if sp != nil {
			c.SSA[pkgs[i].PkgPath] = sp
		}
	}
	// also dependencies among repo packages
	for path, p := range c.Pkgs {
		if strings.HasPrefix(path, modPath) && c.SSA[path] == nil && p.Types != nil {
			if sp := prog.Package(p.Types); sp != nil {
				c.SSA[path] = sp
			}
		}
	}
	c.computeAliases()
	return c, nil
}

// inlinedAway: f is a helper that only exists in its callers now.
func (c *Config) inlinedAway(f *ssa.Function) bool {
	if len(c.Away) == 0 || f == nil || f.Pkg == nil || f.Parent() != nil {
		return false
	}
	return c.Away[f.Pkg.Pkg.Path()+"|"+recvString(f.Signature)+"|"+f.Name()]
}

// pkg returns the packages.Package for a short name ("memfs").
func (c *Config) pkg(short string) *packages.Package { return c.Pkgs[longPath(short)] }

func (c *Config) spkg(short string) *ssa.Package { return c.SSA[longPath(short)] }

// srcFuncs returns every source-declared function/method (incl. anonymous functions) of the package, sorted.
func (c *Config) srcFuncs(short string) []*ssa.Function {
	sp := c.spkg(short)
	if sp == nil {
		return nil
	}
	var out []*ssa.Function
	seen := map[*ssa.Function]bool{}
	var add func(f *ssa.Function)
	add = func(f *ssa.Function) {
		if f == nil || seen[f] || f.Blocks == nil && f.Synthetic != "" {
			return
		}
		if f.Synthetic != "" {
			return
		}
		if c.inlinedAway(f) {
			return // a helper unknown to the rules whose every call was inlined: its body is analysed in its callers
		}
		seen[f] = true
		out = append(out, f)
		for _, a := range f.AnonFuncs {
			add(a)
		}
	}
	for _, m := range sp.Members {
		switch m := m.(type) {
		case *ssa.Function:
			add(m)
		case *ssa.Type:
			for _, t := range []types.Type{m.Type(), types.NewPointer(m.Type())} {
				ms := c.Prog.MethodSets.MethodSet(t)
				for i := 0; i < ms.Len(); i++ {
					f := c.Prog.MethodValue(ms.At(i))
					if f != nil && f.Pkg == sp {
						add(f)
					}
				}
			}
		}
	}
	sort.Slice(out, func(i, j int) bool { return funcName(out[i]) < funcName(out[j]) })
	return out
}

// method returns the SSA function for a method: c.method("rofs","RoFS","Chmod") (pointer or value receiver).
func (c *Config) method(short, typ, name string) *ssa.Function {
	p := c.pkg(short)
	if p == nil || p.Types == nil {
		return nil
	}
	obj := p.Types.Scope().Lookup(typ)
	if obj == nil {
		return nil
	}
	// declared methods first (the method set of *T contains synthetic wrappers for value-receiver methods)
	if n, ok := obj.Type().(*types.Named); ok {
		for i := 0; i < n.NumMethods(); i++ {
			if n.Method(i).Name() == name {
				if f := c.Prog.FuncValue(n.Method(i)); f != nil {
					return f
				}
			}
		}
	}
	for _, t := range []types.Type{types.NewPointer(obj.Type()), obj.Type()} {
		sel := c.Prog.MethodSets.MethodSet(t).Lookup(p.Types, name)
		if sel == nil {
			// exported methods: package irrelevant
			sel = c.Prog.MethodSets.MethodSet(t).Lookup(nil, name)
		}
		if sel != nil {
			if f := c.Prog.MethodValue(sel); f != nil {
				return f
			}
		}
	}
	for _, star := range []string{"*", ""} {
		if f := c.aliasRev[anchorRole{short, star + typ, name}]; f != nil {
			return f
		}
	}
	return nil
}

func (c *Config) fn(short, name string) *ssa.Function {
	sp := c.spkg(short)
	if sp == nil {
		return nil
	}
	if f := sp.Func(name); f != nil {
		return f
	}
	return c.aliasRev[anchorRole{short, "", name}]
}

func (c *Config) named(short, typ string) *types.Named {
	p := c.pkg(short)
	if p == nil || p.Types == nil {
		return nil
	}
	obj := p.Types.Scope().Lookup(typ)
	if obj == nil {
		return nil
	}
	n, _ := obj.Type().(*types.Named)
	return n
}

// funcName gives a stable, package-qualified name: memfs.(*MemFS).Rename, avfs.CopyFileHash, avfs.CopyFileHash$1
func funcName(f *ssa.Function) string {
	if f == nil {
		return "<nil>"
	}
	if f.Parent() != nil {
		// anonymous: parent$N
		idx := 0
		for i, a := range f.Parent().AnonFuncs {
			if a == f {
				idx = i + 1
			}
		}
		return fmt.Sprintf("%s$%d", funcName(f.Parent()), idx)
	}
	pk := ""
	if f.Pkg != nil {
		pk = f.Pkg.Pkg.Path()
	} else if f.Origin() != nil && f.Origin().Pkg != nil {
		pk = f.Origin().Pkg.Pkg.Path()
	}
	short := pkgShort[pk]
	if short == "" {
		short = pk
	}
	if recv := f.Signature.Recv(); recv != nil {
		t := recv.Type()
		ptr := ""
		if p, ok := t.(*types.Pointer); ok {
			t = p.Elem()
			ptr = "*"
		}
		tn := t.String()
		if n, ok := t.(*types.Named); ok {
			tn = n.Obj().Name()
		}
		return fmt.Sprintf("%s.(%s%s).%s", short, ptr, tn, nm(f))
	}
	return short + "." + nm(f)
}

func (c *Config) pos(p token.Pos) string {
	if !p.IsValid() {
		return ""
	}
	ps := c.Fset.Position(p)
	fn := ps.Filename
	if strings.HasPrefix(fn, c.Repo+"/") {
		fn = fn[len(c.Repo)+1:]
	}
	return fmt.Sprintf("%s:%d", fn, ps.Line)
}
