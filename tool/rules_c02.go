package main

import (
	"fmt"
	"go/constant"
	"go/token"
	"go/types"
	"sort"
	"strings"

	"golang.org/x/tools/go/ssa"
)

// C02 — open-file I/O behaves as os.File (structural clauses: typestate, access mode, bounds, append, detachment).

func init() {
	notDecided["C02"] = []string{
		"byte counts, returned offsets, EOF / short-read conditions, zero-fill content, Seek arithmetic",
		"directory batching (ReadDir(n) cursor), attribute visibility across links",
		"memory exhaustion from caller-chosen sizes (WriteAt / Truncate far beyond the end allocate the gap)",
	}
	register(&Rule{ID: "C02.guard", Floor: 55,
		Text: "typestate nil -> open -> closed on every avfs.File method of *MemFile and *OrefaFile (Name and Fd excepted): the receiver is dereferenced only after `f == nil -> return fs.ErrInvalid`; every return whose error may be nil, and every use of the node, is dominated by the open branch of `f.nd == nil`, whose other branch returns a non-nil error; Close stores nil into nd before every successful return",
		Also: []string{"C07"},
		Run:  c02Guard})
	register(&Rule{ID: "C02.mode", Floor: 10,
		Text: "the access mode of the handle is enforced: every read of the node's content in Read/ReadAt is dominated by the set branch of `openMode & OpenRead`, every change of content or size in Write/WriteAt/Truncate by the set branch of `openMode & OpenWrite`",
		Run:  c02Mode})
	register(&Rule{ID: "C02.bounds", Floor: 14,
		Text: "every slice expression on a node's content with a non-constant bound is safe: 0 <= bound (offset invariant: every store to the handle offset is provably non-negative; parameters are tested) and bound <= len, discharged by a dominating guard on the same symbolic expressions or by the ensure-length idiom (`d := e - len(x); if d > 0 { x = append(x, make([]T, d)...) }`) with no intervening store; truncate(size) is called only with a provably non-negative size",
		Also: []string{"C07", "C01", "C04", "C11"}, AlsoOnly: map[string][]string{"C04": {"truncate"}, "C11": {"truncate"}}, AlsoFloor: map[string]int{"C04": 1, "C11": 1},
		Run: c02Bounds})
	register(&Rule{ID: "C02.append", Floor: 2,
		Text: "a handle opened with O_APPEND positions each write at the current end: in Write, `f.at = len(content)` under the set branch of `openMode & OpenAppend`, inside the node's write-locked section, precedes every use of the offset for that write",
		Run:  c02Append})
	register(&Rule{ID: "C02.detached", Floor: 30,
		Text: "a handle keeps working on its file after rename or remove: no avfs.File method of the two packages walks a path or consults the name index; the node is reached only through the pointer captured at open",
		Run:  c02Detached})
}

var filePkgs = []struct{ pkg, typ string }{{"memfs", "MemFile"}, {"orefafs", "OrefaFile"}}

func fileMethods(c *Config, pkg, typ string) []*ssa.Function {
	ms := c.methodsOf(pkg, typ)
	var out []*ssa.Function
	for n := range fileEffects {
		if f := ms[n]; f != nil {
			out = append(out, f)
		}
	}
	sort.Slice(out, func(i, j int) bool { return out[i].Name() < out[j].Name() })
	return out
}

// recvNonNil: block b is dominated by the branch where the receiver is not nil.
func recvNonNilAt(f *ssa.Function, b *ssa.BasicBlock) bool {
	for _, fa := range factsAt(b) {
		if x, isNil, ok := nilTest(fa); ok && !isNil && x == ssa.Value(f.Params[0]) {
			return true
		}
	}
	return false
}

// ndOpenAt: block b is dominated by the branch where f.nd != nil.
func ndOpenAt(f *ssa.Function, b *ssa.BasicBlock) bool {
	for _, fa := range factsAt(b) {
		x, isNil, ok := nilTest(fa)
		if !ok {
			continue
		}
		if !isNil && isRecvFieldLoad(f, x, "nd") {
			return true
		}
		// `if err := f.checkOpen(op); err != nil { return err }`: an unexported validator of the same handle that
		// returns nil only where the handle is open
		if isNil {
			if c, isCall := strip(resolve1(x)).(*ssa.Call); isCall {
				g := c.Call.StaticCallee()
				if g != nil && g.Pkg == f.Pkg && !isEntryPoint(g) && len(c.Call.Args) > 0 && len(f.Params) > 0 && strip(c.Call.Args[0]) == ssa.Value(f.Params[0]) && validatesOpen(g) {
					return true
				}
			}
		}
	}
	return false
}

// validatesOpen: g(handle, ...) error returns a possibly-nil error only on paths where handle.nd != nil was established.
func validatesOpen(g *ssa.Function) bool {
	if len(g.Blocks) == 0 || g.Signature.Results().Len() != 1 || !isErrorType(g.Signature.Results().At(0).Type()) || len(g.Params) == 0 {
		return false
	}
	n := 0
	for _, r := range returnsOf(g) {
		mayBeNil := false
		for _, v := range resolveRaw(r.Results[0]) {
			if isNilConst(strip(v)) {
				mayBeNil = true
			} else if _, isAlloc := strip(v).(*ssa.Alloc); !isAlloc {
				if _, isMI := v.(*ssa.MakeInterface); !isMI {
					if ld, isLd := strip(v).(*ssa.UnOp); !isLd || ld.Op != token.MUL {
						mayBeNil = true // an error value we cannot see to be non-nil
					}
				}
			}
		}
		if !mayBeNil {
			continue
		}
		n++
		open := false
		for _, fa := range factsAt(r.Block()) {
			if x, isNil, ok := nilTest(fa); ok && !isNil && isRecvFieldLoad(g, x, "nd") {
				open = true
			}
		}
		if !open {
			return false
		}
	}
	return n > 0
}

func isRecvFieldLoad(f *ssa.Function, v ssa.Value, field string) bool {
	u, ok := v.(*ssa.UnOp)
	if !ok || u.Op != token.MUL {
		return false
	}
	fa, ok := u.X.(*ssa.FieldAddr)
	return ok && fa.X == ssa.Value(f.Params[0]) && fieldName(fa.X.Type(), fa.Field) == field
}

func c02Guard(rc *RuleCtx) {
	for _, fp := range filePkgs {
		fms := fileMethods(rc.C, fp.pkg, fp.typ)
		if len(fms) == 0 {
			rc.anchor(fp.pkg + "." + fp.typ)
			continue
		}
		for _, f := range fms {
			if f.Name() == "Name" || f.Name() == "Fd" {
				continue
			}
			base := funcName(f)
			if d := selfDelegate(f, fp.typ); d != "" {
				rc.good(base+" typestate", f.Pos(), "delegates to "+d+", itself checked")
				continue
			}
			// (i) nil receiver
			bad := ""
			eachInstr(f, func(in ssa.Instruction) {
				fa, ok := in.(*ssa.FieldAddr)
				if ok && fa.X == ssa.Value(f.Params[0]) && !recvNonNilAt(f, fa.Block()) && bad == "" {
					bad = "the receiver is dereferenced (" + rc.C.pos(fa.Pos()) + ") on a path where it may be nil: a nil handle panics instead of returning an error"
				}
			})
			if bad == "" {
				// the nil branch returns fs.ErrInvalid
				found := false
				for _, r := range returnsOf(f) {
					for _, fa := range factsAt(r.Block()) {
						if x, isNil, ok := nilTest(fa); ok && isNil && x == ssa.Value(f.Params[0]) {
							found = true
						}
					}
				}
				if !found {
					bad = "no `f == nil` branch that returns"
				}
			}
			if bad != "" {
				rc.bad(base+" nil-guard", f.Pos(), bad)
			} else {
				rc.good(base+" nil-guard", f.Pos(), "every dereference of the receiver is dominated by f != nil")
			}
			// (ii)+(iii) closed
			bad = ""
			ei := errResultIndex(f.Signature)
			for _, r := range returnsOf(f) {
				if ei < 0 {
					continue
				}
				nonNil := true
				for _, v := range resolveRaw(r.Results[ei]) {
					// `if err != nil { return err }`: the returned value is known to be non-nil on this branch
					known := false
					for _, fa := range factsAt(r.Block()) {
						if x, isNil, ok := nilTest(fa); ok && !isNil && (x == v || resolve1(x) == v || strip(resolve1(x)) == strip(v) || strip(resolve1(x)) == strip(resolve1(v))) {
							known = true
						}
					}
					if known {
						continue
					}
					for _, l := range errLeaves(rc.C, v, 0) {
						if !l.nonNil {
							nonNil = false
						}
					}
				}
				if nonNil {
					continue
				}
				if !ndOpenAt(f, r.Block()) {
					bad = "a return that can report success (" + rc.C.pos(r.Pos()) + ") is not dominated by the open branch of `f.nd == nil`: a call on a closed handle succeeds"
				}
			}
			eachInstr(f, func(in ssa.Instruction) {
				if bad != "" {
					return
				}
				// uses of the loaded node
				u, ok := in.(*ssa.UnOp)
				if !ok || !isRecvFieldLoad(f, u, "nd") {
					return
				}
				for _, ref := range referrersOf(u) {
					switch x := ref.(type) {
					case *ssa.BinOp, *ssa.DebugRef:
						continue
					case *ssa.TypeAssert:
						if x.CommaOk {
							continue // a comma-ok assertion on a nil interface is safe and yields ok=false
						}
					case *ssa.Store:
						if x.Val == ssa.Value(u) {
							continue
						}
					case *ssa.Phi:
						continue
					}
					if !ndOpenAt(f, ref.Block()) {
						bad = "the node of the handle is used (" + rc.C.pos(ref.Pos()) + ") on a path where the handle may be closed (f.nd == nil)"
					}
				}
			})
			if f.Name() == "Close" && bad == "" {
				// (iv)
				var st *ssa.Store
				eachInstr(f, func(in ssa.Instruction) {
					if s, ok := in.(*ssa.Store); ok {
						if fa, ok := s.Addr.(*ssa.FieldAddr); ok && fa.X == ssa.Value(f.Params[0]) && fieldName(fa.X.Type(), fa.Field) == "nd" && isNilConst(strip(s.Val)) {
							st = s
						}
					}
				})
				if st == nil {
					bad = "Close does not store nil into nd: the handle stays usable after Close"
				} else {
					for _, r := range returnsOf(f) {
						allNil := true
						for _, v := range resolve(r.Results[ei]) {
							if !isNilConst(v) {
								allNil = false
							}
						}
						if allNil && !domInstr(st, r) {
							bad = "a successful return of Close is not preceded by the store of nil into nd"
						}
					}
				}
			}
			if bad != "" {
				rc.bad(base+" closed-guard", f.Pos(), bad)
			} else {
				rc.good(base+" closed-guard", f.Pos(), "success and node uses are dominated by f.nd != nil")
			}
		}
	}
}

// modeFact: block b is dominated by `f.openMode & bit != 0`.
func modeFactAt(f *ssa.Function, b *ssa.BasicBlock, bit int64) bool {
	for _, fa := range factsAt(b) {
		if x, m, set, ok := bitTest(fa.Cond, fa.Truth); ok && set && m == bit && isFieldLoadNamed(x, "openMode") {
			return true
		}
	}
	return false
}

// bitTest recognises the outcome of a single-mask test in any of its spellings: `x&m != 0`, `x&m == 0`, `x&m == m`,
// `x&m != m` (operands in either order, negations stripped). set reports whether the outcome states that the bits of m
// are set in x; for `== m` / `!= m` with a multi-bit mask the 'not all set' outcome is not a statement about single
// bits, so only the 'set' outcome is reported then.
func bitTest(cond ssa.Value, truth bool) (x ssa.Value, mask int64, set bool, ok bool) {
	v, truth := normCond(cond, truth)
	bo, isBin := v.(*ssa.BinOp)
	if !isBin || (bo.Op != token.EQL && bo.Op != token.NEQ) {
		return nil, 0, false, false
	}
	for _, pr := range [][2]ssa.Value{{bo.X, bo.Y}, {bo.Y, bo.X}} {
		k, isC := constInt(pr[1])
		if !isC {
			continue
		}
		and, isAnd := strip(pr[0]).(*ssa.BinOp)
		if !isAnd || and.Op != token.AND {
			continue
		}
		var m int64
		var xv ssa.Value
		if mm, c := constInt(and.Y); c {
			m, xv = mm, and.X
		} else if mm, c := constInt(and.X); c {
			m, xv = mm, and.Y
		} else {
			continue
		}
		eq := (bo.Op == token.EQL) == truth
		switch {
		case k == 0:
			return xv, m, !eq, true
		case k == m:
			if !eq && m&(m-1) != 0 {
				return nil, 0, false, false
			}
			return xv, m, eq, true
		}
	}
	return nil, 0, false, false
}

func isFieldLoadNamed(v ssa.Value, field string) bool { return isFieldLoad(strip(v), field) }

func openModeBit(c *Config, name string) int64 {
	p := c.pkg("avfs")
	if p == nil {
		return -1
	}
	k, ok := p.Types.Scope().Lookup(name).(*types.Const)
	if !ok {
		return -1
	}
	v, _ := constant.Int64Val(k.Val())
	return v
}

// contentAccesses lists reads/writes of the content slice (`data` field) in f, plus calls of truncate.
type contentAcc struct {
	in    ssa.Instruction
	write bool
	what  string
}

func contentAccesses(f *ssa.Function) []contentAcc { return contentAccessesD(f, 0) }

func contentAccessesD(f *ssa.Function, depth int) []contentAcc {
	var out []contentAcc
	eachInstr(f, func(in ssa.Instruction) {
		// accesses made by an unexported helper of the same package count at the call site
		if c, ok := in.(*ssa.Call); ok && depth < 2 {
			if sc := c.Call.StaticCallee(); sc != nil && sc.Pkg == f.Pkg && len(sc.Blocks) > 0 && !isEntryPoint(sc) && nm(sc) != "truncate" {
				for _, sub := range contentAccessesD(sc, depth+1) {
					out = append(out, contentAcc{c, sub.write, sub.what + " (in " + sc.Name() + ")"})
				}
			}
		}
		switch x := in.(type) {
		case *ssa.FieldAddr:
			if fieldName(x.X.Type(), x.Field) != "data" {
				return
			}
			for _, u := range referrersOf(x) {
				switch y := u.(type) {
				case *ssa.Store:
					if y.Addr == ssa.Value(x) {
						out = append(out, contentAcc{y, true, "store to data"})
					}
				case *ssa.UnOp:
					// len() alone is a size query, not a content read
					onlyLen := true
					for _, u2 := range referrersOf(y) {
						if c, ok := u2.(*ssa.Call); ok {
							if b, ok := c.Call.Value.(*ssa.Builtin); ok && b.Name() == "len" {
								continue
							}
						}
						if _, ok := u2.(*ssa.DebugRef); ok {
							continue
						}
						onlyLen = false
					}
					if !onlyLen {
						out = append(out, contentAcc{y, false, "read of data"})
					}
					for _, cw := range contentWrites(y) {
						out = append(out, contentAcc{cw.in, true, cw.what})
					}
				}
			}
		case *ssa.Call:
			if fn := calleeFunc(x); fn != nil && nm(fn) == "truncate" {
				out = append(out, contentAcc{x, true, "truncate"})
			}
		}
	})
	return out
}

func c02Mode(rc *RuleCtx) {
	rd, wr := openModeBit(rc.C, "OpenRead"), openModeBit(rc.C, "OpenWrite")
	if rd < 0 || wr < 0 {
		rc.anchor("avfs.OpenRead / avfs.OpenWrite")
		return
	}
	for _, fp := range filePkgs {
		ms := rc.C.methodsOf(fp.pkg, fp.typ)
		for _, name := range []string{"Read", "ReadAt", "Write", "WriteAt", "Truncate"} {
			f := ms[name]
			cons := fmt.Sprintf("%s.(*%s).%s access-mode", fp.pkg, fp.typ, name)
			if f == nil {
				rc.bad(cons, token.NoPos, "method missing")
				continue
			}
			isRead := strings.HasPrefix(name, "Read")
			bad := ""
			n := 0
			for _, acc := range contentAccesses(f) {
				if isRead && acc.write {
					bad = "a read method changes the content (" + acc.what + ")"
					break
				}
				need := wr
				if isRead {
					need = rd
				}
				if !isRead && !acc.write {
					continue // reads inside a writer (len, append source) need no read permission
				}
				n++
				if !modeFactAt(f, acc.in.Block(), need) {
					bit := "OpenWrite"
					if isRead {
						bit = "OpenRead"
					}
					bad = fmt.Sprintf("%s at %s is not dominated by the set branch of `openMode & %s`: the access mode of the handle is not enforced", acc.what, rc.C.pos(acc.in.Pos()), bit)
					break
				}
			}
			if bad == "" && n == 0 {
				bad = "no content access found in a method that must read or change the content"
			}
			if bad != "" {
				rc.bad(cons, f.Pos(), bad)
			} else {
				rc.good(cons, f.Pos(), fmt.Sprintf("%d content access(es) dominated by the mode test", n))
			}
		}
	}
}

// ---- symbolic expressions ----

func sym(v ssa.Value) string { return symD(v, 0) }

func symD(v ssa.Value, d int) string {
	if d > 8 || v == nil {
		return "?"
	}
	switch x := v.(type) {
	case *ssa.Const:
		if x.Value != nil {
			return x.Value.ExactString()
		}
		return "nil"
	case *ssa.Parameter:
		return x.Name()
	case *ssa.Convert:
		return symD(x.X, d+1)
	case *ssa.ChangeType:
		return symD(x.X, d+1)
	case *ssa.UnOp:
		if x.Op == token.MUL {
			if fa, ok := x.X.(*ssa.FieldAddr); ok {
				return objKeyOf(fa).s + "." + fieldName(fa.X.Type(), fa.Field)
			}
			if al, ok := x.X.(*ssa.Alloc); ok {
				vals, entry := reachingStores(al, x)
				if !entry && len(vals) == 1 {
					return symD(vals[0], d+1)
				}
				return "cell:" + al.Name() + "@" + x.Name()
			}
		}
		return x.Op.String() + symD(x.X, d+1)
	case *ssa.BinOp:
		return "(" + symD(x.X, d+1) + " " + x.Op.String() + " " + symD(x.Y, d+1) + ")"
	case *ssa.Call:
		if b, ok := x.Call.Value.(*ssa.Builtin); ok && len(x.Call.Args) > 0 {
			return b.Name() + "(" + symD(x.Call.Args[0], d+1) + ")"
		}
		if fn := calleeFunc(x); fn != nil && (nm(fn) == "size" || fn.Name() == "Size") && len(x.Call.Args) == 1 {
			// size() of a file node is int64(len(data))
			return "len(" + objKeyOf(x.Call.Args[0]).s + ".data)"
		}
		return "call:" + x.Name()
	case *ssa.Slice:
		lo, hi := "", ""
		if x.Low != nil {
			lo = symD(x.Low, d+1)
		}
		if x.High != nil {
			hi = symD(x.High, d+1)
		}
		return symD(x.X, d+1) + "[" + lo + ":" + hi + "]"
	case *ssa.Phi:
		return "phi:" + x.Name()
	}
	return v.Name()
}

// fieldsIn lists "obj.field" atoms appearing in a sym string.
func storedFieldBetween(f *ssa.Function, symExpr string, from *ssa.BasicBlock, to ssa.Instruction, except map[ssa.Instruction]bool) (ssa.Instruction, bool) {
	reachFrom := reachableFrom(from)
	var hit ssa.Instruction
	eachInstr(f, func(in ssa.Instruction) {
		if hit != nil || except[in] {
			return
		}
		// a lock release between the test and the use lets another goroutine change offset or content
		if c, isCall := in.(*ssa.Call); isCall {
			if sc := c.Call.StaticCallee(); sc != nil && sc.Signature.Recv() != nil && (sc.Name() == "Unlock" || sc.Name() == "RUnlock") {
				if _, isM := isMutexType(derefType(sc.Signature.Recv().Type())); isM {
					goto between
				}
			}
			return
		}
		{
			st, ok := in.(*ssa.Store)
			if !ok {
				return
			}
			fa, ok := st.Addr.(*ssa.FieldAddr)
			if !ok {
				return
			}
			atom := objKeyOf(fa).s + "." + fieldName(fa.X.Type(), fa.Field)
			if !strings.Contains(symExpr, atom) {
				return
			}
		}
	between:
		if !reachFrom[in.Block()] {
			return
		}
		if in.Block() == to.Block() {
			if instrIndex(in) < instrIndex(to) {
				hit = in
			}
			return
		}
		if in.Block() == from {
			hit = in // conservative
			return
		}
		if reachableFrom(in.Block())[to.Block()] {
			hit = in
		}
	})
	return hit, hit != nil
}

// leqLenFact: a fact at block b establishes expr <= len(dataKey).
func leqLenProof(f *ssa.Function, at ssa.Instruction, expr ssa.Value, dataLen string) (string, bool) {
	es := sym(expr)
	for _, fa := range factsAt(at.Block()) {
		v, truth := normCond(fa.Cond, fa.Truth)
		bo, ok := v.(*ssa.BinOp)
		if !ok {
			continue
		}
		l, r := sym(bo.X), sym(bo.Y)
		op := bo.Op
		if !truth {
			switch op {
			case token.LSS:
				op = token.GEQ
			case token.LEQ:
				op = token.GTR
			case token.GTR:
				op = token.LEQ
			case token.GEQ:
				op = token.LSS
			default:
				continue
			}
		}
		ok2 := false
		switch {
		case l == es && r == dataLen && (op == token.LSS || op == token.LEQ):
			ok2 = true
		case l == dataLen && r == es && (op == token.GTR || op == token.GEQ):
			ok2 = true
		case (l == "("+es+" - "+dataLen+")") && r == "0" && (op == token.LEQ || op == token.LSS):
			ok2 = true
		}
		if !ok2 {
			continue
		}
		if hit, bad := storedFieldBetween(f, es+" "+dataLen, fa.If.Block(), at, nil); bad {
			return "a guard exists but " + es + " or the content is stored to in between (" + hit.String() + ")", false
		}
		return "dominated by the guard " + l + " " + op.String() + " " + r, true
	}
	// ensure-length idiom
	for d := at.Block(); d != nil; d = d.Idom() {
		iff, ok := d.Instrs[len(d.Instrs)-1].(*ssa.If)
		if !ok {
			continue
		}
		bo, ok := iff.Cond.(*ssa.BinOp)
		if !ok || bo.Op != token.GTR {
			continue
		}
		if k, isC := constInt(bo.Y); !isC || k != 0 {
			continue
		}
		g := sym(bo.X)
		okG := false
		if g == "("+es+" - "+dataLen+")" {
			okG = true
		} else if strings.HasPrefix(g, "(("+es+" + ") && strings.HasSuffix(g, ") - "+dataLen+")") {
			// e + k - len with k a length
			k := strings.TrimSuffix(strings.TrimPrefix(g, "(("+es+" + "), ") - "+dataLen+")")
			if strings.HasPrefix(k, "len(") {
				okG = true
			}
		}
		if !okG {
			continue
		}
		t := d.Succs[0]
		if len(t.Preds) != 1 {
			continue
		}
		var appendStore *ssa.Store
		for _, in := range t.Instrs {
			st, ok := in.(*ssa.Store)
			if !ok {
				continue
			}
			fa, ok := st.Addr.(*ssa.FieldAddr)
			if !ok || objKeyOf(fa).s+"."+fieldName(fa.X.Type(), fa.Field) != strings.TrimSuffix(strings.TrimPrefix(dataLen, "len("), ")") {
				continue
			}
			c, ok := st.Val.(*ssa.Call)
			if !ok {
				continue
			}
			b, ok := c.Call.Value.(*ssa.Builtin)
			if !ok || b.Name() != "append" || len(c.Call.Args) != 2 {
				continue
			}
			if "len("+sym(c.Call.Args[0])+")" != dataLen {
				continue
			}
			// second arg: make([]byte, g) or bytes.Repeat([]byte{0}, g)
			if ms, ok := c.Call.Args[1].(*ssa.MakeSlice); ok && sym(ms.Len) == g {
				appendStore = st
			}
			if rc, ok := c.Call.Args[1].(*ssa.Call); ok {
				if fn := calleeFunc(rc); fn != nil && isPkgFunc(fn, "bytes", "Repeat") && len(rc.Call.Args) == 2 && sym(rc.Call.Args[1]) == g {
					appendStore = st
				}
			}
		}
		if appendStore == nil {
			continue
		}
		if hit, bad := storedFieldBetween(f, es+" "+dataLen, d, at, map[ssa.Instruction]bool{appendStore: true}); bad {
			return "the content is extended to cover " + es + " but " + es + " or the content is stored to again before the slice (" + rc2pos(hit) + ")", false
		}
		return "ensure-length: the content is extended by " + g + " zero bytes whenever that is positive", true
	}
	return "no dominating guard `" + es + " <= " + dataLen + "` and no ensure-length idiom", false
}

func rc2pos(in ssa.Instruction) string { return in.String() }

// nonNegCfg: the configuration whose functions nonNegative may consult for call sites (set by the rules that use it).
var nonNegCfg *Config

// nonNegative: v >= 0 at instruction `at`.
func nonNegative(f *ssa.Function, v ssa.Value, at ssa.Instruction, depth int) (string, bool) {
	if depth > 6 {
		return "too deep", false
	}
	switch x := v.(type) {
	case *ssa.Const:
		if k, ok := constInt(x); ok && k >= 0 {
			return "constant", true
		}
		return "negative constant", false
	case *ssa.Convert:
		return nonNegative(f, x.X, at, depth+1)
	case *ssa.ChangeType:
		return nonNegative(f, x.X, at, depth+1)
	case *ssa.Call:
		if b, ok := x.Call.Value.(*ssa.Builtin); ok {
			switch nm(b) {
			case "len", "cap", "copy":
				return b.Name() + "() result", true
			}
		}
		if fn := calleeFunc(x); fn != nil && (nm(fn) == "size" || fn.Name() == "Size") {
			return "size() is a length", true
		}
		// an unexported function of the same package all of whose returned values are non-negative
		if sc := x.Call.StaticCallee(); sc != nil && sc.Pkg == f.Pkg && len(sc.Blocks) > 0 && sc.Signature.Results().Len() == 1 && depth < 4 {
			all, n := true, 0
			for _, r := range returnsOf(sc) {
				n++
				if _, ok := nonNegative(sc, r.Results[0], r, depth+2); !ok {
					all = false
				}
			}
			if all && n > 0 {
				return "every value returned by " + sc.Name() + " is non-negative", true
			}
		}
	case *ssa.UnOp:
		if x.Op == token.MUL {
			if fa, ok := x.X.(*ssa.FieldAddr); ok && fieldName(fa.X.Type(), fa.Field) == "at" {
				return "handle offset (invariant: every store is non-negative)", true
			}
			if al, ok := x.X.(*ssa.Alloc); ok {
				vals, _ := reachingStores(al, x)
				// a path without a store leaves the zero value of the local (0 for numbers)
				if len(vals) > 0 {
					for _, sv := range vals {
						if _, ok := nonNegative(f, sv, at, depth+1); !ok {
							goto facts
						}
					}
					return "every value stored in the local is non-negative", true
				}
			}
		}
	case *ssa.Phi:
		all := true
		for _, e := range x.Edges {
			if e == ssa.Value(x) {
				continue
			}
			if _, ok := nonNegative(f, e, at, depth+1); !ok {
				all = false
			}
		}
		if all {
			return "every incoming value is non-negative", true
		}
	case *ssa.Parameter:
		if nm(f) == "truncate" {
			return "precondition of truncate, established at every call site (see the `call truncate` obligations)", true
		}
		// a parameter of an unexported function: non-negative when every call site in the package passes such a value
		if !isEntryPoint(f) && f.Parent() == nil && nonNegCfg != nil && depth < 4 {
			idx := paramIdxRaw(f, x)
			sites, all := 0, true
			for _, g := range nonNegCfg.srcFuncs(pkgShort[f.Pkg.Pkg.Path()]) {
				eachCall(g, func(ci ssa.CallInstruction) {
					if ci.Common().StaticCallee() != f || idx >= len(ci.Common().Args) {
						return
					}
					sites++
					if _, ok := nonNegative(g, ci.Common().Args[idx], ci, depth+2); !ok {
						all = false
					}
				})
			}
			if all && sites > 0 {
				return fmt.Sprintf("every one of the %d call sites passes a non-negative value", sites), true
			}
		}
	case *ssa.BinOp:
		if x.Op == token.ADD {
			_, a := nonNegative(f, x.X, at, depth+1)
			_, b := nonNegative(f, x.Y, at, depth+1)
			if a && b {
				return "sum of non-negative values", true
			}
		}
	}
facts:
	es := sym(v)
	for _, fa := range factsAt(at.Block()) {
		c, truth := normCond(fa.Cond, fa.Truth)
		bo, ok := c.(*ssa.BinOp)
		if !ok {
			continue
		}
		if k, isC := constInt(bo.Y); isC && k == 0 && sym(bo.X) == es {
			if (bo.Op == token.LSS && !truth) || (bo.Op == token.GEQ && truth) {
				return "dominated by the test " + es + " < 0 -> return", true
			}
		}
	}
	return es + " is not provably non-negative here", false
}

func c02Bounds(rc *RuleCtx) {
	nonNegCfg = rc.C
	for _, pk := range []string{"memfs", "orefafs"} {
		for _, f := range rc.C.srcFuncs(pk) {
			nSl := 0
			eachInstr(f, func(in ssa.Instruction) {
				switch x := in.(type) {
				case *ssa.Slice:
					ld, ok := x.X.(*ssa.UnOp)
					if !ok || ld.Op != token.MUL {
						return
					}
					fa, ok := ld.X.(*ssa.FieldAddr)
					if !ok || fieldName(fa.X.Type(), fa.Field) != "data" {
						return
					}
					dataLen := "len(" + objKeyOf(fa).s + ".data)"
					for _, bnd := range []struct {
						v    ssa.Value
						name string
					}{{x.Low, "low"}, {x.High, "high"}} {
						if bnd.v == nil {
							continue
						}
						if _, isC := constInt(bnd.v); isC {
							continue
						}
						nSl++
						cons := fmt.Sprintf("%s slice data %s=%s", funcName(f), bnd.name, prettySym(bnd.v))
						h1, ok1 := nonNegative(f, bnd.v, x, 0)
						if !ok1 {
							rc.bad(cons, x.Pos(), "lower bound: "+h1+": a negative offset panics")
							continue
						}
						h2, ok2 := leqLenProof(f, x, bnd.v, dataLen)
						if !ok2 {
							rc.bad(cons, x.Pos(), "upper bound: "+h2+": an offset beyond the end of the content panics with slice bounds out of range (or, for a high bound within the capacity, exposes stale bytes instead of zeros)")
							continue
						}
						rc.good(cons, x.Pos(), ">= 0: "+h1+"; <= len: "+h2)
					}
				case *ssa.Store:
					fa, ok := x.Addr.(*ssa.FieldAddr)
					if !ok || fieldName(fa.X.Type(), fa.Field) != "at" {
						return
					}
					n := namedOf(fa.X.Type())
					if n == nil || (n.Obj().Name() != "MemFile" && n.Obj().Name() != "OrefaFile") {
						return
					}
					cons := fmt.Sprintf("%s store at=%s", funcName(f), prettySym(x.Val))
					if how, ok := nonNegative(f, x.Val, x, 0); ok {
						rc.good(cons, x.Pos(), "offset invariant kept: "+how)
					} else {
						rc.bad(cons, x.Pos(), "the handle offset can become negative: "+how+"; every later Read/Write slices the content with it")
					}
				case *ssa.Call:
					fn := calleeFunc(x)
					if fn == nil || nm(fn) != "truncate" {
						return
					}
					args := callArgs(x)
					if len(args) != 1 {
						return
					}
					cons := fmt.Sprintf("%s call truncate(%s)", funcName(f), prettySym(args[0]))
					if how, ok := nonNegative(f, args[0], x, 0); ok {
						rc.good(cons, x.Pos(), "size >= 0: "+how)
					} else {
						rc.bad(cons, x.Pos(), "truncate requires a non-negative size (it slices the content with it): "+how)
					}
				}
			})
		}
	}
}

// prettySym renders a value for constructs using source names.
func prettySym(v ssa.Value) string {
	switch x := v.(type) {
	case *ssa.Const:
		return sym(x)
	case *ssa.Convert:
		return prettySym(x.X)
	case *ssa.ChangeType:
		return prettySym(x.X)
	case *ssa.BinOp:
		return "(" + prettySym(x.X) + x.Op.String() + prettySym(x.Y) + ")"
	case *ssa.Call:
		if b, ok := x.Call.Value.(*ssa.Builtin); ok && len(x.Call.Args) > 0 {
			return b.Name() + "(" + prettySym(x.Call.Args[0]) + ")"
		}
	}
	return prettyVal(v, 0)
}

func c02Append(rc *RuleCtx) {
	ap := openModeBit(rc.C, "OpenAppend")
	a := lockAnalysisFor(rc.C)
	for _, fp := range filePkgs {
		f := rc.C.methodsOf(fp.pkg, fp.typ)["Write"]
		cons := fmt.Sprintf("%s.(*%s).Write append-position", fp.pkg, fp.typ)
		if f == nil || ap < 0 {
			rc.anchor(cons)
			continue
		}
		a.selectVariant(f, a.variantsOf(f)[0])
		var repos *ssa.Store
		eachInstr(f, func(in ssa.Instruction) {
			st, ok := in.(*ssa.Store)
			if !ok {
				return
			}
			fa, ok := st.Addr.(*ssa.FieldAddr)
			if !ok || fa.X != ssa.Value(f.Params[0]) || fieldName(fa.X.Type(), fa.Field) != "at" {
				return
			}
			if !strings.HasPrefix(sym(st.Val), "len(") || !strings.HasSuffix(sym(st.Val), ".data)") {
				return
			}
			if modeFactAt(f, st.Block(), ap) {
				repos = st
			}
		})
		if repos == nil {
			rc.bad(cons, f.Pos(), "Write never repositions an O_APPEND handle at the current end of the content: two append handles overwrite each other")
			continue
		}
		// inside the node's write-locked section
		st := a.stateBefore(repos)
		locked := false
		if st != nil {
			for _, h := range st.must {
				if h.mode == modeW && !strings.Contains(h.class, "File.mu") {
					locked = true
				}
			}
		}
		if !locked {
			rc.bad(cons, repos.Pos(), "the end of the content is read outside the node's write-locked section: another writer can extend the file between the reposition and the write")
			continue
		}
		// precedes every use of the offset in this write: loads of f.at that feed arithmetic / slices
		var ifBlock *ssa.BasicBlock
		for _, fa := range factsAt(repos.Block()) {
			ifBlock = fa.If.Block()
			break
		}
		bad := ""
		eachInstr(f, func(in ssa.Instruction) {
			u, ok := in.(*ssa.UnOp)
			if !ok || !isRecvFieldLoad(f, u, "at") || bad != "" {
				return
			}
			if ifBlock != nil && (ifBlock.Dominates(u.Block()) && ifBlock != u.Block() || u.Block() == repos.Block()) {
				return
			}
			bad = "the offset is read (" + rc.C.pos(u.Pos()) + ") before the append reposition: the write is laid out for the stale offset"
		})
		if bad != "" {
			rc.bad(cons, repos.Pos(), bad)
		} else {
			rc.good(cons, repos.Pos(), "f.at = len(content) under openMode&OpenAppend, inside the node's critical section, before any use of the offset")
		}
	}
}

func c02Detached(rc *RuleCtx) {
	for _, fp := range filePkgs {
		for _, f := range fileMethods(rc.C, fp.pkg, fp.typ) {
			cons := funcName(f) + " detached"
			bad := ""
			seen := map[*ssa.Function]bool{}
			var walk func(g *ssa.Function, depth int)
			walk = func(g *ssa.Function, depth int) {
				if seen[g] || depth > 3 || bad != "" {
					return
				}
				seen[g] = true
				eachInstr(g, func(in ssa.Instruction) {
					switch x := in.(type) {
					case *ssa.FieldAddr:
						if n := fieldName(x.X.Type(), x.Field); n == "nodes" || n == "rootNode" || n == "volumes" {
							bad = "reaches the name space (" + n + ") from a file method: the handle would follow the name, not the file"
						}
					case ssa.CallInstruction:
						if sc := x.Common().StaticCallee(); sc != nil && sc.Pkg == f.Pkg {
							if nm(sc) == "searchNode" {
								bad = "walks a path (searchNode) from a file method: after a rename or remove the handle would reach another file or fail"
								return
							}
							if !isEntryPoint(sc) {
								walk(sc, depth+1)
							}
						}
					}
				})
			}
			walk(f, 0)
			if bad != "" {
				rc.bad(cons, f.Pos(), bad)
			} else {
				rc.good(cons, f.Pos(), "uses only the node pointer captured at open")
			}
		}
	}
}
