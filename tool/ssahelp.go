package main

import (
	"fmt"
	"go/ast"
	"go/constant"
	"go/token"
	"go/types"
	"os"
	"sort"
	"strings"
	"sync"

	"golang.org/x/tools/go/ssa"
)

// ---- iteration ----

func eachInstr(f *ssa.Function, fn func(ssa.Instruction)) {
	for _, b := range f.Blocks {
		for _, in := range b.Instrs {
			fn(in)
		}
	}
}

func eachCall(f *ssa.Function, fn func(ssa.CallInstruction)) {
	eachInstr(f, func(in ssa.Instruction) {
		if c, ok := in.(ssa.CallInstruction); ok {
			fn(c)
		}
	})
}

// withAnon returns f and all its (nested) anonymous functions.
func withAnon(f *ssa.Function) []*ssa.Function {
	out := []*ssa.Function{f}
	for _, a := range f.AnonFuncs {
		out = append(out, withAnon(a)...)
	}
	return out
}

// ---- callee resolution ----

// calleeFunc returns the types.Func called (static function, method, or interface method), or nil for
// dynamic calls of function values / builtins.
func calleeFunc(c ssa.CallInstruction) *types.Func {
	cc := c.Common()
	if cc.IsInvoke() {
		return cc.Method
	}
	if sc := cc.StaticCallee(); sc != nil {
		if o, ok := sc.Object().(*types.Func); ok {
			return o
		}
		if sc.Origin() != nil {
			if o, ok := sc.Origin().Object().(*types.Func); ok {
				return o
			}
		}
	}
	return nil
}

func builtinName(c ssa.CallInstruction) string {
	if b, ok := c.Common().Value.(*ssa.Builtin); ok {
		return b.Name()
	}
	return ""
}

// isPkgFunc reports whether fn is the package-level function path.name (generic origin included).
func isPkgFunc(fn *types.Func, path, name string) bool {
	if fn == nil || fn.Pkg() == nil {
		return false
	}
	if fn.Type().(*types.Signature).Recv() != nil {
		return false
	}
	return fn.Pkg().Path() == path && nm(fn) == name
}

// recvNamed returns the named type (pointer stripped) of fn's receiver, or nil.
func recvNamed(fn *types.Func) *types.Named {
	if fn == nil {
		return nil
	}
	sig, _ := fn.Type().(*types.Signature)
	if sig == nil || sig.Recv() == nil {
		return nil
	}
	return namedOf(sig.Recv().Type())
}

func namedOf(t types.Type) *types.Named {
	if t == nil {
		return nil
	}
	if p, ok := t.(*types.Pointer); ok {
		t = p.Elem()
	}
	n, _ := t.(*types.Named)
	return n
}

func isNamed(t types.Type, path, name string) bool {
	n := namedOf(t)
	return n != nil && n.Obj().Pkg() != nil && n.Obj().Pkg().Path() == path && n.Obj().Name() == name
}

// callArgs returns the explicit arguments (receiver excluded).
func callArgs(c ssa.CallInstruction) []ssa.Value {
	cc := c.Common()
	if cc.IsInvoke() {
		return cc.Args
	}
	if sc := cc.StaticCallee(); sc != nil && sc.Signature.Recv() != nil && len(cc.Args) > 0 {
		return cc.Args[1:]
	}
	return cc.Args
}

// callRecv returns the receiver value of a method call (invoke or static), or nil.
func callRecv(c ssa.CallInstruction) ssa.Value {
	cc := c.Common()
	if cc.IsInvoke() {
		return cc.Value
	}
	if sc := cc.StaticCallee(); sc != nil && sc.Signature.Recv() != nil && len(cc.Args) > 0 {
		return cc.Args[0]
	}
	return nil
}

// ---- value chasing ----

// strip removes representation-only wrappers.
func strip(v ssa.Value) ssa.Value { return stripSeen(v, nil) }

func stripSeen(v ssa.Value, seen map[*ssa.Phi]bool) ssa.Value {
	for {
		switch x := v.(type) {
		case *ssa.ChangeType:
			v = x.X
		case *ssa.Convert:
			v = x.X
		case *ssa.MakeInterface:
			v = x.X
		case *ssa.ChangeInterface:
			v = x.X
		case *ssa.Phi:
			// phi of identical values (edges that lead back to the phi itself, as in loops, do not count)
			if seen[x] {
				return v
			}
			if seen == nil {
				seen = map[*ssa.Phi]bool{}
			}
			seen[x] = true
			var one ssa.Value
			same := true
			dead := phiDeadEdges(x)
			for i, e := range x.Edges {
				if dead[i] {
					continue
				}
				e = stripSeen(e, seen)
				if e == ssa.Value(x) {
					continue
				}
				if one == nil {
					one = e
				} else if one != e {
					same = false
				}
			}
			delete(seen, x)
			if same && one != nil {
				v = one
			} else {
				return v
			}
		default:
			return v
		}
	}
}

var (
	phiDeadMu    sync.Mutex
	phiDeadCache = map[*ssa.Phi]map[int]bool{}
)

// phiDeadEdges: the edges of a phi whose value can never be observed. The phi sits in a block M that ends in a test of
// (another) phi of M - a variable assigned together with this one on the branches that rejoin in M, such as the error
// result of an inlined helper. When every use of the phi lies on one side of that test, the edges from which that
// side cannot be reached contribute nothing (the value a helper returns next to a non-nil error, used only after the
// error was found nil).
func phiDeadEdges(x *ssa.Phi) map[int]bool {
	phiDeadMu.Lock()
	d, ok := phiDeadCache[x]
	phiDeadMu.Unlock()
	if ok {
		return d
	}
	d = computePhiDeadEdges(x)
	phiDeadMu.Lock()
	phiDeadCache[x] = d
	phiDeadMu.Unlock()
	return d
}

// constTaken: the successor a branch on a constant condition always takes (-1: not such a branch). Branches on
// constants appear where a helper taking a flag was inlined with the flag's value.
func constTaken(b *ssa.BasicBlock) int {
	if len(b.Instrs) == 0 || len(b.Succs) != 2 {
		return -1
	}
	iff, ok := b.Instrs[len(b.Instrs)-1].(*ssa.If)
	if !ok {
		return -1
	}
	c, truth := normCond(iff.Cond, true)
	k, ok := c.(*ssa.Const)
	if !ok || k.Value == nil || k.Value.Kind() != constant.Bool {
		return -1
	}
	if constant.BoolVal(k.Value) == truth {
		return 0
	}
	return 1
}

var (
	constReachMu    sync.Mutex
	constReachCache = map[*ssa.Function]map[*ssa.BasicBlock]bool{}
)

// constReachable: the blocks reachable from the entry when branches on constants only go the way they always go.
func constReachable(f *ssa.Function) map[*ssa.BasicBlock]bool {
	constReachMu.Lock()
	r, ok := constReachCache[f]
	constReachMu.Unlock()
	if ok {
		return r
	}
	r = map[*ssa.BasicBlock]bool{}
	if len(f.Blocks) > 0 {
		work := []*ssa.BasicBlock{f.Blocks[0]}
		for len(work) > 0 {
			b := work[len(work)-1]
			work = work[:len(work)-1]
			if r[b] {
				continue
			}
			r[b] = true
			if t := constTaken(b); t >= 0 {
				work = append(work, b.Succs[t])
			} else {
				work = append(work, b.Succs...)
			}
		}
	}
	constReachMu.Lock()
	constReachCache[f] = r
	constReachMu.Unlock()
	return r
}

// constDeadEdges: the ways into m that no execution takes because a branch on a constant never goes there.
func constDeadEdges(m *ssa.BasicBlock) map[int]bool {
	reach := constReachable(m.Parent())
	var dead map[int]bool
	for j, q := range m.Preds {
		d := !reach[q]
		if t := constTaken(q); !d && t >= 0 && q.Succs[t] != m {
			d = true
		}
		if d {
			if dead == nil {
				dead = map[int]bool{}
			}
			dead[j] = true
		}
	}
	return dead
}

func computePhiDeadEdges(x *ssa.Phi) map[int]bool {
	if os.Getenv("AVFSLINT_NOMUSTFACTS") != "" {
		return nil
	}
	m := x.Block()
	if m == nil || len(m.Instrs) == 0 || len(m.Preds) < 2 {
		return nil
	}
	if d := constDeadEdges(m); len(d) > 0 && len(d) < len(m.Preds) {
		return d
	}
	iff, ok := m.Instrs[len(m.Instrs)-1].(*ssa.If)
	if !ok || len(m.Succs) != 2 || m.Succs[0] == m.Succs[1] {
		return nil
	}
	refs := x.Referrers()
	if refs == nil {
		return nil
	}
	for side := 0; side < 2; side++ {
		s := m.Succs[side]
		if len(s.Preds) != 1 {
			continue
		}
		all, any := true, false
		for _, r := range *refs {
			if _, isDbg := r.(*ssa.DebugRef); isDbg {
				continue
			}
			any = true
			b := r.Block()
			if ph, isPhi := r.(*ssa.Phi); isPhi {
				// a use by a phi happens on the edge from the predecessor: that predecessor must be on the side
				ok := false
				for j, e := range ph.Edges {
					if e == ssa.Value(x) && j < len(b.Preds) && s.Dominates(b.Preds[j]) {
						ok = true
					}
				}
				if !ok {
					all = false
				}
				continue
			}
			if b == nil || !s.Dominates(b) {
				all = false
			}
		}
		if !all || !any {
			continue
		}
		dead := map[int]bool{}
		for j, q := range m.Preds {
			// what is known when m is entered from q: the outcomes that hold at q, and q's own branch
			facts := factsAt(q)
			if qi, ok := q.Instrs[len(q.Instrs)-1].(*ssa.If); ok && len(q.Succs) == 2 && q.Succs[0] != q.Succs[1] {
				facts = append(append([]Fact(nil), facts...), Fact{Cond: qi.Cond, Truth: q.Succs[0] == m, If: qi})
			}
			ctx := func(v ssa.Value) int { return nilnessFromFacts(facts, v) }
			if !decisionPossibleFrom(m, iff.Cond, side == 0, j, ctx) {
				dead[j] = true
			}
		}
		if len(dead) > 0 && len(dead) < len(m.Preds) {
			return dead
		}
	}
	return nil
}

func constInt(v ssa.Value) (int64, bool) {
	c, ok := strip(v).(*ssa.Const)
	if !ok || c.Value == nil || c.Value.Kind() != constant.Int {
		return 0, false
	}
	i, ok := constant.Int64Val(c.Value)
	return i, ok
}

func isNilConst(v ssa.Value) bool {
	c, ok := v.(*ssa.Const)
	return ok && c.IsNil()
}

// extractOf: if v is Extract(call, i) returns the call and index.
func extractOf(v ssa.Value) (ssa.Value, int, bool) {
	if e, ok := v.(*ssa.Extract); ok {
		return e.Tuple, e.Index, true
	}
	return nil, 0, false
}

// resultOfCall reports whether v is (a component of) the result of call c.
func resultOfCall(v ssa.Value) (ssa.CallInstruction, int) {
	v = strip(v)
	if t, i, ok := extractOf(v); ok {
		if c, ok := t.(*ssa.Call); ok {
			return c, i
		}
	}
	if c, ok := v.(*ssa.Call); ok {
		return c, 0
	}
	return nil, -1
}

// ---- access paths ----

// accessPath renders a canonical path for an address or value: "f.nd", "parent.children", "vfs.nodes".
// Roots are parameters (by name), free variables, globals, calls (callee name) or allocs.
func accessPath(v ssa.Value) string {
	switch x := v.(type) {
	case *ssa.Parameter:
		return x.Name()
	case *ssa.FreeVar:
		return x.Name()
	case *ssa.Global:
		return x.Name()
	case *ssa.FieldAddr:
		return accessPath(x.X) + "." + fieldName(x.X.Type(), x.Field)
	case *ssa.Field:
		return accessPath(x.X) + "." + fieldName(x.X.Type(), x.Field)
	case *ssa.UnOp:
		if x.Op == token.MUL {
			return accessPath(x.X)
		}
	case *ssa.ChangeType:
		return accessPath(x.X)
	case *ssa.MakeInterface:
		return accessPath(x.X)
	case *ssa.ChangeInterface:
		return accessPath(x.X)
	case *ssa.TypeAssert:
		return accessPath(x.X)
	case *ssa.Extract:
		return fmt.Sprintf("%s#%d", accessPath(x.Tuple), x.Index)
	case *ssa.Call:
		if fn := calleeFunc(x); fn != nil {
			return fn.Name() + "()@" + x.Name()
		}
		return "call@" + x.Name()
	case *ssa.Alloc:
		if x.Comment != "" {
			return x.Comment
		}
		return "alloc@" + x.Name()
	case *ssa.Lookup:
		return accessPath(x.X) + "[...]"
	case *ssa.IndexAddr:
		return accessPath(x.X) + "[...]"
	case *ssa.Phi:
		if x.Comment != "" {
			return x.Comment
		}
		return "phi@" + x.Name()
	case *ssa.Const:
		return x.String()
	}
	if v == nil {
		return "<nil>"
	}
	return v.Name()
}

func fieldName(t types.Type, i int) string {
	if p, ok := t.Underlying().(*types.Pointer); ok {
		t = p.Elem()
	}
	if s, ok := t.Underlying().(*types.Struct); ok && i < s.NumFields() {
		return fieldRole(t, i, s.Field(i).Name())
	}
	return fmt.Sprintf("#%d", i)
}

// fieldVar returns the *types.Var of the field selected by a FieldAddr/Field.
func fieldVar(v ssa.Value) *types.Var {
	var t types.Type
	var i int
	switch x := v.(type) {
	case *ssa.FieldAddr:
		t, i = x.X.Type(), x.Field
	case *ssa.Field:
		t, i = x.X.Type(), x.Field
	default:
		return nil
	}
	if p, ok := t.Underlying().(*types.Pointer); ok {
		t = p.Elem()
	}
	if s, ok := t.Underlying().(*types.Struct); ok && i < s.NumFields() {
		return s.Field(i)
	}
	return nil
}

// ---- dominance & branch facts ----

func instrIndex(in ssa.Instruction) int {
	for i, x := range in.Block().Instrs {
		if x == in {
			return i
		}
	}
	return -1
}

// domInstr: a dominates b (strictly earlier on every path).
func domInstr(a, b ssa.Instruction) bool {
	if a.Block() == b.Block() {
		return instrIndex(a) < instrIndex(b)
	}
	return a.Block().Dominates(b.Block())
}

// Fact is a branch condition known to hold on entry to a block.
type Fact struct {
	Cond  ssa.Value
	Truth bool
	If    *ssa.If
}

// factsAt lists the branch conditions that hold whenever control reaches b: the conditions of dominating Ifs whose
// taken edge is the only way into a block dominating b, followed by the conditions that hold on every path to b although
// no single branch dominates it (mustFacts: branches that rejoin before a test of a value that tells them apart, the
// shape an inlined helper with early returns takes).
func factsAt(b *ssa.BasicBlock) []Fact {
	var out []Fact
	have := map[factKey]bool{}
	for d := b; d != nil; d = d.Idom() {
		// find Ifs: d's idom chain; d is entered via its preds. A fact arises if d has a single pred p ending in If.
		if len(d.Preds) == 1 {
			p := d.Preds[0]
			if iff, ok := p.Instrs[len(p.Instrs)-1].(*ssa.If); ok && p.Succs[0] != p.Succs[1] {
				out = append(out, Fact{Cond: iff.Cond, Truth: p.Succs[0] == d, If: iff})
				have[factKey{iff.Cond, p.Succs[0] == d}] = true
			}
		}
	}
	if os.Getenv("AVFSLINT_NOMUSTFACTS") == "" {
		for _, fa := range mustFactsAt(b) {
			if !have[factKey{fa.Cond, fa.Truth}] {
				out = append(out, fa)
			}
		}
	}
	return out
}

type factKey struct {
	c ssa.Value
	t bool
}

var (
	mustFactsMu    sync.Mutex
	mustFactsCache = map[*ssa.Function]map[*ssa.BasicBlock][]Fact{}
)

func mustFactsAt(b *ssa.BasicBlock) []Fact {
	f := b.Parent()
	mustFactsMu.Lock()
	m, ok := mustFactsCache[f]
	mustFactsMu.Unlock()
	if !ok {
		m = computeMustFacts(f)
		mustFactsMu.Lock()
		mustFactsCache[f] = m
		mustFactsMu.Unlock()
	}
	return m[b]
}

// nilness of a value: +1 certainly non-nil, -1 certainly nil, 0 unknown.
func nilnessOf(v ssa.Value, depth int) int {
	if v == nil || depth > 6 {
		return 0
	}
	switch x := v.(type) {
	case *ssa.Const:
		if x.IsNil() {
			return -1
		}
		return 1
	case *ssa.MakeInterface, *ssa.Alloc, *ssa.MakeSlice, *ssa.MakeMap, *ssa.MakeClosure, *ssa.MakeChan, *ssa.FieldAddr, *ssa.IndexAddr, *ssa.Function:
		return 1
	case *ssa.ChangeInterface:
		return nilnessOf(x.X, depth+1)
	case *ssa.ChangeType:
		return nilnessOf(x.X, depth+1)
	case *ssa.Phi:
		r := 2
		for _, e := range x.Edges {
			n := nilnessOf(e, depth+1)
			if r == 2 {
				r = n
			} else if r != n {
				return 0
			}
		}
		if r == 2 {
			return 0
		}
		return r
	case *ssa.UnOp:
		if x.Op != token.MUL {
			return 0
		}
		switch a := x.X.(type) {
		case *ssa.Global:
			// package-level sentinel errors are never nil
			if strings.HasPrefix(a.Name(), "Err") && isErrorType(deref(a.Type())) {
				return 1
			}
		case *ssa.FieldAddr:
			// the entries of the per-OS error table (avfs.Errors) are never nil
			if n := namedOf(a.X.Type()); n != nil && n.Obj().Name() == "Errors" && isErrorType(x.Type()) {
				return 1
			}
		case *ssa.Alloc:
			vals, entry := reachingStores(a, x)
			if entry || len(vals) == 0 {
				return 0
			}
			r := 2
			for _, sv := range vals {
				n := nilnessOf(sv, depth+1)
				if r == 2 {
					r = n
				} else if r != n {
					return 0
				}
			}
			if r == 2 {
				return 0
			}
			return r
		}
	}
	return 0
}

func deref(t types.Type) types.Type {
	if p, ok := t.Underlying().(*types.Pointer); ok {
		return p.Elem()
	}
	return t
}

// decisionOnEdge: can the condition of p's terminating If take the value `truth` when p is entered from its i-th
// predecessor? Decided for nil tests and boolean values that are phis of p (or cells holding such phis); anything
// else can.
func decisionPossibleFrom(p *ssa.BasicBlock, cond ssa.Value, truth bool, predIdx int, ctx func(ssa.Value) int) bool {
	v, t := normCond(cond, truth)
	sel := func(x ssa.Value) ssa.Value {
		// the value x has when p is entered from predIdx, if x is a phi of p
		for i := 0; i < 4; i++ {
			if ph, ok := x.(*ssa.Phi); ok && ph.Block() == p && predIdx < len(ph.Edges) {
				x = ph.Edges[predIdx]
				continue
			}
			break
		}
		return x
	}
	through := func(x ssa.Value) ssa.Value {
		// look through a cell that holds a phi of p (a spilled result variable)
		if ld, ok := x.(*ssa.UnOp); ok && ld.Op == token.MUL {
			if al, ok := ld.X.(*ssa.Alloc); ok {
				vals, entry := reachingStores(al, ld)
				if !entry && len(vals) == 1 {
					return vals[0]
				}
			}
		}
		return x
	}
	switch x := v.(type) {
	case *ssa.Phi:
		if k, ok := sel(x).(*ssa.Const); ok && k.Value != nil && k.Value.Kind() == constant.Bool {
			return constant.BoolVal(k.Value) == t
		}
	case *ssa.BinOp:
		if x.Op != token.EQL && x.Op != token.NEQ {
			return true
		}
		var other ssa.Value
		if isNilConst(x.Y) {
			other = x.X
		} else if isNilConst(x.X) {
			other = x.Y
		} else {
			return true
		}
		o := sel(through(other))
		if o == other {
			return true // not a phi of p: nothing known per predecessor
		}
		eq := (x.Op == token.EQL) == t // the outcome states other == nil
		nn := nilnessOf(o, 0)
		if nn == 0 && ctx != nil {
			nn = ctx(o) // what the branch outcomes on the way in say about o
		}
		switch nn {
		case 1:
			return !eq
		case -1:
			return eq
		}
	}
	return true
}

// phiNilDecision: when the condition tested at the end of p is a nil test of a phi of p (or of a cell holding one),
// returns the value the phi has when p is entered from its predIdx-th predecessor and whether the outcome `truth`
// states that this value is nil.
func phiNilDecision(p *ssa.BasicBlock, cond ssa.Value, truth bool, predIdx int) (val ssa.Value, isNil bool, ok bool) {
	v, t := normCond(cond, truth)
	x, isBin := v.(*ssa.BinOp)
	if !isBin || (x.Op != token.EQL && x.Op != token.NEQ) {
		return nil, false, false
	}
	var other ssa.Value
	if isNilConst(x.Y) {
		other = x.X
	} else if isNilConst(x.X) {
		other = x.Y
	} else {
		return nil, false, false
	}
	if ld, isLd := other.(*ssa.UnOp); isLd && ld.Op == token.MUL {
		if al, isAl := ld.X.(*ssa.Alloc); isAl {
			vals, entry := reachingStores(al, ld)
			if !entry && len(vals) == 1 {
				other = vals[0]
			}
		}
	}
	o := other
	for i := 0; i < 4; i++ {
		if ph, isPhi := o.(*ssa.Phi); isPhi && ph.Block() == p && predIdx < len(ph.Edges) {
			o = ph.Edges[predIdx]
			continue
		}
		break
	}
	if o == other {
		return nil, false, false
	}
	return o, (x.Op == token.EQL) == t, true
}

var (
	synthMu  sync.Mutex
	synthNil = map[ssa.Value]*ssa.BinOp{}
)

// synthNilTest: the canonical synthetic condition `v == nil` (one object per value, so that sets of facts can be
// intersected); only Op, X and Y are meaningful.
func synthNilTest(v ssa.Value) *ssa.BinOp {
	synthMu.Lock()
	defer synthMu.Unlock()
	if b, ok := synthNil[v]; ok {
		return b
	}
	b := &ssa.BinOp{Op: token.EQL, X: v, Y: ssa.NewConst(nil, v.Type())}
	synthNil[v] = b
	return b
}

// nilnessFromFacts: what a set of branch outcomes says about v: +1 non-nil, -1 nil, 0 nothing.
func nilnessFromFacts(facts []Fact, v ssa.Value) int {
	for _, fa := range facts {
		if x, isNil, ok := nilTest(fa); ok && (x == v || strip(x) == strip(v)) {
			if isNil {
				return -1
			}
			return 1
		}
	}
	return 0
}

// computeMustFacts: forward must-analysis of branch outcomes. in(b) is the set of (condition, outcome) pairs that hold
// on every path from the entry to b. An edge p->b out of an If adds its outcome; when the If tests a value that is a
// phi of p (a variable assigned on the branches that rejoin in p), only the predecessors of p from which that outcome
// is possible contribute (one level of jump threading).
func computeMustFacts(f *ssa.Function) map[*ssa.BasicBlock][]Fact {
	out := map[*ssa.BasicBlock][]Fact{}
	if len(f.Blocks) == 0 || len(f.Blocks) > 400 {
		return out
	}
	type set map[factKey]*ssa.If
	in := map[*ssa.BasicBlock]set{} // absent = top (not reached yet)
	in[f.Blocks[0]] = set{}
	inter := func(a, b set) set {
		if a == nil {
			c := set{}
			for k, v := range b {
				c[k] = v
			}
			return c
		}
		c := set{}
		for k, v := range a {
			if _, ok := b[k]; ok {
				c[k] = v
			}
		}
		return c
	}
	termIf := func(p *ssa.BasicBlock) *ssa.If {
		if len(p.Instrs) == 0 {
			return nil
		}
		iff, _ := p.Instrs[len(p.Instrs)-1].(*ssa.If)
		if iff != nil && len(p.Succs) == 2 && p.Succs[0] == p.Succs[1] {
			return nil
		}
		return iff
	}
	// facts carried by the edge p -> b (nil when p was not reached yet)
	var edge func(p, b *ssa.BasicBlock, depth int) (set, bool)
	edge = func(p, b *ssa.BasicBlock, depth int) (set, bool) {
		base, reached := in[p]
		if !reached {
			return nil, false
		}
		iff := termIf(p)
		if iff == nil {
			return base, true
		}
		truth := p.Succs[0] == b
		res := base
		if depth == 0 && len(p.Preds) > 1 {
			// threading: only predecessors of p from which this outcome is possible
			var acc set
			any, pruned, threaded := false, false, false
			for i, q := range p.Preds {
				s, ok := edge(q, p, 1)
				if !ok {
					continue
				}
				ctx := func(v ssa.Value) int {
					for k := range s {
						if x, isNil, ok := nilTest(Fact{Cond: k.c, Truth: k.t}); ok && (x == v || strip(x) == strip(v)) {
							if isNil {
								return -1
							}
							return 1
						}
					}
					return 0
				}
				if !decisionPossibleFrom(p, iff.Cond, truth, i, ctx) {
					pruned = true
					continue
				}
				// the outcome is a statement about the value the tested phi has on this way in
				if val, isNil, ok := phiNilDecision(p, iff.Cond, truth, i); ok {
					if _, isConst := val.(*ssa.Const); !isConst {
						c := set{}
						for k, v := range s {
							c[k] = v
						}
						c[factKey{synthNilTest(val), isNil}] = iff
						s = c
						threaded = true
					}
				}
				any = true
				acc = inter(acc, s)
			}
			if (pruned || threaded) && any {
				res = acc
			} else if pruned && !any {
				return nil, false // the outcome is impossible from every reached predecessor
			}
		}
		c := set{}
		for k, v := range res {
			c[k] = v
		}
		c[factKey{iff.Cond, truth}] = iff
		return c, true
	}
	for iter := 0; iter < 50; iter++ {
		changed := false
		for _, b := range f.Blocks {
			if b == f.Blocks[0] {
				continue
			}
			if f.Recover != nil && b == f.Recover {
				continue
			}
			var acc set
			any := false
			for _, p := range b.Preds {
				s, ok := edge(p, b, 0)
				if !ok {
					continue
				}
				any = true
				acc = inter(acc, s)
			}
			if !any {
				continue
			}
			old, had := in[b]
			if !had || len(old) != len(acc) {
				in[b] = acc
				changed = true
				continue
			}
			for k := range acc {
				if _, ok := old[k]; !ok {
					in[b] = acc
					changed = true
					break
				}
			}
		}
		if !changed {
			break
		}
	}
	for b, s := range in {
		var fs []Fact
		for k, iff := range s {
			fs = append(fs, Fact{Cond: k.c, Truth: k.t, If: iff})
		}
		sort.Slice(fs, func(i, j int) bool {
			if fs[i].If.Pos() != fs[j].If.Pos() {
				return fs[i].If.Pos() > fs[j].If.Pos()
			}
			return fs[i].Truth && !fs[j].Truth
		})
		out[b] = fs
	}
	return out
}

// factsAtInstr = factsAt(block of in).
func factsAtInstr(in ssa.Instruction) []Fact { return factsAt(in.Block()) }

// normalise a condition: strip negations; returns the inner value and the adjusted truth.
func normCond(v ssa.Value, truth bool) (ssa.Value, bool) {
	for {
		if u, ok := v.(*ssa.UnOp); ok && u.Op == token.NOT {
			v = u.X
			truth = !truth
			continue
		}
		return v, truth
	}
}

// isNilTest: fact states `x == nil` (eq=true) or `x != nil` (eq=false) for some x; returns x.
func nilTest(f Fact) (x ssa.Value, isNil bool, ok bool) {
	v, truth := normCond(f.Cond, f.Truth)
	b, isBin := v.(*ssa.BinOp)
	if !isBin || (b.Op != token.EQL && b.Op != token.NEQ) {
		return nil, false, false
	}
	var other ssa.Value
	if isNilConst(b.Y) {
		other = b.X
	} else if isNilConst(b.X) {
		other = b.Y
	} else {
		return nil, false, false
	}
	eq := b.Op == token.EQL
	if !truth {
		eq = !eq
	}
	return other, eq, true
}

// ---- returns ----

func returnsOf(f *ssa.Function) []*ssa.Return {
	var out []*ssa.Return
	eachInstr(f, func(in ssa.Instruction) {
		if r, ok := in.(*ssa.Return); ok {
			if f.Recover != nil && r.Block() == f.Recover {
				return // synthetic exit taken only after a recovered panic
			}
			out = append(out, r)
		}
	})
	return out
}

// errResultIndex returns the index of the last result if it is of type error, else -1.
func errResultIndex(sig *types.Signature) int {
	n := sig.Results().Len()
	if n == 0 {
		return -1
	}
	if isErrorType(sig.Results().At(n - 1).Type()) {
		return n - 1
	}
	return -1
}

func isErrorType(t types.Type) bool {
	return types.Identical(t, types.Universe.Lookup("error").Type())
}

// reach: blocks reachable from b (inclusive).
func reachableFrom(b *ssa.BasicBlock) map[*ssa.BasicBlock]bool {
	seen := map[*ssa.BasicBlock]bool{}
	var walk func(x *ssa.BasicBlock)
	walk = func(x *ssa.BasicBlock) {
		if seen[x] {
			return
		}
		seen[x] = true
		for _, s := range x.Succs {
			walk(s)
		}
	}
	walk(b)
	return seen
}

// instrReaches: control can flow from a to b.
func instrReaches(a, b ssa.Instruction) bool {
	if a.Block() == b.Block() && instrIndex(a) < instrIndex(b) {
		return true
	}
	for _, s := range a.Block().Succs {
		if reachableFrom(s)[b.Block()] {
			return true
		}
	}
	return false
}

// deferredCalls lists the Defer instructions of f.
func defersOf(f *ssa.Function) []*ssa.Defer {
	var out []*ssa.Defer
	eachInstr(f, func(in ssa.Instruction) {
		if d, ok := in.(*ssa.Defer); ok {
			out = append(out, d)
		}
	})
	return out
}

func typeStr(t types.Type) string {
	return types.TypeString(t, func(p *types.Package) string {
		if s, ok := pkgShort[p.Path()]; ok {
			return s
		}
		return p.Name()
	})
}

func shortPos(s string) string {
	if i := strings.LastIndex(s, "/"); i >= 0 {
		return s[i+1:]
	}
	return s
}

// referrersOf is nil-safe.
func referrersOf(v ssa.Value) []ssa.Instruction {
	if r := v.Referrers(); r != nil {
		return *r
	}
	return nil
}

// loadsOfCell: for an Alloc (a local spilled to memory, e.g. a named result captured by a defer or a variable whose
// address is taken) return the stored values.
func storesTo(addr ssa.Value) []*ssa.Store {
	var out []*ssa.Store
	for _, r := range referrersOf(addr) {
		if s, ok := r.(*ssa.Store); ok && s.Addr == addr {
			out = append(out, s)
		}
	}
	return out
}

// ---- memory cells (locals spilled by defer/closures/address-taken) ----

// cellOf: if v is a load (*addr) from a local Alloc or a FreeVar cell, returns the address.
func cellOf(v ssa.Value) ssa.Value {
	u, ok := v.(*ssa.UnOp)
	if !ok || u.Op != token.MUL {
		return nil
	}
	switch a := u.X.(type) {
	case *ssa.Alloc:
		return a
	case *ssa.FreeVar:
		return a
	}
	return nil
}

// reachingStores returns the values that may be stored in cell `addr` when control reaches instruction `at`
// (backward walk over the CFG; the walk on a path stops at the first store to the cell).
// entry=true when some path reaches the function entry without a store (zero value / caller's value).
// Calls between store and use are assumed not to write the cell; this holds for cells that escape only into
// deferred closures (checked by cellEscapesOnlyToDefers) and is otherwise reported by the caller.
func reachingStores(addr ssa.Value, at ssa.Instruction) (vals []ssa.Value, entry bool) {
	type key struct {
		b *ssa.BasicBlock
	}
	seen := map[*ssa.BasicBlock]bool{}
	var walk func(b *ssa.BasicBlock, from int)
	add := func(v ssa.Value) {
		for _, x := range vals {
			if x == v {
				return
			}
		}
		vals = append(vals, v)
	}
	walk = func(b *ssa.BasicBlock, from int) {
		for i := from; i >= 0; i-- {
			if s, ok := b.Instrs[i].(*ssa.Store); ok && s.Addr == addr {
				add(s.Val)
				return
			}
		}
		if len(b.Preds) == 0 {
			entry = true
			return
		}
		for _, p := range b.Preds {
			if seen[p] {
				continue
			}
			seen[p] = true
			walk(p, len(p.Instrs)-1)
		}
	}
	walk(at.Block(), instrIndex(at)-1)
	return
}

// resolve follows loads from local cells back to the stored values (one level; stored values are stripped).
// A value that is not a cell load resolves to itself.
func resolve(v ssa.Value) []ssa.Value {
	v = strip(v)
	addr := cellOf(v)
	if addr == nil {
		return []ssa.Value{v}
	}
	if _, isFree := addr.(*ssa.FreeVar); isFree {
		return []ssa.Value{v}
	}
	vals, entry := reachingStores(addr, v.(ssa.Instruction))
	if entry || len(vals) == 0 {
		return []ssa.Value{v}
	}
	var out []ssa.Value
	for _, x := range vals {
		out = append(out, strip(x))
	}
	return out
}

// resolve1: the single value v resolves to, or v itself.
func resolve1(v ssa.Value) ssa.Value {
	r := resolve(v)
	if len(r) == 1 {
		// follow chains cell->cell
		if r[0] != strip(v) {
			return resolve1(r[0])
		}
		return r[0]
	}
	return strip(v)
}

// sameValue: a and b denote the same run-time value (identical SSA value, or loads of one cell with the same
// single reaching store).
func sameValue(a, b ssa.Value) bool {
	a, b = resolve1(a), resolve1(b)
	return a == b
}

// ---- partial evaluation over the CFG ----

// PathResult is one feasible path from entry to a Return under an environment that fixes some values to constants.
type PathResult struct {
	Conds  []Fact // branch decisions that could NOT be evaluated (residual conditions)
	Ret    *ssa.Return
	Blocks []*ssa.BasicBlock
}

// evalConst evaluates v to a constant under env (env gives constants for parameters / calls).
func evalConst(v ssa.Value, env func(ssa.Value) (constant.Value, bool)) (constant.Value, bool) {
	if env != nil {
		if c, ok := env(v); ok {
			return c, true
		}
	}
	switch x := v.(type) {
	case *ssa.Const:
		if x.Value != nil {
			return x.Value, true
		}
	case *ssa.ChangeType:
		return evalConst(x.X, env)
	case *ssa.Convert:
		if c, ok := evalConst(x.X, env); ok && c.Kind() == constant.Int {
			return c, true
		}
	case *ssa.UnOp:
		if x.Op == token.NOT {
			if c, ok := evalConst(x.X, env); ok && c.Kind() == constant.Bool {
				return constant.MakeBool(!constant.BoolVal(c)), true
			}
		}
	case *ssa.BinOp:
		a, ok1 := evalConst(x.X, env)
		b, ok2 := evalConst(x.Y, env)
		if ok1 && ok2 {
			switch x.Op {
			case token.EQL, token.NEQ, token.LSS, token.LEQ, token.GTR, token.GEQ:
				if a.Kind() == b.Kind() {
					return constant.MakeBool(constant.Compare(a, x.Op, b)), true
				}
			case token.AND, token.OR, token.XOR, token.AND_NOT, token.ADD, token.SUB, token.MUL:
				if a.Kind() == constant.Int && b.Kind() == constant.Int {
					return constant.BinaryOp(a, x.Op, b), true
				}
			}
		}
	case *ssa.Phi:
		// not path-sensitive here
	}
	return nil, false
}

// evalPaths enumerates entry-to-return paths of f, deciding branches whose condition evaluates under env and forking
// on the others. Loops are cut (a block is visited at most once per path).
func evalPaths(f *ssa.Function, env func(ssa.Value) (constant.Value, bool), limit int) []PathResult {
	var out []PathResult
	if len(f.Blocks) == 0 {
		return nil
	}
	var walk func(b *ssa.BasicBlock, conds []Fact, blocks []*ssa.BasicBlock, seen map[*ssa.BasicBlock]bool)
	walk = func(b *ssa.BasicBlock, conds []Fact, blocks []*ssa.BasicBlock, seen map[*ssa.BasicBlock]bool) {
		if len(out) >= limit || seen[b] {
			return
		}
		seen2 := map[*ssa.BasicBlock]bool{}
		for k := range seen {
			seen2[k] = true
		}
		seen2[b] = true
		blocks = append(append([]*ssa.BasicBlock(nil), blocks...), b)
		last := b.Instrs[len(b.Instrs)-1]
		switch x := last.(type) {
		case *ssa.Return:
			out = append(out, PathResult{Conds: append([]Fact(nil), conds...), Ret: x, Blocks: blocks})
		case *ssa.If:
			// path-sensitive phi evaluation is not attempted; evaluate the condition directly
			if c, ok := evalConst(x.Cond, env); ok && c.Kind() == constant.Bool {
				if constant.BoolVal(c) {
					walk(b.Succs[0], conds, blocks, seen2)
				} else {
					walk(b.Succs[1], conds, blocks, seen2)
				}
				return
			}
			walk(b.Succs[0], append(append([]Fact(nil), conds...), Fact{x.Cond, true, x}), blocks, seen2)
			walk(b.Succs[1], append(append([]Fact(nil), conds...), Fact{x.Cond, false, x}), blocks, seen2)
		case *ssa.Jump:
			walk(b.Succs[0], conds, blocks, seen2)
		default:
			// panic etc.
		}
	}
	walk(f.Blocks[0], nil, nil, map[*ssa.BasicBlock]bool{})
	return out
}

// phiOnPath: the value of phi along a given block path.
func phiOnPath(p *ssa.Phi, blocks []*ssa.BasicBlock) ssa.Value {
	pb := p.Block()
	for i, b := range blocks {
		if b == pb && i > 0 {
			prev := blocks[i-1]
			for j, pr := range pb.Preds {
				if pr == prev {
					return p.Edges[j]
				}
			}
		}
	}
	return nil
}

// declName returns a stable name for a top-level declaration: Func, (*T).Method, or the first declared name of a GenDecl.
func declName(d ast.Decl) string {
	switch x := d.(type) {
	case *ast.FuncDecl:
		if x.Recv != nil && len(x.Recv.List) > 0 {
			t := x.Recv.List[0].Type
			ptr := ""
			if s, ok := t.(*ast.StarExpr); ok {
				t = s.X
				ptr = "*"
			}
			if ix, ok := t.(*ast.IndexExpr); ok {
				t = ix.X
			}
			if id, ok := t.(*ast.Ident); ok {
				return "(" + ptr + id.Name + ")." + x.Name.Name
			}
		}
		return x.Name.Name
	case *ast.GenDecl:
		if x.Tok == token.IMPORT {
			return ""
		}
		for _, s := range x.Specs {
			switch sp := s.(type) {
			case *ast.ValueSpec:
				if len(sp.Names) > 0 {
					return sp.Names[0].Name
				}
			case *ast.TypeSpec:
				return sp.Name.Name
			}
		}
	}
	return ""
}

// resolveRaw is resolve without stripping representation wrappers of the stored values (keeps MakeInterface).
func resolveRaw(v ssa.Value) []ssa.Value {
	addr := cellOf(v)
	if addr == nil {
		return []ssa.Value{v}
	}
	if _, isFree := addr.(*ssa.FreeVar); isFree {
		return []ssa.Value{v}
	}
	vals, entry := reachingStores(addr, v.(ssa.Instruction))
	if entry || len(vals) == 0 {
		return []ssa.Value{v}
	}
	return vals
}

// ---- path enumeration to an instruction ----

// pathsTo enumerates acyclic CFG paths from the entry of f to the block of `at`, returning for each the branch
// decisions taken (every If on the path, with the truth of the edge followed). Loops are cut: a block appears at most
// once per path. The enumeration stops at limit paths (the caller must treat hitting the limit as undecided).
func pathsTo(f *ssa.Function, at ssa.Instruction, limit int) (paths [][]Fact, complete bool) {
	target := at.Block()
	// blocks from which target is reachable
	canReach := map[*ssa.BasicBlock]bool{}
	var mark func(b *ssa.BasicBlock)
	mark = func(b *ssa.BasicBlock) {
		if canReach[b] {
			return
		}
		canReach[b] = true
		for _, p := range b.Preds {
			mark(p)
		}
	}
	mark(target)
	complete = true
	var bpath []*ssa.BasicBlock
	var walk func(b *ssa.BasicBlock, facts []Fact, seen map[*ssa.BasicBlock]bool)
	walk = func(b *ssa.BasicBlock, facts []Fact, seen map[*ssa.BasicBlock]bool) {
		if len(paths) >= limit {
			complete = false
			return
		}
		if b == target {
			paths = append(paths, append([]Fact(nil), facts...))
			return
		}
		if seen[b] || !canReach[b] {
			return
		}
		seen[b] = true
		defer delete(seen, b)
		bpath = append(bpath, b)
		defer func() { bpath = bpath[:len(bpath)-1] }()
		last := b.Instrs[len(b.Instrs)-1]
		if iff, ok := last.(*ssa.If); ok {
			for k, truth := range []bool{true, false} {
				nf := append(append([]Fact(nil), facts...), Fact{iff.Cond, truth, iff})
				nf = append(nf, phiFactsOnPath(iff, truth, bpath)...)
				walk(b.Succs[k], nf, seen)
			}
			return
		}
		for _, s := range b.Succs {
			if f.Recover != nil && s == f.Recover {
				continue
			}
			walk(s, facts, seen)
		}
	}
	if len(f.Blocks) > 0 {
		walk(f.Blocks[0], nil, map[*ssa.BasicBlock]bool{})
	}
	return
}

// phiFactsOnPath: when the condition of iff is a nil test of a phi (or of a cell holding a phi) whose block lies on the
// path, the outcome also says something about the value the phi took on this path: that statement is returned as a
// fact on a synthetic comparison `value ==/!= nil` (only Op, X and Y of the synthetic BinOp are meaningful).
func phiFactsOnPath(iff *ssa.If, truth bool, path []*ssa.BasicBlock) []Fact {
	v, _ := normCond(iff.Cond, truth)
	b, ok := v.(*ssa.BinOp)
	if !ok || (b.Op != token.EQL && b.Op != token.NEQ) {
		return nil
	}
	var other, nilc ssa.Value
	if isNilConst(b.Y) {
		other, nilc = b.X, b.Y
	} else if isNilConst(b.X) {
		other, nilc = b.Y, b.X
	} else {
		return nil
	}
	if ld, isLd := other.(*ssa.UnOp); isLd && ld.Op == token.MUL {
		if al, isAl := ld.X.(*ssa.Alloc); isAl {
			vals, entry := reachingStores(al, ld)
			if !entry && len(vals) == 1 {
				other = vals[0]
			}
		}
	}
	changed := false
	for i := 0; i < 4; i++ {
		ph, isPhi := other.(*ssa.Phi)
		if !isPhi {
			break
		}
		r := phiOnPath(ph, path)
		if r == nil {
			break
		}
		other = r
		changed = true
	}
	if !changed {
		return nil
	}
	// the same truth applies to the (un-normalised) synthetic condition built with the original operator
	_, t := normCond(iff.Cond, truth)
	return []Fact{{Cond: &ssa.BinOp{Op: b.Op, X: other, Y: nilc}, Truth: t, If: iff}}
}

// callFact: the fact is the boolean result of a call of method `name` (possibly negated); returns the call and the truth
// of the call's result on this path.
func callFact(fa Fact, name string) (*ssa.Call, bool, bool) {
	v, truth := normCond(fa.Cond, fa.Truth)
	c, ok := v.(*ssa.Call)
	if !ok {
		return nil, false, false
	}
	fn := calleeFunc(c)
	if fn == nil || nm(fn) != name {
		return nil, false, false
	}
	return c, truth, true
}

// feasiblePath rejects paths that take contradictory decisions on two evaluations of the same predicate call (same
// callee, same arguments): `isNotExist(err)` evaluated twice in one condition cannot differ.
func feasiblePath(path []Fact) bool {
	type dec struct {
		c     *ssa.Call
		truth bool
	}
	var ds []dec
	for _, fa := range path {
		v, truth := normCond(fa.Cond, fa.Truth)
		if c, ok := v.(*ssa.Call); ok {
			ds = append(ds, dec{c, truth})
		}
	}
	for i := 0; i < len(ds); i++ {
		for j := i + 1; j < len(ds); j++ {
			a, b := ds[i].c, ds[j].c
			if a == b || ds[i].truth == ds[j].truth {
				continue
			}
			if calleeFunc(a) == nil || calleeFunc(a) != calleeFunc(b) || len(a.Call.Args) != len(b.Call.Args) {
				continue
			}
			same := true
			for k := range a.Call.Args {
				if !sameValue(a.Call.Args[k], b.Call.Args[k]) {
					same = false
				}
			}
			if same {
				return false
			}
		}
	}
	return true
}

// feasiblyReaches reports whether some acyclic CFG path leads from instruction `from` to instruction `to` on which no
// branch contradicts what is already decided: the branch facts that hold at `from` (dominating Ifs) and the branches
// taken earlier on the path, with phi conditions resolved along the path. It is a refinement of plain reachability
// for code of the form `if !ok { act }; if ok { return err }`. When the enumeration bound is hit it answers true.
func feasiblyReaches(from, to ssa.Instruction, limit int) bool {
	fb, tb := from.Block(), to.Block()
	if fb == tb {
		return instrIndex(from) < instrIndex(to) || reachableFrom(fb)[fb]
	}
	canReach := map[*ssa.BasicBlock]bool{}
	var mark func(b *ssa.BasicBlock)
	mark = func(b *ssa.BasicBlock) {
		if canReach[b] {
			return
		}
		canReach[b] = true
		for _, p := range b.Preds {
			mark(p)
		}
	}
	mark(tb)
	if !canReach[fb] {
		return false
	}
	type kv struct {
		v     ssa.Value
		truth bool
	}
	var base []kv
	for _, fa := range factsAt(fb) {
		v, t := normCond(fa.Cond, fa.Truth)
		base = append(base, kv{v, t})
	}
	steps := 0
	found := false
	var walk func(b *ssa.BasicBlock, path []*ssa.BasicBlock, known []kv)
	walk = func(b *ssa.BasicBlock, path []*ssa.BasicBlock, known []kv) {
		if found {
			return
		}
		steps++
		if steps > limit {
			found = true // undecided: assume reachable
			return
		}
		path = append(path, b)
		if b == tb {
			found = true
			return
		}
		last := b.Instrs[len(b.Instrs)-1]
		iff, isIf := last.(*ssa.If)
		for si, s := range b.Succs {
			if !canReach[s] {
				continue
			}
			onPath := false
			for _, pb := range path {
				if pb == s {
					onPath = true
				}
			}
			if onPath {
				continue
			}
			nk := known
			if isIf {
				v, t := normCond(iff.Cond, si == 0)
				// resolve a phi condition along the path
				for i := 0; i < 4; i++ {
					phi, ok := v.(*ssa.Phi)
					if !ok {
						break
					}
					r := phiOnPath(phi, path)
					if r == nil {
						break
					}
					v, t = normCond(r, t)
				}
				if c, ok := v.(*ssa.Const); ok && c.Value != nil && c.Value.Kind() == constant.Bool {
					if constant.BoolVal(c.Value) != t {
						continue
					}
				}
				// a nil test of a phi (or of a cell holding one): the value it has on this path decides
				if pf := phiFactsOnPath(iff, si == 0, path); len(pf) == 1 {
					if x, isNil, ok := nilTest(pf[0]); ok {
						if nn := nilnessOf(x, 0); (nn == 1 && isNil) || (nn == -1 && !isNil) {
							continue
						}
					}
				}
				contradiction := false
				for _, k := range known {
					if k.v == v && k.truth != t {
						contradiction = true
					}
				}
				if contradiction {
					continue
				}
				nk = append(append([]kv(nil), known...), kv{v, t})
			}
			walk(s, path, nk)
		}
	}
	walk(fb, nil, base)
	return found
}

// ---- permission checks, direct or through a naming wrapper ----

// permCheck describes `recv.checkPermission(mask, user)`; for a call of an unexported wrapper whose every return is
// such a call on one of its own parameters (e.g. `func (dn *dirNode) canModifyEntries(u) bool { return
// dn.checkPermission(OpenWrite|OpenLookup, u) }`), recv and mask are expressed with the caller's values.
type permCheck struct {
	recv ssa.Value
	mask ssa.Value
	call *ssa.Call // the call in the function under analysis
}

func asPermCheck(v ssa.Value) (permCheck, bool) {
	c, ok := v.(*ssa.Call)
	if !ok {
		return permCheck{}, false
	}
	if fn := calleeFunc(c); fn != nil && nm(fn) == "checkPermission" {
		args := callArgs(c)
		if len(args) < 1 || callRecv(c) == nil {
			return permCheck{}, false
		}
		return permCheck{callRecv(c), args[0], c}, true
	}
	g := c.Call.StaticCallee()
	if g == nil || len(g.Blocks) == 0 || g.Pkg == nil || !strings.HasPrefix(g.Pkg.Pkg.Path(), modPath) || isEntryPoint(g) {
		return permCheck{}, false
	}
	if g.Signature.Results().Len() != 1 {
		return permCheck{}, false
	}
	rets := returnsOf(g)
	if len(rets) != 1 {
		return permCheck{}, false
	}
	inner, ok := asPermCheck(strip(resolve1(rets[0].Results[0])))
	if !ok {
		return permCheck{}, false
	}
	// map the wrapper's parameters to the caller's arguments (c.Call.Args includes the receiver for static calls)
	toCaller := func(iv ssa.Value) ssa.Value {
		iv = strip(iv)
		if k, isC := iv.(*ssa.Const); isC {
			return k
		}
		// the address of an embedded struct of a parameter (dn.baseNode) denotes the parameter's object
		for {
			fa, isFA := iv.(*ssa.FieldAddr)
			if !isFA {
				break
			}
			fv := fieldVar(fa)
			if fv == nil || !fv.Embedded() {
				return nil
			}
			iv = strip(fa.X)
		}
		if p, isP := iv.(*ssa.Parameter); isP {
			for i, gp := range g.Params {
				if gp == p && i < len(c.Call.Args) {
					return c.Call.Args[i]
				}
			}
		}
		return nil
	}
	recv, mask := toCaller(inner.recv), toCaller(inner.mask)
	if recv == nil || mask == nil {
		return permCheck{}, false
	}
	return permCheck{recv, mask, c}, true
}

// permFact: the fact is the outcome of a permission check (direct or through a wrapper).
func permFact(fa Fact) (permCheck, bool, bool) {
	v, truth := normCond(fa.Cond, fa.Truth)
	if pc, ok := asPermCheck(v); ok {
		return pc, truth, true
	}
	return permCheck{}, false, false
}
