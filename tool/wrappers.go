package main

import (
	"fmt"
	"go/token"
	"go/types"

	"golang.org/x/tools/go/ssa"
)

// Shared machinery for the wrapper file systems (rofs, failfs, basepathfs): enumeration of calls on the wrapped
// ("base") object and tracking of base objects towards return operands.

// baseIfaceName: t is one of the avfs interfaces through which a base object is held.
func baseIfaceName(t types.Type) (string, bool) {
	n, ok := t.(*types.Named)
	if !ok || n.Obj().Pkg() == nil || n.Obj().Pkg().Path() != modPath {
		return "", false
	}
	switch nm(n.Obj()) {
	case "VFS", "VFSBase", "IOFS", "File":
		if _, isIface := n.Underlying().(*types.Interface); isIface {
			return n.Obj().Name(), true
		}
	}
	return "", false
}

type baseCall struct {
	Fn     *ssa.Function
	Call   ssa.CallInstruction
	Iface  string // VFS | VFSBase | IOFS | File
	Method string
	Recv   ssa.Value
}

// isFile reports whether the call is on a File-typed base object.
func (b baseCall) isFile() bool { return b.Iface == "File" }

func (b baseCall) effect() (effEntry, bool) {
	if b.isFile() {
		e, ok := fileEffects[b.Method]
		return e, ok
	}
	e, ok := vfsEffects[b.Method]
	return e, ok
}

// enumBaseCalls lists every interface method call (invoke) in f whose receiver is held through one of the avfs
// file-system / file interfaces.
func enumBaseCalls(f *ssa.Function) []baseCall {
	var out []baseCall
	eachCall(f, func(c ssa.CallInstruction) {
		cc := c.Common()
		if !cc.IsInvoke() {
			return
		}
		if n, ok := baseIfaceName(cc.Value.Type()); ok {
			out = append(out, baseCall{Fn: f, Call: c, Iface: n, Method: cc.Method.Name(), Recv: cc.Value})
		}
	})
	return out
}

// loadOfField: v is a load of field `field` of a value of named type typ (through pointer); returns the struct value.
func loadOfField(v ssa.Value, field string) (ssa.Value, bool) {
	u, ok := v.(*ssa.UnOp)
	if !ok || u.Op != token.MUL {
		return nil, false
	}
	fa, ok := u.X.(*ssa.FieldAddr)
	if !ok {
		return nil, false
	}
	if fieldName(fa.X.Type(), fa.Field) != field {
		return nil, false
	}
	return fa.X, true
}

// methodsOf lists the declared methods (SSA functions) of the named type typ of package short, by name.
func (c *Config) methodsOf(short, typ string) map[string]*ssa.Function {
	out := map[string]*ssa.Function{}
	n := c.named(short, typ)
	if n == nil {
		return out
	}
	for i := 0; i < n.NumMethods(); i++ {
		m := n.Method(i)
		if f := c.Prog.FuncValue(m); f != nil {
			out[m.Name()] = f
		}
	}
	return out
}

// flowsToReturn follows v forward through phis, interface changes, extracts, and local cells and reports the first
// Return instruction it reaches as an operand, unless it is first consumed by `wrap` (which returns true when the use
// is an accepted wrapping: storing into the package's own wrapper struct, or passing to its constructor).
func flowsToReturn(v ssa.Value, wrap func(user ssa.Instruction, val ssa.Value) bool) (ret *ssa.Return, via []string) {
	seen := map[ssa.Value]bool{}
	var walk func(v ssa.Value, trail []string) *ssa.Return
	walk = func(v ssa.Value, trail []string) *ssa.Return {
		if seen[v] {
			return nil
		}
		seen[v] = true
		for _, u := range referrersOf(v) {
			if wrap != nil && wrap(u, v) {
				continue
			}
			switch x := u.(type) {
			case *ssa.Return:
				via = trail
				return x
			case *ssa.Phi, *ssa.ChangeInterface, *ssa.MakeInterface, *ssa.ChangeType, *ssa.Extract, *ssa.TypeAssert:
				if r := walk(x.(ssa.Value), append(trail, x.(ssa.Value).Name())); r != nil {
					return r
				}
			case *ssa.Store:
				if x.Val != v {
					continue
				}
				// local cell: follow its loads
				if a, ok := x.Addr.(*ssa.Alloc); ok {
					for _, lu := range referrersOf(a) {
						if ld, ok := lu.(*ssa.UnOp); ok && ld.Op == token.MUL {
							if r := walk(ld, append(trail, "cell "+a.Comment)); r != nil {
								return r
							}
						}
					}
				}
			}
		}
		return nil
	}
	ret = walk(v, nil)
	return
}

// argPassedTo reports uses of v as an argument of a call (static or dynamic), excluding its use as invoke receiver.
func usesAsArgument(v ssa.Value) []ssa.CallInstruction {
	var out []ssa.CallInstruction
	seen := map[ssa.Value]bool{}
	var walk func(v ssa.Value)
	walk = func(v ssa.Value) {
		if seen[v] {
			return
		}
		seen[v] = true
		for _, u := range referrersOf(v) {
			switch x := u.(type) {
			case ssa.CallInstruction:
				for _, a := range x.Common().Args {
					if a == v {
						out = append(out, x)
					}
				}
			case *ssa.Phi, *ssa.ChangeInterface, *ssa.MakeInterface, *ssa.ChangeType:
				walk(x.(ssa.Value))
			}
		}
	}
	walk(v)
	return out
}

// paramIndex: v (stripped) is parameter #i of f (receiver excluded: index in the method's declared parameter list).
func paramIndex(f *ssa.Function, v ssa.Value) int {
	v = strip(v)
	off := 0
	if f.Signature.Recv() != nil {
		off = 1
	}
	for i, p := range f.Params {
		if ssa.Value(p) == v {
			return i - off
		}
	}
	return -100
}

// isPositionalForward: call passes exactly f's own parameters, in order (variadic slice passed through).
func isPositionalForward(f *ssa.Function, c ssa.CallInstruction) (bool, string) {
	args := callArgs(c)
	np := len(f.Params)
	if f.Signature.Recv() != nil {
		np--
	}
	if len(args) != np {
		return false, fmt.Sprintf("passes %d arguments for %d parameters", len(args), np)
	}
	for i, a := range args {
		if paramIndex(f, a) != i {
			return false, fmt.Sprintf("argument #%d is not the method's own parameter #%d", i+1, i+1)
		}
	}
	return true, ""
}

// returnsCallResults: every Return of f that is reached from call c returns exactly c's results in order.
func returnsCallResults(f *ssa.Function, c *ssa.Call) (bool, string) {
	n := f.Signature.Results().Len()
	ok := false
	for _, r := range returnsOf(f) {
		if !instrReaches(c, r) {
			continue
		}
		if len(r.Results) != n {
			return false, "result arity differs"
		}
		for i, rv := range r.Results {
			rv = resolve1(rv)
			if n == 1 {
				if rv != ssa.Value(c) {
					return false, "returns something other than the base call's result"
				}
				continue
			}
			t, idx, isEx := extractOf(rv)
			if !isEx || t != ssa.Value(c) || idx != i {
				return false, fmt.Sprintf("result #%d is not result #%d of the base call", i+1, i+1)
			}
		}
		ok = true
	}
	if !ok {
		return false, "no return is reached from the base call"
	}
	return true, ""
}
