package main

import (
	"fmt"
	"go/token"
	"go/types"
	"strings"

	"golang.org/x/tools/go/ssa"
)

// C07 — panics: explicit panics, nil handles of the wrapper file types, unchecked indexing / assertions on arguments.

func init() {
	notDecided["C07"] = []string{
		"termination of loops and recursion other than through locks (e.g. WalkDir over a cyclic tree)",
		"memory exhaustion from caller-chosen sizes; panics inside the Go runtime or the standard library",
		"deadlocks that need two unrelated pointer chains to denote one object (access paths are not a pointer analysis)",
	}
	register(&Rule{ID: "C07.panic", Floor: 4,
		Text: "every explicit panic in the library is either File.Name on a nil handle (sanctioned, as in package os) or reported: requests that cannot be served must be errors",
		Run:  c07Panic})
	register(&Rule{ID: "C07.nilrecv", Floor: 40,
		Text: "every avfs.File method of the wrapper file types (RoFile, FailFile, BasePathFile) dereferences its receiver only after `f == nil -> return` (Name excepted): a nil handle yields an error, not a panic",
		Run:  c07NilRecv})
	register(&Rule{ID: "C07.args", Floor: 2, Also: []string{"C12"}, AlsoOnly: map[string][]string{"C12": {"failfs."}}, AlsoFloor: map[string]int{"C12": 0},
		Text: "in exported functions and methods, a string parameter is indexed with a constant only under a dominating length test, and a value obtained from a parameter is type-asserted only in comma-ok form",
		Run:  c07Args})
}

var c07Pkgs = []string{"avfs", "memfs", "orefafs", "memidm", "rofs", "basepathfs", "failfs"}

func c07Panic(rc *RuleCtx) {
	for _, pk := range c07Pkgs {
		for _, f := range rc.C.srcFuncs(pk) {
			n := 0
			eachInstr(f, func(in ssa.Instruction) {
				p, ok := in.(*ssa.Panic)
				if !ok {
					return
				}
				n++
				cons := fmt.Sprintf("%s panic#%d", funcName(f), n)
				if f.Name() == "Name" && f.Signature.Recv() != nil && len(f.Params) > 0 {
					for _, fa := range factsAt(p.Block()) {
						if x, isNil, k := nilTest(fa); k && isNil && x == ssa.Value(f.Params[0]) {
							rc.good(cons, p.Pos(), "File.Name on a nil handle: the sanctioned panic (as os.File)")
							return
						}
					}
				}
				if f.Signature.Recv() == nil && f.Name() == "New" {
					rc.good(cons, p.Pos(), "a constructor (not a VFS, File or identity-manager call) documented to panic; NewWithErr is the error-returning form")
					return
				}
				rc.bad(cons, p.Pos(), "an explicit panic is reachable from the library's API: the request must be reported as an error")
			})
		}
	}
}

func c07NilRecv(rc *RuleCtx) {
	for _, t := range []struct{ pkg, typ string }{{"rofs", "RoFile"}, {"failfs", "FailFile"}, {"basepathfs", "BasePathFile"}} {
		fms := fileMethods(rc.C, t.pkg, t.typ)
		if len(fms) == 0 {
			rc.anchor(t.pkg + "." + t.typ)
			continue
		}
		for _, f := range fms {
			if f.Name() == "Name" {
				continue
			}
			cons := funcName(f) + " nil-guard"
			if d := selfDelegate(f, t.typ); d != "" {
				rc.good(cons, f.Pos(), "delegates to "+d)
				continue
			}
			bad := ""
			eachInstr(f, func(in ssa.Instruction) {
				if bad != "" {
					return
				}
				switch x := in.(type) {
				case *ssa.FieldAddr:
					if x.X == ssa.Value(f.Params[0]) && !recvNonNilAt(f, x.Block()) {
						bad = "the receiver is dereferenced (" + rc.C.pos(x.Pos()) + ") where it may be nil"
					}
				case ssa.CallInstruction:
					// a call of another method on the possibly-nil receiver that itself dereferences it
					if sc := x.Common().StaticCallee(); sc != nil && len(x.Common().Args) > 0 && x.Common().Args[0] == ssa.Value(f.Params[0]) && sc != f && !recvNonNilAt(f, in.Block()) {
						deref := false
						eachInstr(sc, func(i2 ssa.Instruction) {
							if fa, ok := i2.(*ssa.FieldAddr); ok && len(sc.Params) > 0 && fa.X == ssa.Value(sc.Params[0]) && !recvNonNilAt(sc, fa.Block()) {
								deref = true
							}
						})
						if deref {
							bad = "calls " + sc.Name() + " on the receiver (" + rc.C.pos(in.Pos()) + ") where it may be nil, and " + sc.Name() + " dereferences it"
						}
					}
				}
			})
			if bad != "" {
				rc.bad(cons, f.Pos(), bad+": a call on a nil handle panics instead of returning an error")
			} else {
				rc.good(cons, f.Pos(), "receiver dereferenced only under f != nil")
			}
		}
	}
}

func c07Args(rc *RuleCtx) {
	for _, pk := range c07Pkgs {
		for _, f := range rc.C.srcFuncs(pk) {
			if !isEntryPoint(f) {
				continue
			}
			if fn := rc.C.Fset.Position(f.Pos()).Filename; strings.HasSuffix(fn, "/vfs_ostype_on.go") {
				// adapted copies of path/filepath: their indexing relies on relational invariants (VolumeNameLen(p) <= len(p));
				// they are validated against the standard library's source by C13 instead
				continue
			}
			n := 0
			eachInstr(f, func(in ssa.Instruction) {
				switch x := in.(type) {
				case *ssa.Index:
					b, ok := x.X.Type().Underlying().(*types.Basic)
					if !ok || b.Info()&types.IsString == 0 {
						return
					}
					par, ok := strip(x.X).(*ssa.Parameter)
					if !ok {
						return
					}
					k, isC := constInt(x.Index)
					if !isC {
						return
					}
					n++
					cons := fmt.Sprintf("%s index %s[%d]", funcName(f), par.Name(), k)
					if stringLongerThan(x, par, k) {
						rc.good(cons, x.Pos(), "dominated by a length test on "+par.Name())
					} else {
						rc.bad(cons, x.Pos(), fmt.Sprintf("%s[%d] is evaluated without a dominating test that %s has more than %d bytes: a short or empty argument panics with index out of range", par.Name(), k, par.Name(), k))
					}
				case *ssa.TypeAssert:
					if x.CommaOk {
						return
					}
					// value derived from a parameter (result of a call on a parameter, or the parameter itself)
					src := strip(x.X)
					fromParam := false
					if _, ok := src.(*ssa.Parameter); ok {
						fromParam = true
					}
					if c, _ := resultOfCall(src); c != nil {
						if r := callRecv(c); r != nil {
							if _, ok := strip(r).(*ssa.Parameter); ok && len(f.Params) > 0 && strip(r) != ssa.Value(f.Params[0]) {
								fromParam = true
							}
						}
					}
					if !fromParam {
						return
					}
					n++
					cons := fmt.Sprintf("%s assert %s", funcName(f), typeStr(x.AssertedType))
					rc.bad(cons, x.Pos(), "a value obtained from an argument is asserted to "+typeStr(x.AssertedType)+" without the comma-ok form: an argument of another dynamic type panics")
				}
			})
		}
	}
	_ = token.NoPos
}

// stringLongerThan: a fact at the lookup establishes len(par) > k (or par != "" for k == 0).
func stringLongerThan(at ssa.Instruction, par *ssa.Parameter, k int64) bool {
	for _, fa := range factsAt(at.Block()) {
		v, truth := normCond(fa.Cond, fa.Truth)
		bo, ok := v.(*ssa.BinOp)
		if !ok {
			continue
		}
		// par == "" false / par != "" true
		if strip(bo.X) == ssa.Value(par) {
			if c, ok := bo.Y.(*ssa.Const); ok && c.Value != nil && c.Value.ExactString() == `""` && k == 0 {
				if (bo.Op == token.EQL && !truth) || (bo.Op == token.NEQ && truth) {
					return true
				}
			}
		}
		// len(par) op c
		if c, ok := bo.X.(*ssa.Call); ok {
			if b, ok := c.Call.Value.(*ssa.Builtin); ok && b.Name() == "len" && strip(c.Call.Args[0]) == ssa.Value(par) {
				if m, isC := constInt(bo.Y); isC {
					switch {
					case bo.Op == token.GTR && truth && m >= k,
						bo.Op == token.GEQ && truth && m > k,
						bo.Op == token.LEQ && !truth && m >= k,
						bo.Op == token.LSS && !truth && m > k,
						bo.Op == token.EQL && !truth && m == 0 && k == 0,
						bo.Op == token.NEQ && truth && m == 0 && k == 0:
						return true
					}
				}
			}
		}
	}
	return false
}
