package main

import (
	"go/types"
	"sort"
)

// Effect classes of the methods of avfs.VFS / avfs.File on the *base* object of a wrapper.
type effect int

const (
	effPure   effect = iota // lexical or constant: no access to the tree
	effRead                 // reads the tree, never writes it
	effHandle               // changes only the state of the handle itself (offset, cursor, open/closed)
	effView                 // changes only per-object view state (cwd, umask, current user, identity manager)
	effOpen                 // OpenFile: effect depends on the flag argument
	effSub                  // Sub: returns a new view on the same tree; itself read-only
	effMutate               // may change tree, contents, modes, owners or modification times
)

func (e effect) String() string {
	return [...]string{"pure", "read-only", "handle-local", "view-state", "open(flag)", "sub-view", "mutating"}[e]
}

type effEntry struct {
	e      effect
	reason string
}

// vfsEffects classifies EVERY method of avfs.VFS (totality is checked against the interface on every run).
var vfsEffects = map[string]effEntry{
	"Abs":             {effRead, "joins the current directory; reads cwd only"},
	"Base":            {effPure, "lexical"},
	"Chdir":           {effView, "changes the object's working directory, not the tree"},
	"Chmod":           {effMutate, "changes a mode"},
	"Chown":           {effMutate, "changes an owner"},
	"Chtimes":         {effMutate, "changes a modification time"},
	"Clean":           {effPure, "lexical"},
	"Create":          {effMutate, "creates or truncates a file"},
	"CreateTemp":      {effMutate, "creates a file"},
	"Dir":             {effPure, "lexical"},
	"EvalSymlinks":    {effRead, "walks the tree"},
	"Features":        {effPure, "constant of the object"},
	"FromSlash":       {effPure, "lexical"},
	"Getwd":           {effRead, "reads cwd"},
	"Glob":            {effRead, "lists directories"},
	"HasFeature":      {effPure, "constant of the object"},
	"Idm":             {effPure, "returns the identity manager"},
	"IsAbs":           {effPure, "lexical"},
	"IsPathSeparator": {effPure, "lexical"},
	"Join":            {effPure, "lexical"},
	"Lchown":          {effMutate, "changes an owner"},
	"Link":            {effMutate, "creates a directory entry"},
	"Lstat":           {effRead, "reads attributes"},
	"Match":           {effPure, "lexical"},
	"Mkdir":           {effMutate, "creates a directory"},
	"MkdirAll":        {effMutate, "creates directories"},
	"MkdirTemp":       {effMutate, "creates a directory"},
	"Name":            {effPure, "constant of the object"},
	"OSType":          {effPure, "constant of the object"},
	"Open":            {effRead, "opens read-only"},
	"OpenFile":        {effOpen, "creates/truncates/opens for writing unless flag == O_RDONLY"},
	"PathSeparator":   {effPure, "constant of the object"},
	"ReadDir":         {effRead, "lists a directory"},
	"ReadFile":        {effRead, "reads a file"},
	"Readlink":        {effRead, "reads a link"},
	"Rel":             {effPure, "lexical"},
	"Remove":          {effMutate, "removes an entry"},
	"RemoveAll":       {effMutate, "removes a subtree"},
	"Rename":          {effMutate, "moves an entry"},
	"SameFile":        {effPure, "compares two FileInfo values"},
	"SetIdm":          {effView, "replaces the object's identity manager"},
	"SetUMask":        {effView, "changes the object's creation mask"},
	"SetUser":         {effView, "changes the object's current user"},
	"SetUserByName":   {effView, "changes the object's current user"},
	"Split":           {effPure, "lexical"},
	"Stat":            {effRead, "reads attributes"},
	"Sub":             {effSub, "returns a view rooted at a sub directory"},
	"Symlink":         {effMutate, "creates a symbolic link"},
	"TempDir":         {effPure, "computed from the user and OS type"},
	"ToSlash":         {effPure, "lexical"},
	"ToSysStat":       {effPure, "converts a FileInfo"},
	"Truncate":        {effMutate, "changes file content"},
	"Type":            {effPure, "constant of the object"},
	"UMask":           {effPure, "reads the creation mask"},
	"User":            {effPure, "reads the current user"},
	"WalkDir":         {effRead, "walks the tree (the callback is the caller's)"},
	"WriteFile":       {effMutate, "creates/overwrites a file"},
}

// fileEffects classifies EVERY method of avfs.File.
var fileEffects = map[string]effEntry{
	"Chdir":        {effView, "changes the file system's working directory"},
	"Chmod":        {effMutate, "changes a mode"},
	"Chown":        {effMutate, "changes an owner"},
	"Close":        {effHandle, "closes the handle"},
	"Fd":           {effPure, "constant of the handle"},
	"Name":         {effPure, "constant of the handle"},
	"Read":         {effHandle, "reads and moves the offset"},
	"ReadAt":       {effRead, "reads"},
	"ReadDir":      {effHandle, "reads and moves the directory cursor"},
	"Readdirnames": {effHandle, "reads and moves the directory cursor"},
	"Seek":         {effHandle, "moves the offset"},
	"Stat":         {effRead, "reads attributes"},
	"Sync":         {effHandle, "flushes; changes neither tree nor content"},
	"Truncate":     {effMutate, "changes file content"},
	"Write":        {effMutate, "changes file content"},
	"WriteAt":      {effMutate, "changes file content"},
	"WriteString":  {effMutate, "changes file content"},
}

func ifaceMethods(t *types.Named) []string {
	if t == nil {
		return nil
	}
	ms := types.NewMethodSet(t)
	var out []string
	for i := 0; i < ms.Len(); i++ {
		out = append(out, ms.At(i).Obj().Name())
	}
	sort.Strings(out)
	return out
}

// tableTotal checks a table against an interface's method set; returns missing and superfluous names.
func tableTotal(tbl map[string]effEntry, t *types.Named) (missing, extra []string) {
	have := map[string]bool{}
	for _, m := range ifaceMethods(t) {
		have[m] = true
		if _, ok := tbl[m]; !ok {
			missing = append(missing, m)
		}
	}
	for m := range tbl {
		if !have[m] {
			extra = append(extra, m)
		}
	}
	sort.Strings(extra)
	return
}

// permission-class error values (avfs package-level variables / constants) a refusal may carry.
var permClassErrors = map[string]string{
	"ErrPermDenied":          "EACCES",
	"ErrOpNotPermitted":      "EPERM",
	"ErrWinAccessDenied":     "ERROR_ACCESS_DENIED",
	"ErrWinNotSupported":     "ERROR_NOT_SUPPORTED (Windows counterpart of EPERM in this library)",
	"ErrWinPrivilegeNotHeld": "ERROR_PRIVILEGE_NOT_HELD",
}
