package main

import (
	"fmt"
	"go/token"
	"go/types"
	"sort"
	"strings"

	"golang.org/x/tools/go/ssa"
)

// Guarded-by analysis (C08.guard, C15.guard): every access to a field of a lock-bearing struct happens with that
// object's lock held in an adequate mode, locally or — for internal helpers — at every caller.

// guard table for structs with more than one mutex: field -> mutex field.
var multiMutexGuards = map[string]map[string]string{
	"memidm.MemIdm": {
		"groupsByName": "grpMu", "groupsById": "grpMu", "maxGid": "grpMu",
		"usersByName": "usrMu", "usersById": "usrMu", "maxUid": "usrMu",
		"adminGroup": "", "adminUser": "", // written once by the constructor (checked: immutable-after-construction)
		"FeaturesFn": "", "OSTypeFn": "",
	},
}

type fieldAccess struct {
	fn     *ssa.Function
	at     ssa.Instruction // instruction performing the access (state is taken before it)
	obj    okey
	owner  *types.Named // struct declaring the field
	field  string
	write  bool
	atomic bool
	mutex  string // name of the guarding mutex field
	what   string
}

type guardInfo struct {
	a         *lockAnalysis
	accesses  []fieldAccess
	immutable map[string]bool // owner.field written only on fresh objects
	guarded   map[*types.Named]bool
}

var guardCache = map[*Config]*guardInfo{}

// mutexFieldsOf lists mutex fields of struct type n (direct, or inside structs embedded by value).
func mutexFieldsOf(n *types.Named) []string {
	st, ok := n.Underlying().(*types.Struct)
	if !ok {
		return nil
	}
	var out []string
	for i := 0; i < st.NumFields(); i++ {
		f := st.Field(i)
		if _, isM := isMutexType(f.Type()); isM {
			out = append(out, f.Name())
		} else if f.Embedded() {
			if en, ok := f.Type().(*types.Named); ok {
				if _, isS := en.Underlying().(*types.Struct); isS && en.Obj().Pkg() == n.Obj().Pkg() {
					out = append(out, mutexFieldsOf(en)...)
				}
			}
		}
	}
	return out
}

func typeKey(n *types.Named) string {
	if n.Obj().Pkg() == nil {
		return n.Obj().Name()
	}
	return pkgShort[n.Obj().Pkg().Path()] + "." + n.Obj().Name()
}

func guardInfoFor(c *Config) *guardInfo {
	if g, ok := guardCache[c]; ok {
		return g
	}
	a := lockAnalysisFor(c)
	g := &guardInfo{a: a, immutable: map[string]bool{}, guarded: map[*types.Named]bool{}}
	guardCache[c] = g
	// guarded struct types: contain a mutex (directly or by embedding), in the analysed packages
	for _, p := range a.pkgs {
		pk := c.pkg(p)
		if pk == nil {
			continue
		}
		sc := pk.Types.Scope()
		for _, nm := range sc.Names() {
			if tn, ok := sc.Lookup(nm).(*types.TypeName); ok {
				if n, ok := tn.Type().(*types.Named); ok && len(mutexFieldsOf(n)) > 0 {
					g.guarded[n] = true
				}
			}
		}
	}
	// enumerate accesses
	writesOnShared := map[string]bool{}
	writesAny := map[string]bool{}
	for _, f := range a.funcs {
		eachInstr(f, func(in ssa.Instruction) {
			fa, ok := in.(*ssa.FieldAddr)
			if !ok {
				return
			}
			owner := namedOf(fa.X.Type())
			if owner == nil || !g.guarded[owner] {
				return
			}
			fname := fieldName(fa.X.Type(), fa.Field)
			fv := fieldVar(fa)
			if fv == nil {
				return
			}
			if _, isM := isMutexType(fv.Type()); isM {
				return
			}
			if fv.Embedded() {
				return // selecting an embedded struct is not an access
			}
			ms := mutexFieldsOf(owner)
			mutex := ""
			if len(ms) == 1 {
				mutex = ms[0]
			} else if tbl, ok := multiMutexGuards[typeKey(owner)]; ok {
				m, listed := tbl[fname]
				if !listed {
					mutex = "?unlisted"
				} else {
					mutex = m
				}
			} else {
				mutex = "?ambiguous"
			}
			obj := objKeyOf(fa)
			for _, u := range referrersOf(fa) {
				acc := fieldAccess{fn: f, obj: obj, owner: owner, field: fname, mutex: mutex}
				switch x := u.(type) {
				case *ssa.Store:
					if x.Addr != ssa.Value(fa) {
						continue
					}
					acc.at, acc.write, acc.what = x, true, "store"
					g.accesses = append(g.accesses, acc)
				case *ssa.UnOp:
					if x.Op != token.MUL {
						continue
					}
					acc.at, acc.what = x, "load"
					g.accesses = append(g.accesses, acc)
					// content writes through the loaded map / slice
					for _, cw := range contentWrites(x) {
						w := acc
						w.at, w.write, w.what = cw.in, true, cw.what
						g.accesses = append(g.accesses, w)
					}
					// content reads through the loaded map / slice: the header was read under the lock, the
					// elements are read where the value is used
					for _, cr := range contentReads(x) {
						r := acc
						r.at, r.what = cr.in, cr.what
						g.accesses = append(g.accesses, r)
					}
				case ssa.CallInstruction:
					callee := calleeFunc(x)
					if callee != nil && callee.Pkg() != nil && callee.Pkg().Path() == "sync/atomic" {
						acc.at, acc.atomic, acc.what = x, true, "atomic"
						g.accesses = append(g.accesses, acc)
					} else {
						acc.at, acc.write, acc.what = x, true, "address passed to a call"
						g.accesses = append(g.accesses, acc)
					}
				case *ssa.FieldAddr, *ssa.DebugRef:
				default:
					// address used otherwise (e.g. IndexAddr on an array field): treat as write
					if ins, ok := u.(ssa.Instruction); ok {
						if _, isIA := u.(*ssa.IndexAddr); isIA {
							acc.at, acc.write, acc.what = ins, true, "element address"
							g.accesses = append(g.accesses, acc)
						}
					}
				}
			}
		})
	}
	// immutable-after-construction inference
	for _, acc := range g.accesses {
		k := typeKey(acc.owner) + "." + acc.field
		if acc.write || acc.atomic {
			writesAny[k] = true
			if !acc.obj.fresh {
				writesOnShared[k] = true
			}
		}
	}
	for k := range writesAny {
		if !writesOnShared[k] {
			g.immutable[k] = true
		}
	}
	for _, acc := range g.accesses {
		k := typeKey(acc.owner) + "." + acc.field
		if !writesAny[k] {
			g.immutable[k] = true // never written at all (e.g. set only by a composite literal)
		}
	}
	return g
}

type cwrite struct {
	in   ssa.Instruction
	what string
}

// contentWrites finds writes to the contents of a loaded map / slice value.
func contentWrites(v ssa.Value) []cwrite {
	var out []cwrite
	seen := map[ssa.Value]bool{}
	var walk func(v ssa.Value)
	walk = func(v ssa.Value) {
		if seen[v] {
			return
		}
		seen[v] = true
		for _, u := range referrersOf(v) {
			switch x := u.(type) {
			case *ssa.MapUpdate:
				if x.Map == v {
					out = append(out, cwrite{x, "map insert"})
				}
			case *ssa.Slice:
				walk(x)
			case *ssa.ChangeType:
				walk(x)
			case *ssa.IndexAddr:
				for _, s := range storesTo(x) {
					out = append(out, cwrite{s, "element store"})
				}
			case *ssa.Call:
				if b, ok := x.Call.Value.(*ssa.Builtin); ok {
					switch nm(b) {
					case "delete":
						if len(x.Call.Args) > 0 && x.Call.Args[0] == v {
							out = append(out, cwrite{x, "map delete"})
						}
					case "copy":
						if len(x.Call.Args) > 0 && x.Call.Args[0] == v {
							out = append(out, cwrite{x, "copy into"})
						}
					case "clear":
						out = append(out, cwrite{x, "clear"})
					}
				}
			}
		}
	}
	walk(v)
	return out
}

// contentReads finds reads of the contents of a loaded map / slice value (element reads, lookups, ranges, copies out).
func contentReads(v ssa.Value) []cwrite {
	var out []cwrite
	seen := map[ssa.Value]bool{}
	var walk func(v ssa.Value)
	walk = func(v ssa.Value) {
		if seen[v] {
			return
		}
		seen[v] = true
		for _, u := range referrersOf(v) {
			switch x := u.(type) {
			case *ssa.Lookup:
				if x.X == v {
					out = append(out, cwrite{x, "map lookup"})
				}
			case *ssa.Range:
				out = append(out, cwrite{x, "map range"})
			case *ssa.Slice:
				walk(x)
			case *ssa.ChangeType:
				walk(x)
			case *ssa.Convert:
				if b, ok := x.Type().Underlying().(*types.Basic); ok && b.Info()&types.IsString != 0 {
					out = append(out, cwrite{x, "conversion to string"})
				}
			case *ssa.IndexAddr:
				for _, r := range referrersOf(x) {
					if ld, ok := r.(*ssa.UnOp); ok && ld.Op == token.MUL {
						out = append(out, cwrite{ld, "element read"})
					}
				}
			case *ssa.Call:
				if b, ok := x.Call.Value.(*ssa.Builtin); ok {
					switch nm(b) {
					case "copy", "append":
						if len(x.Call.Args) > 1 && x.Call.Args[1] == v {
							out = append(out, cwrite{x, "copy out of"})
						}
					}
				}
			}
		}
	}
	walk(v)
	return out
}

// guardReq is an unmet requirement pushed to the callers of an internal helper.
type guardReq struct {
	sumLock
	origin string // "fileNode.nlink write in memfs.(*fileNode).delete"
	opos   token.Pos
	field  string // owner.field
	write  bool
}

type guardFinding struct {
	fn    *ssa.Function
	pos   token.Pos
	field string
	write bool
	why   string
	lock  string
	via   string
}

type guardOK struct {
	fn    *ssa.Function
	pos   token.Pos
	field string
	write bool
	how   string
}

// runGuard evaluates the guarded-by obligations for the given packages; returns findings and discharged obligations.
func runGuard(c *Config, pkgFilter map[string]bool) (bad []guardFinding, good []guardOK) {
	g := guardInfoFor(c)
	a := g.a
	reqs := map[*ssa.Function]map[string]guardReq{}
	addReq := func(f *ssa.Function, r guardReq) bool {
		if reqs[f] == nil {
			reqs[f] = map[string]guardReq{}
		}
		id := r.id() + "|" + r.field
		if _, ok := reqs[f][id]; ok {
			return false
		}
		reqs[f][id] = r
		return true
	}
	inPkg := func(f *ssa.Function) bool {
		pk := f.Pkg
		if pk == nil && f.Parent() != nil {
			pk = f.Parent().Pkg
		}
		return pk != nil && pkgFilter[pkgShort[pk.Pkg.Path()]]
	}
	// local accesses, per function and per case of the alias split
	byFn := map[*ssa.Function][]fieldAccess{}
	var fnOrder []*ssa.Function
	for _, acc := range g.accesses {
		if !inPkg(acc.fn) {
			continue
		}
		if _, ok := byFn[acc.fn]; !ok {
			fnOrder = append(fnOrder, acc.fn)
		}
		byFn[acc.fn] = append(byFn[acc.fn], acc)
	}
	for _, fn := range fnOrder {
		type verdict struct {
			bad  string
			good string
			req  *guardReq
		}
		res := make([]verdict, len(byFn[fn]))
		for _, vr := range a.variantsOf(fn) {
			a.selectVariant(fn, vr)
			for i, acc := range byFn[fn] {
				fk := typeKey(acc.owner) + "." + acc.field
				if res[i].bad != "" {
					continue
				}
				if acc.atomic {
					res[i].good = "accessed through sync/atomic"
					continue
				}
				if acc.obj.fresh {
					res[i].good = "the object was allocated by this call and is not yet shared"
					continue
				}
				if !acc.write && g.immutable[fk] {
					res[i].good = "immutable after construction (every store in the program is on a freshly allocated object)"
					continue
				}
				if acc.mutex == "" {
					res[i].bad = "the field is listed as written only by the constructor but is written on a shared object"
					continue
				}
				if strings.HasPrefix(acc.mutex, "?") {
					res[i].bad = "the struct has several mutexes and the guard table does not say which one guards this field"
					continue
				}
				need := modeR
				if acc.write {
					need = modeW
				}
				st := a.stateBefore(acc.at)
				if st == nil {
					continue // unreachable in this case
				}
				ok, how := a.guardHeld(fn, st, acc.obj, acc.mutex, need, 0)
				if ok {
					if res[i].good == "" {
						res[i].good = how
					}
					continue
				}
				if acc.obj.param >= 0 && !isEntryPoint(fn) && fn.Parent() == nil {
					res[i].req = &guardReq{sumLock: sumLock{param: acc.obj.param, chain: acc.obj.chain, field: acc.mutex, mode: need, fn: fn, site: acc.at},
						origin: fmt.Sprintf("%s of %s in %s", rw(acc.write), fk, funcName(fn)), opos: acc.at.Pos(), field: fk, write: acc.write}
					continue
				}
				res[i].bad = fmt.Sprintf("%s (%s) without holding %s.%s in mode %s%s%s", rw(acc.write), acc.what, prettyKey(acc.obj), acc.mutex, need, how, vr.String())
			}
		}
		for i, acc := range byFn[fn] {
			fk := typeKey(acc.owner) + "." + acc.field
			switch {
			case res[i].bad != "":
				bad = append(bad, guardFinding{fn: fn, pos: acc.at.Pos(), field: fk, write: acc.write, why: res[i].bad})
			case res[i].req != nil:
				addReq(fn, *res[i].req)
			case res[i].good != "":
				good = append(good, guardOK{fn, acc.at.Pos(), fk, acc.write, res[i].good})
			}
		}
	}
	// propagate requirements to callers
	for round := 0; round < 10; round++ {
		changed := false
		for _, f := range a.funcs {
			for _, vr := range a.variantsOf(f) {
				a.selectVariant(f, vr)
				a.visit(f, func(in ssa.Instruction, st *lstate) {
					c, ok := in.(ssa.CallInstruction)
					if !ok {
						return
					}
					if _, isGo := in.(*ssa.Go); isGo {
						return
					}
					args := c.Common().Args
					if c.Common().IsInvoke() {
						args = append([]ssa.Value{c.Common().Value}, args...)
					}
					for _, callee := range a.calleesOf(c) {
						for _, r := range reqs[callee] {
							if r.param >= len(args) {
								continue
							}
							k := objKeyOf(args[r.param])
							full := k
							full.s += r.chain
							full.chain += r.chain
							lk := lkey{a.canon(f, full.s), r.field2()}
							if ok, _ := a.guardHeld(f, st, full, r.field2(), r.mode, 0); ok {
								continue
							}
							if k.fresh {
								continue
							}
							if _, isDefer := in.(*ssa.Defer); isDefer {
								// deferred call: runs at exit; the lock must still be held then — approximated by the state here
							}
							if full.param >= 0 && !isEntryPoint(f) && f.Parent() == nil {
								nr := r
								nr.param, nr.chain = full.param, full.chain
								if addReq(f, nr) {
									changed = true
								}
								continue
							}
							if !inPkg(f) {
								continue
							}
							held := ""
							if h, ok := st.must[lk]; ok {
								held = " (held only in mode " + h.mode.String() + ")"
							}
							bad = append(bad, guardFinding{fn: f, pos: in.Pos(), field: r.field, write: r.write, via: funcName(callee),
								why:  fmt.Sprintf("calls %s, which performs a %s (%s), without holding %s.%s in mode %s%s", funcName(callee), r.origin, c2pos(a.c, r.opos), prettyKey(full), r.field2(), r.mode, held),
								lock: prettyKey(full) + "." + r.field2()})
						}
					}
				})
			}
		}
		if !changed {
			break
		}
		// findings are recomputed each round: reset and redo to avoid duplicates
		if round < 9 {
			var keep []guardFinding
			for _, b := range bad {
				if b.via == "" {
					keep = append(keep, b)
				}
			}
			bad = keep
		}
	}
	return
}

func (r guardReq) field2() string { return r.sumLock.field }

func rw(w bool) string {
	if w {
		return "write"
	}
	return "read"
}

func c2pos(c *Config, p token.Pos) string { return c.pos(p) }

func init() {
	register(&Rule{ID: "C08.guard", Floor: 150, Also: []string{"C06"},
		// C06: a walk or an operation that reads an entry map outside the directory's lock sees states no sequential order has
		AlsoOnly: map[string][]string{"C06": {".children", ".nodes", "memfs.baseNode.mode", "memfs.baseNode.uid", "memfs.baseNode.gid"}}, AlsoFloor: map[string]int{"C06": 20},
		Text: "guarded-by: in every struct of memfs/orefafs that carries an RWMutex, every field that is ever written on a shared (non-fresh) object is read only with that object's lock held (R or W) and written only with it held in W mode — in the accessing function, or, for unexported helpers, at every call site (requirement summaries propagated through the call graph); fields written only on freshly allocated objects are immutable; fields accessed through sync/atomic are exempt",
		Run:  func(rc *RuleCtx) { guardRule(rc, map[string]bool{"memfs": true, "orefafs": true}) }})
	register(&Rule{ID: "C15.guard", Floor: 12,
		Text: "guarded-by for MemIdm: the group maps and counter are accessed only under grpMu, the user maps and counter only under usrMu (6-line table), writes in W mode",
		Also: []string{"C08"},
		Run:  func(rc *RuleCtx) { guardRule(rc, map[string]bool{"memidm": true}) }})
}

func guardRule(rc *RuleCtx, pkgs map[string]bool) {
	bad, good := runGuard(rc.C, pkgs)
	type agg struct {
		pos  token.Pos
		hows map[string]bool
		n    int
	}
	goods := map[string]*agg{}
	bads := map[string]*agg{}
	owners := entryOwners(guardInfoFor(rc.C).a)
	for _, b := range bad {
		cons := fmt.Sprintf("%s %s", owners(b.fn), b.field)
		if bads[cons] == nil {
			bads[cons] = &agg{pos: b.pos, hows: map[string]bool{}}
		}
		bads[cons].hows[b.why] = true
		bads[cons].n++
	}
	for _, gk := range good {
		cons := fmt.Sprintf("%s %s", owners(gk.fn), gk.field)
		if goods[cons] == nil {
			goods[cons] = &agg{pos: gk.pos, hows: map[string]bool{}}
		}
		goods[cons].hows[gk.how] = true
		goods[cons].n++
	}
	for cons, ag := range bads {
		var hs []string
		for h := range ag.hows {
			hs = append(hs, h)
		}
		sort.Strings(hs)
		rc.bad(cons, ag.pos, strings.Join(hs, "; "))
	}
	for cons, ag := range goods {
		if _, isBad := bads[cons]; isBad {
			continue
		}
		var hs []string
		for h := range ag.hows {
			hs = append(hs, h)
		}
		sort.Strings(hs)
		rc.good(cons, ag.pos, fmt.Sprintf("%d access(es): %s", ag.n, strings.Join(hs, "; ")))
	}
}

// guardHeld: the lock `mutex` of object obj is certainly held in mode >= need in state st; an object reached through
// a phi is accepted when every incoming value is either locked or fresh.
func (a *lockAnalysis) guardHeld(fn *ssa.Function, st *lstate, obj okey, mutex string, need lockMode, depth int) (bool, string) {
	k := lkey{a.canon(fn, obj.s), mutex}
	if h, ok := st.must[k]; ok && h.mode >= need {
		return true, "lock " + prettyKey(obj) + "." + mutex + " held (" + h.mode.String() + ")"
	}
	if obj.fresh {
		return true, "fresh object"
	}
	if phi, ok := stripIface(obj.root).(*ssa.Phi); ok && depth < 3 && obj.param < 0 && strings.HasPrefix(obj.s, "phi:") {
		for _, e := range phi.Edges {
			if e == ssa.Value(phi) {
				continue
			}
			if ok, _ := a.guardHeld(fn, st, objKeyOf(e), mutex, need, depth+1); !ok {
				return false, ""
			}
		}
		return true, "every value reaching this point is either locked or was allocated by this call"
	}
	if h, ok := st.must[k]; ok {
		return false, " (held only in mode " + h.mode.String() + ")"
	}
	return false, ""
}

// entryOwners names a function by the exported entry points through which it runs: an entry point is named by
// itself, an unexported helper by the sorted set of entry points that reach it through unexported functions only.
// Findings keyed this way do not move when a block is extracted into, or inlined from, an unexported helper.
func entryOwners(a *lockAnalysis) func(f *ssa.Function) string {
	callers := map[*ssa.Function]map[*ssa.Function]bool{}
	for _, g := range a.funcs {
		for _, h := range withAnon(g) {
			eachCall(h, func(ci ssa.CallInstruction) {
				for _, callee := range a.calleesOf(ci) {
					if callers[callee] == nil {
						callers[callee] = map[*ssa.Function]bool{}
					}
					callers[callee][g] = true
				}
			})
		}
	}
	cache := map[*ssa.Function]string{}
	return func(f *ssa.Function) string {
		for f.Parent() != nil {
			f = f.Parent()
		}
		if s, ok := cache[f]; ok {
			return s
		}
		set := map[string]bool{}
		seen := map[*ssa.Function]bool{}
		var up func(g *ssa.Function)
		up = func(g *ssa.Function) {
			if seen[g] {
				return
			}
			seen[g] = true
			if isEntryPoint(g) {
				set[funcName(g)] = true
				return
			}
			for c := range callers[g] {
				up(c)
			}
		}
		up(f)
		var names []string
		for n := range set {
			names = append(names, n)
		}
		sort.Strings(names)
		s := funcName(f)
		if len(names) > 0 {
			s = strings.Join(names, "|")
		}
		cache[f] = s
		return s
	}
}
