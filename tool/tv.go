package main

import (
	"fmt"
	"go/ast"
	"go/parser"
	"go/token"
	"os"
	"path/filepath"
	"runtime"
	"sort"
	"strconv"
	"strings"

	"golang.org/x/tools/go/ast/astutil"
)

// Translation validation by normalised AST correspondence (DESIGN.md, C13/C14).
//
// avfs's generic path functions are adaptations of this toolchain's standard library with the OS test made dynamic.
// For a pair (avfs function, GOROOT function) and an OS, the avfs body is specialised to that OS (OSType()/PathSeparator()
// folded, dead branches pruned), both bodies are normalised by a closed list of semantics-preserving rewrites, and the
// canonical forms are compared. Equal forms => equal functions. A difference is reported with the first differing line.

type tvSide struct {
	file string // path relative to repo root (avfs) or GOROOT/src (ref)
	fn   string // function name, or "recv.method"
}

type tvPair struct {
	name  string
	avfs  tvSide
	ref   map[string]tvSide // per OS: "linux", "windows"
	note  string
	props []string // properties served (C13, C14)
}

func refSide(file, fn string) tvSide { return tvSide{file, fn} }

var tvPairs = []tvPair{
	{name: "Base", avfs: tvSide{"vfs_ostype_on.go", "Base"}, ref: both("internal/filepathlite/path.go", "Base")},
	{name: "Clean", avfs: tvSide{"vfs_ostype_on.go", "Clean"}, ref: both("internal/filepathlite/path.go", "Clean")},
	{name: "postClean", avfs: tvSide{"vfs_ostype_on.go", "postClean"}, ref: map[string]tvSide{"windows": {"internal/filepathlite/path_windows.go", "postClean"}},
		note: "only called under the Windows test (the non-Windows reference is empty and its call is dropped from Clean)"},
	{name: "isSlash", avfs: tvSide{"vfs_ostype_on.go", "isSlash"}, ref: map[string]tvSide{"windows": {"internal/filepathlite/path_windows.go", "IsPathSeparator"}},
		note: "justifies the rewrite isSlash(c) = IsPathSeparator(c) in Windows-only code"},
	{name: "Dir", avfs: tvSide{"vfs_ostype_on.go", "Dir"}, ref: both("internal/filepathlite/path.go", "Dir")},
	{name: "FromSlash", avfs: tvSide{"vfs_ostype_on.go", "FromSlash"}, ref: both("internal/filepathlite/path.go", "FromSlash")},
	{name: "ToSlash", avfs: tvSide{"vfs_ostype_on.go", "ToSlash"}, ref: both("internal/filepathlite/path.go", "ToSlash")},
	{name: "Split", avfs: tvSide{"vfs_ostype_on.go", "Split"}, ref: both("internal/filepathlite/path.go", "Split")},
	{name: "IsAbs", avfs: tvSide{"vfs_ostype_on.go", "IsAbs"}, ref: perOS("internal/filepathlite/path_unix.go", "internal/filepathlite/path_windows.go", "IsAbs")},
	{name: "IsPathSeparator", avfs: tvSide{"vfs_ostype_on.go", "IsPathSeparator"}, ref: perOS("internal/filepathlite/path_unix.go", "internal/filepathlite/path_windows.go", "IsPathSeparator")},
	{name: "VolumeNameLen", avfs: tvSide{"vfs_ostype_on.go", "VolumeNameLen"}, ref: perOS("internal/filepathlite/path_unix.go", "internal/filepathlite/path_windows.go", "volumeNameLen")},
	{name: "uncLen", avfs: tvSide{"vfs_ostype_on.go", "uncLen"}, ref: map[string]tvSide{"windows": {"internal/filepathlite/path_windows.go", "uncLen"}}},
	{name: "cutPath", avfs: tvSide{"vfs_ostype_on.go", "cutPath"}, ref: map[string]tvSide{"windows": {"internal/filepathlite/path_windows.go", "cutPath"}}},
	{name: "Join", avfs: tvSide{"vfs_ostype_on.go", "Join"}, ref: map[string]tvSide{"linux": {"path/filepath/path_unix.go", "join"}, "darwin": {"path/filepath/path_unix.go", "join"}, "windows": {"path/filepath/path.go", "Join"}},
		note: "on Windows avfs.Join delegates to joinWindows as filepath.Join delegates to the Windows join"},
	{name: "VolumeName", avfs: tvSide{"vfs.go", "VolumeName"}, ref: both("internal/filepathlite/path.go", "VolumeName")},
	{name: "joinWindows", avfs: tvSide{"vfs_ostype_on.go", "joinWindows"}, ref: map[string]tvSide{"windows": {"path/filepath/path_windows.go", "join"}}},
	{name: "pathHasPrefixFold", avfs: tvSide{"vfs_ostype_on.go", "pathHasPrefixFold"}, ref: map[string]tvSide{"windows": {"internal/filepathlite/path_windows.go", "pathHasPrefixFold"}}},
	{name: "toUpper", avfs: tvSide{"vfs_ostype_on.go", "toUpper"}, ref: map[string]tvSide{"windows": {"internal/filepathlite/path_windows.go", "toUpper"}}},
	{name: "Rel", avfs: tvSide{"vfs_ostype_on.go", "Rel"}, ref: both("path/filepath/path.go", "Rel")},
	{name: "sameWord", avfs: tvSide{"vfs_ostype_on.go", "sameWord"}, ref: perOS("path/filepath/path_unix.go", "path/filepath/path_windows.go", "sameWord")},
	{name: "Match", avfs: tvSide{"vfs_ostype_on.go", "Match"}, ref: both("path/filepath/match.go", "Match"), props: []string{"C13", "C14"}},
	{name: "matchChunk", avfs: tvSide{"vfs_ostype_on.go", "matchChunk"}, ref: both("path/filepath/match.go", "matchChunk"), props: []string{"C13", "C14"}},
	{name: "scanChunk", avfs: tvSide{"vfs_ostype_on.go", "scanChunk"}, ref: both("path/filepath/match.go", "scanChunk"), props: []string{"C13", "C14"}},
	{name: "getEsc", avfs: tvSide{"vfs_ostype_on.go", "getEsc"}, ref: both("path/filepath/match.go", "getEsc"), props: []string{"C13", "C14"}},
	{name: "lazybuf.index", avfs: tvSide{"vfs_ostype_on.go", "lazybuf.index"}, ref: both("internal/filepathlite/path.go", "lazybuf.index")},
	{name: "lazybuf.append", avfs: tvSide{"vfs_ostype_on.go", "lazybuf.append"}, ref: both("internal/filepathlite/path.go", "lazybuf.append")},
	{name: "lazybuf.prepend", avfs: tvSide{"vfs_ostype_on.go", "lazybuf.prepend"}, ref: both("internal/filepathlite/path.go", "lazybuf.prepend")},
	{name: "lazybuf.string", avfs: tvSide{"vfs_ostype_on.go", "lazybuf.string"}, ref: both("internal/filepathlite/path.go", "lazybuf.string")},
	// enumeration (C14)
	{name: "Glob", avfs: tvSide{"vfs.go", "Glob"}, ref: both("path/filepath/match.go", "Glob"), props: []string{"C14"}},
	{name: "globWithLimit", avfs: tvSide{"vfs.go", "globWithLimit"}, ref: both("path/filepath/match.go", "globWithLimit"), props: []string{"C14"}},
	{name: "glob", avfs: tvSide{"vfs.go", "glob"}, ref: both("path/filepath/match.go", "glob"), props: []string{"C14"}},
	{name: "hasMeta", avfs: tvSide{"vfs.go", "hasMeta"}, ref: both("path/filepath/match.go", "hasMeta"), props: []string{"C14"}},
	{name: "cleanGlobPath", avfs: tvSide{"vfs.go", "cleanGlobPath"}, ref: both("path/filepath/match.go", "cleanGlobPath"), props: []string{"C14"}},
	{name: "cleanGlobPathWindows", avfs: tvSide{"vfs.go", "cleanGlobPathWindows"}, ref: map[string]tvSide{"windows": {"path/filepath/match.go", "cleanGlobPathWindows"}}, props: []string{"C14"}},
	{name: "WalkDir", avfs: tvSide{"vfs.go", "WalkDir"}, ref: both("path/filepath/path.go", "WalkDir"), props: []string{"C14"}},
	{name: "walkDir", avfs: tvSide{"vfs.go", "walkDir"}, ref: both("path/filepath/path.go", "walkDir"), props: []string{"C14"}},
	{name: "ReadDir", avfs: tvSide{"vfs.go", "ReadDir"}, ref: both("os/dir.go", "ReadDir"), props: []string{"C14"}},
	// composites the wrappers are built on (C12: they fail when a primitive they are built on fails)
	{name: "WriteFile", avfs: tvSide{"vfs.go", "WriteFile"}, ref: map[string]tvSide{"linux": {"os/file.go", "WriteFile"}}, props: []string{"C12"},
		note: "os.WriteFile reports the error of Close when the write succeeded; the generic WriteFile is the same program over the file system's OpenFile"},
}

// The emulated OS types are Linux, Darwin (both use the reference's unix files) and Windows.
func both(file, fn string) map[string]tvSide {
	return map[string]tvSide{"linux": {file, fn}, "darwin": {file, fn}, "windows": {file, fn}}
}
func perOS(unix, win, fn string) map[string]tvSide {
	return map[string]tvSide{"linux": {unix, fn}, "darwin": {unix, fn}, "windows": {win, fn}}
}

func goroot() string {
	if g := os.Getenv("GOROOT"); g != "" {
		return g
	}
	return runtime.GOROOT()
}

func findFunc(file *ast.File, name string) *ast.FuncDecl {
	recv, meth := "", name
	if i := strings.Index(name, "."); i >= 0 {
		recv, meth = name[:i], name[i+1:]
	}
	for _, d := range file.Decls {
		fd, ok := d.(*ast.FuncDecl)
		if !ok || fd.Name.Name != meth {
			continue
		}
		if recv == "" && fd.Recv == nil {
			return fd
		}
		if recv != "" && fd.Recv != nil && len(fd.Recv.List) == 1 {
			t := fd.Recv.List[0].Type
			if s, ok := t.(*ast.StarExpr); ok {
				t = s.X
			}
			if id, ok := t.(*ast.Ident); ok && id.Name == recv {
				return fd
			}
		}
	}
	return nil
}

// ---- specialisation & normalisation ----

type tvCtx struct {
	os       string // linux | windows
	side     string // avfs | ref
	rewrites map[string]int
}

func (c *tvCtx) used(r string) { c.rewrites[r]++ }

func (c *tvCtx) sepChar() *ast.BasicLit {
	if c.os == "windows" {
		return &ast.BasicLit{Kind: token.CHAR, Value: `'\\'`}
	}
	return &ast.BasicLit{Kind: token.CHAR, Value: `'/'`}
}
func (c *tvCtx) sepString() *ast.BasicLit {
	if c.os == "windows" {
		return &ast.BasicLit{Kind: token.STRING, Value: `"\\"`}
	}
	return &ast.BasicLit{Kind: token.STRING, Value: `"/"`}
}

func boolIdent(b bool) *ast.Ident {
	if b {
		return ast.NewIdent("true")
	}
	return ast.NewIdent("false")
}

func isIdent(e ast.Expr, name string) bool {
	id, ok := e.(*ast.Ident)
	return ok && id.Name == name
}

func isSel(e ast.Expr, x, sel string) bool {
	s, ok := e.(*ast.SelectorExpr)
	return ok && isIdent(s.X, x) && s.Sel.Name == sel
}

func isCallOf(e ast.Expr, x, sel string) bool {
	c, ok := e.(*ast.CallExpr)
	return ok && len(c.Args) == 0 && isSel(c.Fun, x, sel)
}

// avfs package-level helpers that take the file system as first argument.
var avfsHelpers = map[string]bool{"Base": true, "Clean": true, "postClean": true, "Dir": true, "FromSlash": true, "getEsc": true, "IsAbs": true,
	"IsPathSeparator": true, "Join": true, "joinWindows": true, "Match": true, "matchChunk": true, "Rel": true, "sameWord": true, "scanChunk": true,
	"Split": true, "ToSlash": true, "VolumeNameLen": true, "VolumeName": true, "glob": true, "hasMeta": true, "cleanGlobPath": true,
	"cleanGlobPathWindows": true, "walkDir": true, "ReadDir": true, "Glob": true, "globWithLimit": true, "WriteFile": true}

// callee name equivalences (both sides are mapped to the canonical name on the right)
var tvCalleeMap = map[string]string{
	"filepathlite.Clean": "Clean", "filepathlite.Base": "Base", "filepathlite.Dir": "Dir", "filepathlite.Split": "Split",
	"filepathlite.IsAbs": "IsAbs", "filepathlite.VolumeName": "VolumeName", "filepathlite.VolumeNameLen": "VolumeNameLen",
	"filepathlite.IsPathSeparator": "IsPathSeparator", "os.IsPathSeparator": "IsPathSeparator",
	"filepathlite.FromSlash": "FromSlash", "filepathlite.ToSlash": "ToSlash",
	"stringslite.HasPrefix": "strings.HasPrefix", "stringslite.HasSuffix": "strings.HasSuffix", "stringslite.IndexByte": "strings.IndexByte",
	"volumeNameLen": "VolumeNameLen", "join": "Join", "joinWindows": "Join",
	"sort.Strings": "sortStrings", "slices.Sort": "sortStrings",
	"filepath.ErrBadPattern": "ErrBadPattern", "filepath.SkipDir": "SkipDir", "filepath.SkipAll": "SkipAll",
}

func (c *tvCtx) rewriteExpr(cur *astutil.Cursor) bool {
	switch n := cur.Node().(type) {
	case *ast.ParenExpr:
		cur.Replace(n.X)
		c.used("parentheses dropped (the canonical printer parenthesises fully)")
	case *ast.CallExpr:
		// vfs.OSType(), vfs.PathSeparator()
		if c.side == "avfs" {
			if isCallOf(n, "vfs", "PathSeparator") {
				cur.Replace(c.sepChar())
				c.used("vfs.PathSeparator() folded to the separator of the OS")
				return true
			}
			if isCallOf(n, "vfs", "OSType") {
				cur.Replace(ast.NewIdent("$OS"))
				return true
			}
			// F(vfs, args...) -> F(args...)
			if id, ok := n.Fun.(*ast.Ident); ok && avfsHelpers[id.Name] && len(n.Args) > 0 && isIdent(n.Args[0], "vfs") {
				n.Args = n.Args[1:]
				c.used("file-system argument of avfs helpers dropped")
				if id.Name == "ReadDir" {
					n.Fun = ast.NewIdent("FS.ReadDir")
					c.used("avfs.ReadDir(vfs, name) is the library's os.ReadDir (pair ReadDir)")
				}
			}
			// generic instantiation F[T](vfs, ...)
			if ix, ok := n.Fun.(*ast.IndexExpr); ok {
				if id, ok := ix.X.(*ast.Ident); ok && avfsHelpers[id.Name] {
					n.Fun = id
					if len(n.Args) > 0 && isIdent(n.Args[0], "vfs") {
						n.Args = n.Args[1:]
					}
				}
			}
		}
		// replaceStringByte(s, a, b) = strings.ReplaceAll(s, string(a), string(b))   (lemma: byte-for-byte replacement)
		if isIdent(n.Fun, "replaceStringByte") && len(n.Args) == 3 {
			n.Fun = &ast.SelectorExpr{X: ast.NewIdent("strings"), Sel: ast.NewIdent("ReplaceAll")}
			n.Args[1] = foldStringOf(n.Args[1])
			n.Args[2] = foldStringOf(n.Args[2])
			c.used("replaceStringByte(s, a, b) = strings.ReplaceAll(s, string(a), string(b))")
		}
		// lemma: for a literal L without letters or separators, pathHasPrefixFold(x, L) =
		// strings.HasPrefix(x, L) && (len(x) == len(L) || IsPathSeparator(x[len(L)]))   (definition of pathHasPrefixFold, pair checked)
		if isIdent(n.Fun, "pathHasPrefixFold") && len(n.Args) == 2 {
			if bl, ok := n.Args[1].(*ast.BasicLit); ok && bl.Kind == token.STRING {
				lit, _ := strconv.Unquote(bl.Value)
				plain := lit != ""
				for _, r := range lit {
					if r == '/' || r == '\\' || (r >= 'a' && r <= 'z') || (r >= 'A' && r <= 'Z') || r > 127 {
						plain = false
					}
				}
				if plain {
					x := n.Args[0]
					hp := &ast.CallExpr{Fun: &ast.SelectorExpr{X: ast.NewIdent("strings"), Sel: ast.NewIdent("HasPrefix")}, Args: []ast.Expr{x, bl}}
					lenEq := &ast.BinaryExpr{X: &ast.CallExpr{Fun: ast.NewIdent("len"), Args: []ast.Expr{x}}, Op: token.EQL,
						Y: &ast.CallExpr{Fun: ast.NewIdent("len"), Args: []ast.Expr{bl}}}
					sep := &ast.CallExpr{Fun: ast.NewIdent("IsPathSeparator"), Args: []ast.Expr{&ast.IndexExpr{X: x, Index: &ast.BasicLit{Kind: token.INT, Value: strconv.Itoa(len(lit))}}}}
					cur.Replace(&ast.BinaryExpr{X: hp, Op: token.LAND, Y: &ast.BinaryExpr{X: lenEq, Op: token.LOR, Y: sep}})
					c.used("pathHasPrefixFold(x, literal without letters/separators) expanded by its definition")
					return true
				}
			}
		}
		// isSlash(c) = IsPathSeparator(c) on Windows (pair isSlash)
		if isIdent(n.Fun, "isSlash") && c.os == "windows" {
			n.Fun = ast.NewIdent("IsPathSeparator")
			c.used("isSlash(c) = IsPathSeparator(c) in Windows code")
		}
		// postClean is empty outside Windows: its call is a no-op
		if isIdent(n.Fun, "postClean") && c.os != "windows" {
			cur.Replace(ast.NewIdent("$noop"))
			c.used("call of postClean dropped outside Windows (empty in the reference)")
			return true
		}
		// FS.OpenFile(x, os.O_RDONLY, 0) = FS.Open(x); openDir(x) = FS.Open(x)
		if isIdent(n.Fun, "openDir") && len(n.Args) == 1 {
			n.Fun = ast.NewIdent("FS.Open")
			c.used("os.openDir(name) corresponds to opening the directory read-only")
		}
		// &statDirEntry{info} = fs.FileInfoToDirEntry(info)
		if isSel(n.Fun, "fs", "FileInfoToDirEntry") && len(n.Args) == 1 {
			cur.Replace(&ast.CallExpr{Fun: ast.NewIdent("dirEntryOf"), Args: n.Args})
			c.used("fs.FileInfoToDirEntry(info) corresponds to &statDirEntry{info}")
			return true
		}
		// sort by name: both idioms
		if (isSel(n.Fun, "sort", "Slice") || isSel(n.Fun, "slices", "SortFunc")) && len(n.Args) == 2 {
			if fl, ok := n.Args[1].(*ast.FuncLit); ok && sortsByName(fl) {
				cur.Replace(&ast.CallExpr{Fun: ast.NewIdent("sortByName"), Args: n.Args[:1]})
				c.used("sort.Slice(x, less by Name) = slices.SortFunc(x, compare by Name)")
				return true
			}
		}
		// string(sep)
		if id, ok := n.Fun.(*ast.Ident); ok && id.Name == "string" && len(n.Args) == 1 {
			if bl, ok := n.Args[0].(*ast.BasicLit); ok && bl.Kind == token.CHAR {
				s, err := strconv.Unquote(bl.Value)
				if err == nil {
					cur.Replace(&ast.BasicLit{Kind: token.STRING, Value: strconv.Quote(s)})
					c.used("string(char constant) folded")
					return true
				}
			}
		}
		// bytealg.CountString(s, c) <=> strings.Count(s, string(c))
		if isSel(n.Fun, "bytealg", "CountString") && len(n.Args) == 2 {
			n.Fun = &ast.SelectorExpr{X: ast.NewIdent("strings"), Sel: ast.NewIdent("Count")}
			n.Args[1] = foldStringOf(n.Args[1])
			c.used("bytealg.CountString(s, c) = strings.Count(s, string(c))")
		}
		if isSel(n.Fun, "bytealg", "IndexByteString") {
			n.Fun = &ast.SelectorExpr{X: ast.NewIdent("strings"), Sel: ast.NewIdent("IndexByte")}
			c.used("bytealg.IndexByteString = strings.IndexByte")
		}
		if isSel(n.Fun, "stringslite", "IndexByte") {
			n.Fun = &ast.SelectorExpr{X: ast.NewIdent("strings"), Sel: ast.NewIdent("IndexByte")}
			c.used("stringslite.IndexByte = strings.IndexByte")
		}
		// inside package os the reference calls its own functions unqualified
		if id, ok := n.Fun.(*ast.Ident); ok && c.side == "ref" {
			switch id.Name {
			case "OpenFile", "Open", "Stat", "Lstat":
				n.Fun = &ast.SelectorExpr{X: ast.NewIdent("os"), Sel: ast.NewIdent(id.Name)}
			}
		}
		// os.X(a...) <=> vfs.X(a...)   (C14 call equivalence)
		if s, ok := n.Fun.(*ast.SelectorExpr); ok && (isIdent(s.X, "os") || isIdent(s.X, "vfs")) {
			switch s.Sel.Name {
			case "Lstat", "Stat", "ReadDir", "Open", "OpenFile":
				n.Fun = ast.NewIdent("FS." + s.Sel.Name)
				c.used("os.X(args) corresponds to vfs.X(args)")
				if s.Sel.Name == "OpenFile" && len(n.Args) == 3 && isSel(n.Args[1], "os", "O_RDONLY") {
					if bl, ok := n.Args[2].(*ast.BasicLit); ok && bl.Value == "0" {
						n.Fun = ast.NewIdent("FS.Open")
						n.Args = n.Args[:1]
						c.used("OpenFile(name, O_RDONLY, 0) = Open(name)")
					}
				}
			}
		}
	case *ast.UnaryExpr:
		if cl, ok := n.X.(*ast.CompositeLit); ok && n.Op == token.AND && isIdent(cl.Type, "statDirEntry") && len(cl.Elts) == 1 {
			cur.Replace(&ast.CallExpr{Fun: ast.NewIdent("dirEntryOf"), Args: cl.Elts})
			c.used("fs.FileInfoToDirEntry(info) corresponds to &statDirEntry{info}")
			return true
		}
	case *ast.SelectorExpr:
		key := ""
		if id, ok := n.X.(*ast.Ident); ok {
			key = id.Name + "." + n.Sel.Name
		}
		if c.side == "ref" {
			switch key {
			case "filepathlite.Separator", "os.PathSeparator":
				cur.Replace(c.sepChar())
				c.used("Separator constant folded")
				return true
			case "runtime.GOOS":
				cur.Replace(&ast.BasicLit{Kind: token.STRING, Value: strconv.Quote(c.os)})
				c.used("runtime.GOOS folded")
				return true
			}
		}
		if m, ok := tvCalleeMap[key]; ok {
			cur.Replace(ast.NewIdent(m))
			c.used("qualified name mapped to its avfs counterpart")
		}
	case *ast.Ident:
		// the open flags, unqualified inside package os
		if c.side == "ref" {
			switch n.Name {
			case "O_RDONLY", "O_WRONLY", "O_RDWR", "O_APPEND", "O_CREATE", "O_EXCL", "O_SYNC", "O_TRUNC":
				if _, isSel := cur.Parent().(*ast.SelectorExpr); !isSel {
					cur.Replace(&ast.SelectorExpr{X: ast.NewIdent("os"), Sel: ast.NewIdent(n.Name)})
					return true
				}
			}
		}
		if c.side == "ref" && n.Name == "Separator" {
			cur.Replace(c.sepChar())
			c.used("Separator constant folded")
			return true
		}
		if c.side == "avfs" && n.Name == "pathSeparator" {
			cur.Replace(c.sepChar())
			c.used("local pathSeparator (= vfs.PathSeparator()) folded")
			return true
		}
		if m, ok := tvCalleeMap[n.Name]; ok {
			n.Name = m
		}
	}
	return true
}

// foldExpr folds boolean constants, $OS comparisons and string-emptiness tests bottom-up.
func (c *tvCtx) foldExpr(cur *astutil.Cursor) bool {
	switch n := cur.Node().(type) {
	case *ast.BinaryExpr:
		// $OS ==/!= OsWindows
		if isIdent(n.X, "$OS") {
			name := ""
			if id, ok := n.Y.(*ast.Ident); ok {
				name = id.Name
			}
			if osOf, known := map[string]string{"OsWindows": "windows", "OsLinux": "linux", "OsDarwin": "darwin"}[name]; known && (n.Op == token.EQL || n.Op == token.NEQ) {
				v := c.os == osOf
				if n.Op == token.NEQ {
					v = !v
				}
				cur.Replace(boolIdent(v))
				c.used("vfs.OSType() compared with an OS constant folded")
				return true
			}
		}
		// "linux" == "windows"
		if bx, ok := n.X.(*ast.BasicLit); ok && bx.Kind == token.STRING {
			if by, ok := n.Y.(*ast.BasicLit); ok && by.Kind == token.STRING && (n.Op == token.EQL || n.Op == token.NEQ) {
				v := bx.Value == by.Value
				if n.Op == token.NEQ {
					v = !v
				}
				cur.Replace(boolIdent(v))
				return true
			}
		}
		// constant char comparison
		if bx, ok := n.X.(*ast.BasicLit); ok && bx.Kind == token.CHAR {
			if by, ok := n.Y.(*ast.BasicLit); ok && by.Kind == token.CHAR && (n.Op == token.EQL || n.Op == token.NEQ) {
				v := bx.Value == by.Value
				if n.Op == token.NEQ {
					v = !v
				}
				cur.Replace(boolIdent(v))
				c.used("comparison of two character constants folded")
				return true
			}
		}
		// == and != are commutative: constant operand on the right
		if n.Op == token.EQL || n.Op == token.NEQ {
			if _, isLit := n.X.(*ast.BasicLit); isLit {
				if _, yLit := n.Y.(*ast.BasicLit); !yLit {
					n.X, n.Y = n.Y, n.X
					c.used("operands of == / != ordered (constant on the right)")
				}
			}
		}
		// x == "" -> len(x) == 0 ; x != "" -> len(x) != 0 ; len(x) > 0 -> len(x) != 0
		if by, ok := n.Y.(*ast.BasicLit); ok && by.Kind == token.STRING && by.Value == `""` && (n.Op == token.EQL || n.Op == token.NEQ) {
			n.X = &ast.CallExpr{Fun: ast.NewIdent("len"), Args: []ast.Expr{n.X}}
			n.Y = &ast.BasicLit{Kind: token.INT, Value: "0"}
			c.used(`s == "" rewritten to len(s) == 0`)
		}
		if call, ok := n.X.(*ast.CallExpr); ok && isIdent(call.Fun, "len") && n.Op == token.GTR {
			if by, ok := n.Y.(*ast.BasicLit); ok && by.Value == "0" {
				n.Op = token.NEQ
				c.used("len(s) > 0 rewritten to len(s) != 0")
			}
		}
		xl, xb := boolLit(n.X)
		yl, yb := boolLit(n.Y)
		switch n.Op {
		case token.LAND:
			switch {
			case xb && !xl, yb && !yl && xb:
				cur.Replace(boolIdent(false))
			case xb && xl:
				cur.Replace(n.Y)
			case yb && yl:
				cur.Replace(n.X)
			case xb && !xl:
				cur.Replace(boolIdent(false))
			}
		case token.LOR:
			switch {
			case xb && xl:
				cur.Replace(boolIdent(true))
			case xb && !xl:
				cur.Replace(n.Y)
			case yb && !yl:
				cur.Replace(n.X)
			}
		}
	case *ast.UnaryExpr:
		if n.Op == token.NOT {
			if v, ok := boolLit(n.X); ok {
				cur.Replace(boolIdent(!v))
			} else if r, changed := negateExpr(n.X); changed {
				c.used("negation pushed inward (De Morgan, flipped comparison)")
				cur.Replace(r)
			}
		}
	}
	return true
}

// negateExpr returns the negation of e with the negation pushed to the leaves: De Morgan on && / ||, comparison operators
// flipped (operands are integers, bytes and strings in this code: no NaN), double negation removed. changed is false when
// the result is just !e.
func negateExpr(e ast.Expr) (ast.Expr, bool) {
	for {
		pe, ok := e.(*ast.ParenExpr)
		if !ok {
			break
		}
		e = pe.X
	}
	switch n := e.(type) {
	case *ast.UnaryExpr:
		if n.Op == token.NOT {
			return n.X, true
		}
	case *ast.BinaryExpr:
		flip := map[token.Token]token.Token{token.EQL: token.NEQ, token.NEQ: token.EQL, token.LSS: token.GEQ, token.GEQ: token.LSS, token.GTR: token.LEQ, token.LEQ: token.GTR}
		if op, ok := flip[n.Op]; ok {
			return &ast.BinaryExpr{X: n.X, Op: op, Y: n.Y}, true
		}
		if n.Op == token.LAND || n.Op == token.LOR {
			op := token.LOR
			if n.Op == token.LOR {
				op = token.LAND
			}
			x, _ := negateExpr(n.X)
			y, _ := negateExpr(n.Y)
			return &ast.BinaryExpr{X: x, Op: op, Y: y}, true
		}
	}
	return &ast.UnaryExpr{Op: token.NOT, X: e}, false
}

func boolLit(e ast.Expr) (val bool, ok bool) {
	if id, isId := e.(*ast.Ident); isId {
		switch id.Name {
		case "true":
			return true, true
		case "false":
			return false, true
		}
	}
	return false, false
}

// foldStmts prunes if/switch statements with constant conditions and drops statements after a terminating one.
func (c *tvCtx) foldStmts(list []ast.Stmt) []ast.Stmt {
	var out []ast.Stmt
	for _, s := range list {
		switch n := s.(type) {
		case *ast.IfStmt:
			n.Body.List = c.foldStmts(n.Body.List)
			if n.Else != nil {
				switch e := n.Else.(type) {
				case *ast.BlockStmt:
					e.List = c.foldStmts(e.List)
				case *ast.IfStmt:
					r := c.foldStmts([]ast.Stmt{e})
					if len(r) == 1 {
						n.Else = r[0]
						if _, isIf := r[0].(*ast.IfStmt); !isIf {
							n.Else = &ast.BlockStmt{List: r}
						}
					} else if len(r) == 0 {
						n.Else = nil
					} else {
						n.Else = &ast.BlockStmt{List: r}
					}
				}
			}
			if v, ok := boolLit(n.Cond); ok && n.Init == nil {
				c.used("branch with a constant condition pruned")
				if v {
					out = append(out, n.Body.List...)
				} else if n.Else != nil {
					if b, ok := n.Else.(*ast.BlockStmt); ok {
						out = append(out, b.List...)
					} else {
						out = append(out, n.Else)
					}
				}
			} else {
				// empty then-branch with no else: statement without effect
				if len(n.Body.List) == 0 && n.Else == nil && n.Init == nil {
					c.used("if statement with an empty body dropped")
					continue
				}
				out = append(out, n)
			}
		case *ast.BlockStmt:
			n.List = c.foldStmts(n.List)
			out = append(out, n)
		case *ast.ForStmt:
			n.Body.List = c.guardedTail(c.foldStmts(n.Body.List))
			if r := c.countedLoop(n); r != nil {
				out = append(out, r)
			} else {
				out = append(out, c.breakLoop(n))
			}
		case *ast.RangeStmt:
			n.Body.List = c.guardedTail(c.foldStmts(n.Body.List))
			out = append(out, n)
		case *ast.SwitchStmt:
			for _, cc := range n.Body.List {
				cl := cc.(*ast.CaseClause)
				cl.Body = c.foldStmts(cl.Body)
			}
			if chain := c.switchToIfChain(n); chain != nil {
				out = append(out, chain)
			} else {
				out = append(out, n)
			}
		case *ast.LabeledStmt:
			r := c.foldStmts([]ast.Stmt{n.Stmt})
			if len(r) == 1 {
				n.Stmt = r[0]
			}
			out = append(out, n)
		case *ast.ExprStmt:
			if isIdent(n.X, "$noop") {
				continue
			}
			out = append(out, n)
		case *ast.AssignStmt:
			// `pathSeparator := <sep>` after folding: drop
			if c.side == "avfs" && len(n.Lhs) == 1 && len(n.Rhs) == 1 {
				if bl, ok := n.Lhs[0].(*ast.BasicLit); ok && bl.Kind == token.CHAR {
					c.used("local pathSeparator declaration dropped")
					continue
				}
			}
			out = append(out, n)
		default:
			out = append(out, s)
		}
		// drop dead code after a terminating statement
		if len(out) > 0 {
			if _, isRet := out[len(out)-1].(*ast.ReturnStmt); isRet {
				break
			}
		}
	}
	// cut after first return at this level
	for i, s := range out {
		if _, isRet := s.(*ast.ReturnStmt); isRet {
			return out[:i+1]
		}
	}
	return out
}

// assignsTo reports whether some statement of the list assigns to, increments, or takes the address of identifier name
// (a conservative syntactic test; shadowing declarations count as assignments, which only loses a normalisation).
func assignsTo(list []ast.Stmt, name string) bool {
	found := false
	for _, s := range list {
		ast.Inspect(s, func(n ast.Node) bool {
			switch x := n.(type) {
			case *ast.AssignStmt:
				for _, l := range x.Lhs {
					if isIdent(l, name) {
						found = true
					}
				}
			case *ast.IncDecStmt:
				if isIdent(x.X, name) {
					found = true
				}
			case *ast.UnaryExpr:
				if x.Op == token.AND && isIdent(x.X, name) {
					found = true
				}
			case *ast.RangeStmt:
				if isIdent(x.Key, name) || isIdent(x.Value, name) {
					found = true
				}
			}
			return !found
		})
	}
	return found
}

// countedLoop rewrites `for i := 0; i < len(S); i++ { B }` - S an identifier, neither i nor S assigned in B - to the range
// form it abbreviates: `for _, v := range S` when i occurs in B only as the index of S (v is the variable B itself
// defines first as `v := S[i]`, or a fresh one), otherwise `for i := range len(S)`. `for i := 0; i < n; i++` with an
// identifier or literal bound that B does not assign becomes `for i := range n`.
func (c *tvCtx) countedLoop(n *ast.ForStmt) ast.Stmt {
	init, ok := n.Init.(*ast.AssignStmt)
	if !ok || init.Tok != token.DEFINE || len(init.Lhs) != 1 || len(init.Rhs) != 1 {
		return nil
	}
	iv, ok := init.Lhs[0].(*ast.Ident)
	if !ok {
		return nil
	}
	if z, ok := init.Rhs[0].(*ast.BasicLit); !ok || z.Value != "0" {
		return nil
	}
	cond, ok := n.Cond.(*ast.BinaryExpr)
	if !ok || cond.Op != token.LSS || !isIdent(cond.X, iv.Name) {
		return nil
	}
	post, ok := n.Post.(*ast.IncDecStmt)
	if !ok || post.Tok != token.INC || !isIdent(post.X, iv.Name) {
		return nil
	}
	if assignsTo(n.Body.List, iv.Name) {
		return nil
	}
	var sName string
	switch b := cond.Y.(type) {
	case *ast.CallExpr:
		if !isIdent(b.Fun, "len") || len(b.Args) != 1 {
			return nil
		}
		id, ok := b.Args[0].(*ast.Ident)
		if !ok || assignsTo(n.Body.List, id.Name) {
			return nil
		}
		sName = id.Name
	case *ast.Ident:
		if assignsTo(n.Body.List, b.Name) {
			return nil
		}
	case *ast.BasicLit:
	default:
		return nil
	}
	if sName != "" {
		// is every occurrence of i the index of S?
		only := true
		idx := map[*ast.Ident]bool{}
		for _, s := range n.Body.List {
			ast.Inspect(s, func(x ast.Node) bool {
				if ie, ok := x.(*ast.IndexExpr); ok && isIdent(ie.X, sName) {
					if id, ok := ie.Index.(*ast.Ident); ok && id.Name == iv.Name {
						idx[id] = true
					}
				}
				return true
			})
			ast.Inspect(s, func(x ast.Node) bool {
				if id, ok := x.(*ast.Ident); ok && id.Name == iv.Name && !idx[id] {
					only = false
				}
				return true
			})
		}
		if only && len(idx) > 0 {
			body := n.Body.List
			vName := "$elem"
			if len(body) > 0 {
				if as, ok := body[0].(*ast.AssignStmt); ok && as.Tok == token.DEFINE && len(as.Lhs) == 1 && len(as.Rhs) == 1 {
					if ie, ok := as.Rhs[0].(*ast.IndexExpr); ok && isIdent(ie.X, sName) && isIdent(ie.Index, iv.Name) {
						if id, ok := as.Lhs[0].(*ast.Ident); ok && !assignsTo(body[1:], id.Name) {
							vName = id.Name
							body = body[1:]
						}
					}
				}
			}
			nb := &ast.BlockStmt{List: body}
			astutil.Apply(nb, nil, func(cur *astutil.Cursor) bool {
				if ie, ok := cur.Node().(*ast.IndexExpr); ok && isIdent(ie.X, sName) && isIdent(ie.Index, iv.Name) {
					cur.Replace(ast.NewIdent(vName))
				}
				return true
			})
			c.used("counted loop over a slice rewritten to the range loop it abbreviates")
			return &ast.RangeStmt{Key: ast.NewIdent("_"), Value: ast.NewIdent(vName), Tok: token.DEFINE, X: ast.NewIdent(sName), Body: nb}
		}
	}
	c.used("counted loop rewritten to range over its bound")
	return &ast.RangeStmt{Key: iv, Tok: token.DEFINE, X: cond.Y, Body: n.Body}
}

// breakLoop rewrites `for { if c { break }; B }` (no init, no post, no condition, unlabelled break first) to
// `for !c { B }`.
func (c *tvCtx) breakLoop(n *ast.ForStmt) ast.Stmt {
	if n.Init != nil || n.Post != nil || n.Cond != nil || len(n.Body.List) == 0 {
		return n
	}
	ifs, ok := n.Body.List[0].(*ast.IfStmt)
	if !ok || ifs.Init != nil || ifs.Else != nil || len(ifs.Body.List) != 1 {
		return n
	}
	br, ok := ifs.Body.List[0].(*ast.BranchStmt)
	if !ok || br.Tok != token.BREAK || br.Label != nil {
		return n
	}
	cond, _ := negateExpr(ifs.Cond)
	c.used("`for { if c { break }; body }` rewritten to `for !c { body }`")
	return &ast.ForStmt{Cond: cond, Body: &ast.BlockStmt{List: n.Body.List[1:]}}
}

// switchToIfChain rewrites a tagless switch without init, fallthrough or break - `switch { case a: A; case b, c: B;
// default: D }` - to the chain `if a { A } else if b || c { B } else { D }` it abbreviates (the default clause last).
func (c *tvCtx) switchToIfChain(n *ast.SwitchStmt) ast.Stmt {
	if n.Tag != nil || n.Init != nil || len(n.Body.List) == 0 {
		return nil
	}
	var def *ast.CaseClause
	var cases []*ast.CaseClause
	for i, cc := range n.Body.List {
		cl := cc.(*ast.CaseClause)
		if cl.List == nil {
			if i != len(n.Body.List)-1 {
				return nil // a default clause that is not last: order of evaluation is the same, but keep it simple
			}
			def = cl
		} else {
			cases = append(cases, cl)
		}
		bad := false
		for _, s := range cl.Body {
			ast.Inspect(s, func(m ast.Node) bool {
				switch x := m.(type) {
				case *ast.ForStmt, *ast.RangeStmt, *ast.SwitchStmt, *ast.TypeSwitchStmt, *ast.SelectStmt, *ast.FuncLit:
					return false // a break inside belongs to that statement
				case *ast.BranchStmt:
					if x.Tok == token.BREAK || x.Tok == token.FALLTHROUGH {
						bad = true
					}
				}
				return !bad
			})
		}
		if bad {
			return nil
		}
	}
	if len(cases) == 0 {
		return nil
	}
	var tail ast.Stmt
	if def != nil {
		tail = &ast.BlockStmt{List: def.Body}
	}
	for i := len(cases) - 1; i >= 0; i-- {
		cl := cases[i]
		cond := cl.List[0]
		for _, e := range cl.List[1:] {
			cond = &ast.BinaryExpr{X: cond, Op: token.LOR, Y: e}
		}
		ifs := &ast.IfStmt{Cond: cond, Body: &ast.BlockStmt{List: cl.Body}}
		if tail != nil {
			ifs.Else = tail
		}
		tail = ifs
	}
	c.used("tagless switch rewritten to the if / else-if chain it abbreviates")
	return tail
}

// guardedTail rewrites, in a loop body, `if c { continue }; S...` into `if !c { S... }` (S being the rest of the body):
// the two forms of guarding the tail of an iteration are the same program.
func (c *tvCtx) guardedTail(list []ast.Stmt) []ast.Stmt {
	for i, s := range list {
		ifs, ok := s.(*ast.IfStmt)
		if !ok || ifs.Init != nil || ifs.Else != nil || len(ifs.Body.List) != 1 {
			continue
		}
		br, ok := ifs.Body.List[0].(*ast.BranchStmt)
		if !ok || br.Tok != token.CONTINUE || br.Label != nil {
			continue
		}
		rest := c.guardedTail(append([]ast.Stmt(nil), list[i+1:]...))
		if len(rest) == 0 {
			return list[:i]
		}
		var cond ast.Expr
		if u, isNot := ifs.Cond.(*ast.UnaryExpr); isNot && u.Op == token.NOT {
			cond = u.X
			if pe, isP := cond.(*ast.ParenExpr); isP {
				cond = pe.X
			}
		} else {
			cond = &ast.UnaryExpr{Op: token.NOT, X: ifs.Cond}
		}
		c.used("`if c { continue }; rest` rewritten to `if !c { rest }` at the tail of a loop body")
		out := append([]ast.Stmt(nil), list[:i]...)
		return append(out, &ast.IfStmt{Cond: cond, Body: &ast.BlockStmt{List: rest}})
	}
	return list
}

// ---- canonical printer ----

type canonPrinter struct {
	locals map[string]bool
	names  map[string]string
	n      int
	lines  []string
	depth  int
}

// locals are renamed in order of first occurrence in the body (parameters, named results and locals alike), so that
// unused named results or a different declaration order do not matter.
func (p *canonPrinter) name(id string) string {
	if v, ok := p.names[id]; ok {
		return v
	}
	if p.locals[id] {
		p.n++
		v := fmt.Sprintf("v%d", p.n)
		p.names[id] = v
		return v
	}
	return id
}

func (p *canonPrinter) declare(id string) string {
	if id == "_" {
		return "_"
	}
	p.locals[id] = true
	return p.name(id)
}

func (p *canonPrinter) emit(s string) {
	p.lines = append(p.lines, strings.Repeat("  ", p.depth)+s)
}

func (p *canonPrinter) expr(e ast.Expr) string {
	switch n := e.(type) {
	case nil:
		return ""
	case *ast.Ident:
		return p.name(n.Name)
	case *ast.BasicLit:
		if n.Kind == token.CHAR {
			if s, err := strconv.Unquote(n.Value); err == nil {
				return fmt.Sprintf("%d", []rune(s)[0])
			}
		}
		if n.Kind == token.STRING {
			if s, err := strconv.Unquote(n.Value); err == nil {
				return strconv.Quote(s)
			}
		}
		return n.Value
	case *ast.ParenExpr:
		return p.expr(n.X)
	case *ast.BinaryExpr:
		if n.Op == token.LAND || n.Op == token.LOR {
			// && and || are associative (evaluation order is preserved by flattening)
			var ops []string
			var flat func(e ast.Expr)
			flat = func(e ast.Expr) {
				if pe, ok := e.(*ast.ParenExpr); ok {
					e = pe.X
				}
				if b, ok := e.(*ast.BinaryExpr); ok && b.Op == n.Op {
					flat(b.X)
					flat(b.Y)
					return
				}
				ops = append(ops, p.expr(e))
			}
			// operands that cannot fail, have no effect and guard nothing (comparisons of names, constants and
			// selectors) commute: when every operand is one, and all their names are assigned already, sort them
			allSimple := true
			var collect func(e ast.Expr)
			var leaves []ast.Expr
			collect = func(e ast.Expr) {
				if pe, ok := e.(*ast.ParenExpr); ok {
					e = pe.X
				}
				if b, ok := e.(*ast.BinaryExpr); ok && b.Op == n.Op {
					collect(b.X)
					collect(b.Y)
					return
				}
				leaves = append(leaves, e)
			}
			collect(n)
			for _, l := range leaves {
				if !simplePure(l) || !p.allNamed(l) {
					allSimple = false
				}
			}
			flat(n)
			if allSimple {
				sort.Strings(ops)
			}
			return "(" + strings.Join(ops, " "+n.Op.String()+" ") + ")"
		}
		if (n.Op == token.EQL || n.Op == token.NEQ) && p.allNamed(n.X) && p.allNamed(n.Y) {
			// == and != commute (evaluation order of the operands is immaterial when neither has an effect)
			if _, yLit := n.Y.(*ast.BasicLit); !yLit && noCalls(n.X) && noCalls(n.Y) {
				x, y := p.expr(n.X), p.expr(n.Y)
				if y < x {
					x, y = y, x
				}
				return "(" + x + " " + n.Op.String() + " " + y + ")"
			}
		}
		return "(" + p.expr(n.X) + " " + n.Op.String() + " " + p.expr(n.Y) + ")"
	case *ast.UnaryExpr:
		return "(" + n.Op.String() + p.expr(n.X) + ")"
	case *ast.StarExpr:
		return "(*" + p.expr(n.X) + ")"
	case *ast.CallExpr:
		var as []string
		for _, a := range n.Args {
			as = append(as, p.expr(a))
		}
		el := ""
		if n.Ellipsis.IsValid() {
			el = "..."
		}
		return p.expr(n.Fun) + "(" + strings.Join(as, ", ") + el + ")"
	case *ast.SelectorExpr:
		return p.expr(n.X) + "." + n.Sel.Name
	case *ast.IndexExpr:
		return p.expr(n.X) + "[" + p.expr(n.Index) + "]"
	case *ast.SliceExpr:
		return p.expr(n.X) + "[" + p.expr(n.Low) + ":" + p.expr(n.High) + "]"
	case *ast.CompositeLit:
		var es []string
		for _, x := range n.Elts {
			es = append(es, p.expr(x))
		}
		return p.expr(n.Type) + "{" + strings.Join(es, ", ") + "}"
	case *ast.KeyValueExpr:
		return p.expr(n.Key) + ": " + p.expr(n.Value)
	case *ast.ArrayType:
		return "[" + p.expr(n.Len) + "]" + p.expr(n.Elt)
	case *ast.TypeAssertExpr:
		return p.expr(n.X) + ".(" + p.expr(n.Type) + ")"
	case *ast.FuncLit:
		return "func-literal"
	case *ast.Ellipsis:
		return "..." + p.expr(n.Elt)
	}
	return fmt.Sprintf("<%T>", e)
}

// simplePure: an expression that cannot fail and has no effect: names, constants, selectors, len of a name, and
// comparisons / negations of those.
func simplePure(e ast.Expr) bool {
	switch n := e.(type) {
	case *ast.Ident, *ast.BasicLit:
		return true
	case *ast.ParenExpr:
		return simplePure(n.X)
	case *ast.SelectorExpr:
		return simplePure(n.X)
	case *ast.UnaryExpr:
		return n.Op == token.NOT && simplePure(n.X)
	case *ast.BinaryExpr:
		switch n.Op {
		case token.EQL, token.NEQ, token.LSS, token.LEQ, token.GTR, token.GEQ:
			return simplePure(n.X) && simplePure(n.Y)
		}
	case *ast.CallExpr:
		if isIdent(n.Fun, "len") && len(n.Args) == 1 {
			_, ok := n.Args[0].(*ast.Ident)
			return ok
		}
	}
	return false
}

// noCalls: e contains no call other than len / conversions to basic types, no receive, no function literal.
func noCalls(e ast.Expr) bool {
	ok := true
	ast.Inspect(e, func(n ast.Node) bool {
		switch x := n.(type) {
		case *ast.CallExpr:
			if id, isId := x.Fun.(*ast.Ident); isId {
				switch id.Name {
				case "len", "int", "int64", "uint8", "byte", "string", "rune", "uint32", "int32":
					return true
				}
			}
			ok = false
		case *ast.FuncLit:
			ok = false
		case *ast.UnaryExpr:
			if x.Op == token.ARROW {
				ok = false
			}
		}
		return ok
	})
	return ok
}

// allNamed: every local identifier of e has its canonical name already (printing e assigns no new name, so the order
// in which its parts are printed does not matter).
func (p *canonPrinter) allNamed(e ast.Expr) bool {
	ok := true
	ast.Inspect(e, func(n ast.Node) bool {
		if id, isId := n.(*ast.Ident); isId && p.locals[id.Name] {
			if _, named := p.names[id.Name]; !named {
				ok = false
			}
		}
		return ok
	})
	return ok
}

// literalInit: `x := <literal>` / `x = <literal>` with a single identifier on the left.
func literalInit(s ast.Stmt) (string, bool) {
	a, ok := s.(*ast.AssignStmt)
	if !ok || len(a.Lhs) != 1 || len(a.Rhs) != 1 || a.Tok != token.DEFINE {
		return "", false
	}
	if _, ok := a.Lhs[0].(*ast.Ident); !ok {
		return "", false
	}
	switch r := a.Rhs[0].(type) {
	case *ast.BasicLit:
		return r.Value, true
	case *ast.Ident:
		if r.Name == "true" || r.Name == "false" || r.Name == "nil" {
			return r.Name, true
		}
	}
	return "", false
}

// pureDefine: `a, b := e1, e2` with identifiers on the left and right-hand sides free of calls (except len and
// conversions to basic types), channel operations and function literals: evaluating it has no effect but the definition.
func pureDefine(s ast.Stmt) (*ast.AssignStmt, bool) {
	a, ok := s.(*ast.AssignStmt)
	if !ok || a.Tok != token.DEFINE {
		return nil, false
	}
	for _, l := range a.Lhs {
		if _, ok := l.(*ast.Ident); !ok {
			return nil, false
		}
	}
	pure := true
	for _, r := range a.Rhs {
		ast.Inspect(r, func(n ast.Node) bool {
			switch x := n.(type) {
			case *ast.CallExpr:
				if id, ok := x.Fun.(*ast.Ident); !ok || (id.Name != "len" && id.Name != "int" && id.Name != "string" && id.Name != "byte") {
					pure = false
				}
			case *ast.FuncLit:
				pure = false
			case *ast.UnaryExpr:
				if x.Op == token.ARROW {
					pure = false
				}
			}
			return pure
		})
	}
	return a, pure
}

// shape prints an expression with every identifier replaced by "_" (name-free), peek prints it with the names
// assigned so far and "_" for locals not yet named; neither assigns a name.
func (p *canonPrinter) shape(e ast.Expr, peek bool) string {
	q := &canonPrinter{locals: map[string]bool{}, names: map[string]string{}}
	var idents []string
	ast.Inspect(e, func(n ast.Node) bool {
		if id, ok := n.(*ast.Ident); ok {
			idents = append(idents, id.Name)
		}
		return true
	})
	for _, id := range idents {
		switch {
		case id == "true" || id == "false" || id == "nil":
		case peek && p.names[id] != "":
			q.names[id] = p.names[id]
		case peek && !p.locals[id]:
			// a global: printed as it is
		default:
			q.names[id] = "_"
		}
	}
	return q.expr(e)
}

// sinkLiteralInits moves every definition of a single variable by a literal (`n := 0`, `ok := false`) down to just
// before the first later statement of the same list that mentions the variable: the definition has no effect and
// nothing in between can observe it, so where it stands among the statements that do not use it is immaterial.
func sinkLiteralInits(list []ast.Stmt) []ast.Stmt {
	out := append([]ast.Stmt(nil), list...)
	for i := len(out) - 2; i >= 0; i-- {
		if _, ok := literalInit(out[i]); !ok {
			continue
		}
		name := out[i].(*ast.AssignStmt).Lhs[0].(*ast.Ident).Name
		if name == "_" {
			continue
		}
		j := i + 1
		for j < len(out) {
			used := false
			ast.Inspect(out[j], func(n ast.Node) bool {
				if id, ok := n.(*ast.Ident); ok && id.Name == name {
					used = true
				}
				return !used
			})
			if used {
				break
			}
			j++
		}
		if j == len(out) || j == i+1 {
			continue // never mentioned again in this list, or already adjacent to its first use
		}
		s := out[i]
		copy(out[i:j-1], out[i+1:j])
		out[j-1] = s
	}
	return out
}

func (p *canonPrinter) block(list []ast.Stmt) {
	list = sinkLiteralInits(list)
	p.depth++
	for i := 0; i < len(list); i++ {
		// a run of adjacent, mutually independent definitions with effect-free right-hand sides is order-independent:
		// print it in a canonical order (by name-free shape, then by the names already assigned)
		if _, ok := pureDefine(list[i]); ok {
			j := i
			defined := map[string]bool{}
			for j < len(list) {
				a, ok := pureDefine(list[j])
				if !ok {
					break
				}
				uses := false
				for _, r := range a.Rhs {
					ast.Inspect(r, func(n ast.Node) bool {
						if id, ok := n.(*ast.Ident); ok && defined[id.Name] {
							uses = true
						}
						return true
					})
				}
				if uses {
					break
				}
				for _, l := range a.Lhs {
					defined[l.(*ast.Ident).Name] = true
				}
				j++
			}
			if j-i > 1 {
				run := append([]ast.Stmt(nil), list[i:j]...)
				key := func(s ast.Stmt) string {
					a := s.(*ast.AssignStmt)
					var k1, k2 []string
					for _, r := range a.Rhs {
						k1 = append(k1, p.shape(r, false))
						k2 = append(k2, p.shape(r, true))
					}
					return strings.Join(k1, ",") + "\x00" + strings.Join(k2, ",")
				}
				keys := map[ast.Stmt]string{}
				for _, s := range run {
					keys[s] = key(s)
				}
				sort.SliceStable(run, func(a, b int) bool { return keys[run[a]] < keys[run[b]] })
				for _, s := range run {
					p.stmt(s)
				}
				i = j - 1
				continue
			}
		}
		// a run of adjacent initialisations of fresh locals with literals is order-independent: print it sorted
		if _, ok := literalInit(list[i]); ok {
			j := i
			for j < len(list) {
				if _, ok := literalInit(list[j]); !ok {
					break
				}
				j++
			}
			if j-i > 1 {
				run := append([]ast.Stmt(nil), list[i:j]...)
				sort.SliceStable(run, func(a, b int) bool {
					x, _ := literalInit(run[a])
					y, _ := literalInit(run[b])
					return x < y
				})
				for _, s := range run {
					p.stmt(s)
				}
				i = j - 1
				continue
			}
		}
		p.stmt(list[i])
	}
	p.depth--
}

func (p *canonPrinter) stmt(s ast.Stmt) {
	switch n := s.(type) {
	case *ast.ExprStmt:
		p.emit(p.expr(n.X))
	case *ast.AssignStmt:
		var rhs []string
		for _, r := range n.Rhs {
			rhs = append(rhs, p.expr(r))
		}
		var lhs []string
		for _, l := range n.Lhs {
			if id, ok := l.(*ast.Ident); ok && n.Tok == token.DEFINE {
				if _, known := p.names[id.Name]; !known || true {
					lhs = append(lhs, p.declare(id.Name))
					continue
				}
			}
			lhs = append(lhs, p.expr(l))
		}
		tok := n.Tok.String()
		if n.Tok == token.DEFINE {
			tok = "="
		}
		p.emit(strings.Join(lhs, ", ") + " " + tok + " " + strings.Join(rhs, ", "))
	case *ast.IncDecStmt:
		p.emit(p.expr(n.X) + n.Tok.String())
	case *ast.ReturnStmt:
		var rs []string
		for _, r := range n.Results {
			rs = append(rs, p.expr(r))
		}
		p.emit("return " + strings.Join(rs, ", "))
	case *ast.IfStmt:
		if n.Init != nil {
			p.emit("if-init:")
			p.depth++
			p.stmt(n.Init)
			p.depth--
		}
		p.emit("if " + p.expr(n.Cond) + " {")
		p.block(n.Body.List)
		if n.Else != nil {
			p.emit("} else {")
			switch e := n.Else.(type) {
			case *ast.BlockStmt:
				p.block(e.List)
			default:
				p.block([]ast.Stmt{e})
			}
		}
		p.emit("}")
	case *ast.ForStmt:
		if n.Init != nil {
			p.emit("for-init:")
			p.depth++
			p.stmt(n.Init)
			p.depth--
		}
		post := ""
		if n.Post != nil {
			q := &canonPrinter{names: p.names, n: p.n, locals: p.locals}
			q.stmt(n.Post)
			post = strings.TrimSpace(strings.Join(q.lines, ";"))
		}
		p.emit("for " + p.expr(n.Cond) + " ; " + post + " {")
		p.block(n.Body.List)
		p.emit("}")
	case *ast.RangeStmt:
		k, v := "", ""
		x := p.expr(n.X)
		if id, ok := n.Key.(*ast.Ident); ok && n.Tok == token.DEFINE {
			k = p.declare(id.Name)
		} else {
			k = p.expr(n.Key)
		}
		if id, ok := n.Value.(*ast.Ident); ok && n.Tok == token.DEFINE {
			v = p.declare(id.Name)
		} else {
			v = p.expr(n.Value)
		}
		p.emit("range " + k + ", " + v + " over " + x + " {")
		p.block(n.Body.List)
		p.emit("}")
	case *ast.SwitchStmt:
		if n.Init != nil {
			p.stmt(n.Init)
		}
		p.emit("switch " + p.expr(n.Tag) + " {")
		for _, cc := range n.Body.List {
			cl := cc.(*ast.CaseClause)
			var cs []string
			for _, e := range cl.List {
				cs = append(cs, p.expr(e))
			}
			if cl.List == nil {
				p.emit("default:")
			} else {
				p.emit("case " + strings.Join(cs, ", ") + ":")
			}
			p.block(cl.Body)
		}
		p.emit("}")
	case *ast.BlockStmt:
		p.emit("{")
		p.block(n.List)
		p.emit("}")
	case *ast.BranchStmt:
		l := ""
		if n.Label != nil {
			l = " " + p.name("label:"+n.Label.Name)
		}
		p.emit(n.Tok.String() + l)
	case *ast.LabeledStmt:
		p.emit(p.declareLabel(n.Label.Name) + ":")
		p.stmt(n.Stmt)
	case *ast.DeclStmt:
		gd := n.Decl.(*ast.GenDecl)
		for _, sp := range gd.Specs {
			if vs, ok := sp.(*ast.ValueSpec); ok {
				for i, nm := range vs.Names {
					if i >= len(vs.Values) {
						// a declaration without initial value does nothing observable until the variable is first used:
						// it is not part of the normal form (the variable is named at its first occurrence)
						p.locals[nm.Name] = true
						continue
					}
					p.emit("var " + p.declare(nm.Name) + " = " + p.expr(vs.Values[i]))
				}
			}
		}
	case *ast.DeferStmt:
		p.emit("defer " + p.expr(n.Call))
	case *ast.EmptyStmt:
	default:
		p.emit(fmt.Sprintf("<%T>", s))
	}
}

func (p *canonPrinter) declareLabel(l string) string {
	p.n++
	v := fmt.Sprintf("L%d", p.n)
	p.names["label:"+l] = v
	return v
}

// canonicalise returns the canonical lines of function fn (already parsed) for the given side / OS.
func canonicalise(fd *ast.FuncDecl, side, osName string, rewrites map[string]int) []string {
	c := &tvCtx{os: osName, side: side, rewrites: rewrites}
	astutil.Apply(fd.Body, nil, c.rewriteExpr)
	astutil.Apply(fd.Body, nil, c.foldExpr)
	fd.Body.List = c.foldStmts(fd.Body.List)
	// a second round: folding may expose new constant conditions
	astutil.Apply(fd.Body, nil, c.foldExpr)
	fd.Body.List = c.foldStmts(fd.Body.List)
	p := &canonPrinter{names: map[string]string{}, locals: map[string]bool{}}
	if fd.Recv != nil {
		for _, f := range fd.Recv.List {
			for _, nm := range f.Names {
				p.locals[nm.Name] = true
			}
		}
	}
	for _, f := range fd.Type.Params.List {
		for _, nm := range f.Names {
			if side == "avfs" && nm.Name == "vfs" {
				continue
			}
			p.locals[nm.Name] = true
		}
	}
	if fd.Type.Results != nil {
		for _, f := range fd.Type.Results.List {
			for _, nm := range f.Names {
				p.locals[nm.Name] = true
			}
		}
	}
	delete(p.locals, "_")
	// the parameter list itself is part of the correspondence: parameters are named in order
	for _, f := range fd.Type.Params.List {
		for _, nm := range f.Names {
			if nm.Name != "_" && p.locals[nm.Name] {
				p.name(nm.Name)
			}
		}
	}
	p.block(fd.Body.List)
	return p.lines
}

var tvLastFset *token.FileSet

func parseFunc(path, fn string) (*ast.FuncDecl, error) {
	fset := token.NewFileSet()
	tvLastFset = fset
	f, err := parser.ParseFile(fset, path, nil, parser.SkipObjectResolution)
	if err != nil {
		return nil, err
	}
	fd := findFunc(f, fn)
	if fd == nil || fd.Body == nil {
		return nil, fmt.Errorf("function %s not found in %s", fn, path)
	}
	return fd, nil
}

type tvResult struct {
	pair     string
	os       string
	equal    bool
	diffLine int
	avfsLine string
	refLine  string
	err      string
	nLines   int
	rewrites map[string]int
	where    string // avfs file:line of the function
}

func runTV(repo string, pair tvPair, osName string) tvResult {
	r := tvResult{pair: pair.name, os: osName, rewrites: map[string]int{}}
	ref, ok := pair.ref[osName]
	if !ok {
		r.err = "no reference for this OS"
		return r
	}
	afd, err := parseFunc(filepath.Join(repo, pair.avfs.file), pair.avfs.fn)
	if err != nil {
		r.err = err.Error()
		return r
	}
	r.where = fmt.Sprintf("%s:%d", pair.avfs.file, tvLastFset.Position(afd.Pos()).Line)
	rfd, err := parseFunc(filepath.Join(goroot(), "src", ref.file), ref.fn)
	if err != nil {
		r.err = err.Error()
		return r
	}
	al := canonicalise(afd, "avfs", osName, r.rewrites)
	rl := canonicalise(rfd, "ref", osName, r.rewrites)
	r.nLines = len(rl)
	r.equal = true
	for i := 0; i < len(al) || i < len(rl); i++ {
		a, b := "<end>", "<end>"
		if i < len(al) {
			a = strings.TrimSpace(al[i])
		}
		if i < len(rl) {
			b = strings.TrimSpace(rl[i])
		}
		if a != b {
			r.equal = false
			r.diffLine = i + 1
			r.avfsLine, r.refLine = a, b
			break
		}
	}
	return r
}

func init() {
	if len(os.Args) > 1 && os.Args[1] == "-tvdump" {
		want := ""
		if len(os.Args) > 2 {
			want = os.Args[2]
		}
		for _, p := range tvPairs {
			for _, osn := range []string{"linux", "darwin", "windows"} {
				if _, ok := p.ref[osn]; !ok {
					continue
				}
				if want != "" && want != p.name {
					continue
				}
				r := runTV("/repo", p, osn)
				st := "EQUAL"
				if r.err != "" {
					st = "ERROR " + r.err
				} else if !r.equal {
					st = fmt.Sprintf("DIFF at line %d:\n      avfs: %s\n      ref : %s", r.diffLine, r.avfsLine, r.refLine)
				}
				fmt.Printf("%-22s %-8s %s\n", p.name, osn, st)
				if want != "" {
					afd, _ := parseFunc(filepath.Join("/repo", p.avfs.file), p.avfs.fn)
					rfd, _ := parseFunc(filepath.Join(goroot(), "src", p.ref[osn].file), p.ref[osn].fn)
					fmt.Println("--- avfs")
					for _, l := range canonicalise(afd, "avfs", osn, map[string]int{}) {
						fmt.Println(l)
					}
					fmt.Println("--- ref")
					for _, l := range canonicalise(rfd, "ref", osn, map[string]int{}) {
						fmt.Println(l)
					}
				}
			}
		}
		os.Exit(0)
	}
}

// foldStringOf builds string(e), folded when e is a character constant.
func foldStringOf(e ast.Expr) ast.Expr {
	if bl, ok := e.(*ast.BasicLit); ok && bl.Kind == token.CHAR {
		if s, err := strconv.Unquote(bl.Value); err == nil {
			return &ast.BasicLit{Kind: token.STRING, Value: strconv.Quote(s)}
		}
	}
	return &ast.CallExpr{Fun: ast.NewIdent("string"), Args: []ast.Expr{e}}
}

// sortsByName recognises the two comparison closures that order directory entries by ascending Name():
// func(i, j int) bool { return x[i].Name() < x[j].Name() }  and  func(a, b T) int { return Compare(a.Name(), b.Name()) }.
func sortsByName(fl *ast.FuncLit) bool {
	if len(fl.Body.List) != 1 {
		return false
	}
	ret, ok := fl.Body.List[0].(*ast.ReturnStmt)
	if !ok || len(ret.Results) != 1 {
		return false
	}
	var params []string
	for _, f := range fl.Type.Params.List {
		for _, n := range f.Names {
			params = append(params, n.Name)
		}
	}
	if len(params) != 2 {
		return false
	}
	nameOf := func(e ast.Expr, p string) bool {
		c, ok := e.(*ast.CallExpr)
		if !ok || len(c.Args) != 0 {
			return false
		}
		s, ok := c.Fun.(*ast.SelectorExpr)
		if !ok || s.Sel.Name != "Name" {
			return false
		}
		if isIdent(s.X, p) {
			return true
		}
		if ix, ok := s.X.(*ast.IndexExpr); ok && isIdent(ix.Index, p) {
			return true
		}
		return false
	}
	switch r := ret.Results[0].(type) {
	case *ast.BinaryExpr:
		return r.Op == token.LSS && nameOf(r.X, params[0]) && nameOf(r.Y, params[1])
	case *ast.CallExpr:
		if (isSel(r.Fun, "bytealg", "CompareString") || isSel(r.Fun, "strings", "Compare")) && len(r.Args) == 2 {
			return nameOf(r.Args[0], params[0]) && nameOf(r.Args[1], params[1])
		}
	}
	return false
}
