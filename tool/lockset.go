package main

import (
	"fmt"
	"go/ast"
	"go/token"
	"go/types"
	"sort"
	"strings"

	"golang.org/x/tools/go/ssa"
)

// Lockset analysis (DESIGN.md section 4, "L").
//
// Objects are named by canonical access paths ("object keys"): root value + chain of pointer loads. go/ssa performs no
// CSE, so `f.nd` loaded three times is three values with one key. An embedded struct held by value belongs to the
// same object as its container (dirNode.baseNode.mu guards dirNode.children).

type lockMode int

const (
	modeR lockMode = 1
	modeW lockMode = 2
)

func (m lockMode) String() string {
	if m == modeW {
		return "W"
	}
	return "R"
}

// okey is an object key.
type okey struct {
	s     string     // canonical string
	param int        // index into f.Params when the root is a parameter, else -1
	chain string     // chain below the parameter (for summaries)
	fresh bool       // the object was allocated by this function (composite literal / new)
	typ   types.Type // static type of the pointer / interface denoting the object
	root  ssa.Value
}

// objKeyOf computes the key of the object that pointer/interface value v denotes.
func objKeyOf(v ssa.Value) okey {
	return objKeyDepth(v, 0)
}

func objKeyDepth(v ssa.Value, depth int) okey {
	if depth > 12 || v == nil {
		return okey{s: "?", param: -1}
	}
	switch x := v.(type) {
	case *ssa.Parameter:
		idx := -1
		for i, p := range x.Parent().Params {
			if p == x {
				idx = i
			}
		}
		return okey{s: x.Name(), param: idx, typ: x.Type(), root: x}
	case *ssa.FreeVar:
		return okey{s: "^" + x.Name(), param: -1, typ: x.Type(), root: x}
	case *ssa.Global:
		return okey{s: "global:" + x.Name(), param: -1, typ: x.Type(), root: x}
	case *ssa.TypeAssert:
		k := objKeyDepth(x.X, depth+1)
		if !x.CommaOk {
			k.typ = x.AssertedType
		}
		return k
	case *ssa.ChangeInterface:
		return objKeyDepth(x.X, depth+1)
	case *ssa.MakeInterface:
		return objKeyDepth(x.X, depth+1)
	case *ssa.ChangeType:
		return objKeyDepth(x.X, depth+1)
	case *ssa.Extract:
		// comma-ok type assertion: extract #0 of TypeAssert
		if ta, ok := x.Tuple.(*ssa.TypeAssert); ok && x.Index == 0 {
			k := objKeyDepth(ta.X, depth+1)
			k.typ = ta.AssertedType
			return k
		}
		if lk, ok := x.Tuple.(*ssa.Lookup); ok && x.Index == 0 {
			return objKeyDepth(lk, depth+1)
		}
		return okey{s: fmt.Sprintf("%s#%d", x.Tuple.Name(), x.Index), param: -1, typ: x.Type(), root: x}
	case *ssa.FieldAddr:
		// address of an embedded struct: same object as the container
		return objKeyDepth(x.X, depth+1)
	case *ssa.Alloc:
		if x.Heap {
			// composite literal &T{} or new(T): fresh object — unless it is a spilled local variable (cell of pointer type)
			if _, isPtr := x.Type().(*types.Pointer).Elem().Underlying().(*types.Struct); isPtr {
				return okey{s: "new@" + x.Name(), param: -1, fresh: true, typ: x.Type(), root: x}
			}
		}
		return okey{s: "local@" + x.Name(), param: -1, typ: x.Type(), root: x}
	case *ssa.UnOp:
		if x.Op != token.MUL {
			break
		}
		switch a := x.X.(type) {
		case *ssa.FieldAddr:
			base := objKeyDepth(a.X, depth+1)
			fn := fieldName(a.X.Type(), a.Field)
			k := okey{s: base.s + "." + fn + "*", param: base.param, chain: base.chain + "." + fn + "*", typ: x.Type(), root: base.root}
			return k
		case *ssa.Alloc:
			// local cell: single reaching store?
			vals, entry := reachingStores(a, x)
			if !entry && len(vals) == 1 {
				return objKeyDepth(vals[0], depth+1)
			}
			if !entry && len(vals) > 1 {
				// all stores denote the same object?
				k0 := objKeyDepth(vals[0], depth+1)
				same := true
				for _, v2 := range vals[1:] {
					if objKeyDepth(v2, depth+1).s != k0.s {
						same = false
					}
				}
				if same {
					return k0
				}
			}
			// several stores reach: two loads with the same set of reaching stores denote the same value
			var ids []string
			for _, v2 := range vals {
				ids = append(ids, v2.Name())
			}
			sort.Strings(ids)
			e := ""
			if entry {
				e = "+entry"
			}
			return okey{s: "cell:" + a.Name() + "{" + strings.Join(ids, ",") + e + "}", param: -1, typ: x.Type(), root: x}
		case *ssa.FreeVar:
			return okey{s: "^" + a.Name() + "*", param: -1, typ: x.Type(), root: a}
		case *ssa.IndexAddr:
			return okey{s: x.Name(), param: -1, typ: x.Type(), root: x}
		}
	case *ssa.Phi:
		var k0 okey
		same := true
		allFresh := true
		for i, e := range x.Edges {
			if e == ssa.Value(x) {
				continue
			}
			k := objKeyDepth(e, depth+1)
			if !k.fresh {
				allFresh = false
			}
			if i == 0 || k0.s == "" {
				k0 = k
			} else if k.s != k0.s {
				same = false
			}
		}
		if same && k0.s != "" {
			return k0
		}
		return okey{s: "phi:" + x.Name(), param: -1, typ: x.Type(), root: x, fresh: allFresh}
	case *ssa.Lookup:
		return okey{s: x.Name(), param: -1, typ: x.Type(), root: x}
	case *ssa.Call:
		if sc := x.Call.StaticCallee(); sc != nil && freshReturning[sc] {
			return okey{s: x.Name(), param: -1, typ: x.Type(), root: x, fresh: true}
		}
		return okey{s: x.Name(), param: -1, typ: x.Type(), root: x}
	case *ssa.Next:
		return okey{s: x.Name(), param: -1, typ: x.Type(), root: x}
	case *ssa.Const:
		return okey{s: "const", param: -1, typ: x.Type(), root: x}
	}
	return okey{s: v.Name(), param: -1, typ: v.Type(), root: v}
}

// lkey identifies a lock: object + mutex field.
type lkey struct {
	obj   string
	field string
}

func (k lkey) String() string { return k.obj + "." + k.field }

type held struct {
	mode  lockMode
	site  ssa.Instruction
	class string
	key   okey
}

type lstate struct {
	must map[lkey]held
	may  map[lkey]held
	dfr  map[lkey]lockMode // deferred releases registered on every path (must)
	dfrM map[lkey]lockMode // deferred releases registered on some path (may)
}

func newState() *lstate {
	return &lstate{must: map[lkey]held{}, may: map[lkey]held{}, dfr: map[lkey]lockMode{}, dfrM: map[lkey]lockMode{}}
}

func (s *lstate) clone() *lstate {
	n := newState()
	for k, v := range s.must {
		n.must[k] = v
	}
	for k, v := range s.may {
		n.may[k] = v
	}
	for k, v := range s.dfr {
		n.dfr[k] = v
	}
	for k, v := range s.dfrM {
		n.dfrM[k] = v
	}
	return n
}

func (s *lstate) equal(o *lstate) bool {
	if len(s.must) != len(o.must) || len(s.may) != len(o.may) || len(s.dfr) != len(o.dfr) || len(s.dfrM) != len(o.dfrM) {
		return false
	}
	for k, v := range s.must {
		if w, ok := o.must[k]; !ok || w.mode != v.mode {
			return false
		}
	}
	for k, v := range s.may {
		if w, ok := o.may[k]; !ok || w.mode != v.mode {
			return false
		}
	}
	for k := range s.dfr {
		if _, ok := o.dfr[k]; !ok {
			return false
		}
	}
	for k := range s.dfrM {
		if _, ok := o.dfrM[k]; !ok {
			return false
		}
	}
	return true
}

// meet: must = intersection (weaker mode), may = union (stronger mode).
func meet(a, b *lstate) *lstate {
	n := newState()
	for k, v := range a.must {
		if w, ok := b.must[k]; ok {
			if w.mode < v.mode {
				v.mode = w.mode
			}
			n.must[k] = v
		}
	}
	for k, v := range a.may {
		n.may[k] = v
	}
	for k, v := range b.may {
		if w, ok := n.may[k]; !ok || v.mode > w.mode {
			n.may[k] = v
		}
	}
	for k, v := range a.dfr {
		if _, ok := b.dfr[k]; ok {
			n.dfr[k] = v
		}
	}
	for k, v := range a.dfrM {
		n.dfrM[k] = v
	}
	for k, v := range b.dfrM {
		n.dfrM[k] = v
	}
	return n
}

// lockOp is an acquire/release performed by one instruction.
type lockOp struct {
	acquire bool
	mode    lockMode
	key     okey
	field   string
	class   string
	defer_  bool
	// via: the operation happens inside a callee (wrapper) rather than directly
	via *ssa.Function
}

// sumLock is a summary entry rooted at a parameter of the summarised function.
type sumLock struct {
	param int
	chain string
	field string
	mode  lockMode
	class string
	site  ssa.Instruction // where, in the callee (or deeper), it happens
	fn    *ssa.Function
}

func (s sumLock) id() string { return fmt.Sprintf("p%d%s.%s/%s", s.param, s.chain, s.field, s.mode) }

type lockSummary struct {
	netAcquire []sumLock // held at exit, not at entry (lock wrappers)
	netRelease []sumLock // released without being acquired (unlock wrappers)
	acquires   []sumLock // every param-rooted lock acquired somewhere inside, transitively
	requires   []sumLock // guarded-by: locks that must be held on entry
}

// freshReturning: functions whose (first) result is always an object they allocated themselves (constructors such as
// createDir): the caller is the only holder of the reference until it publishes it.
var freshReturning = map[*ssa.Function]bool{}

func computeFreshReturning(funcs []*ssa.Function) {
	for _, f := range funcs {
		if f.Signature.Results().Len() == 0 {
			continue
		}
		rets := returnsOf(f)
		ok := len(rets) > 0
		for _, r := range rets {
			if !objKeyOf(r.Results[0]).fresh {
				ok = false
			}
		}
		if ok {
			freshReturning[f] = true
		}
	}
}

// variant is one case of the alias case split of a function: the outcome assumed for a pointer comparison between
// two lock-bearing objects (`if nParent != oParent { nParent.mu.Lock() ... }`).
type variant struct {
	pred  *ssa.BinOp
	equal bool
}

type lockAnalysis struct {
	cur      map[*ssa.Function]variant
	c        *Config
	pkgs     []string
	funcs    []*ssa.Function
	inSet    map[*ssa.Function]bool
	sums     map[*ssa.Function]*lockSummary
	blockIn  map[*ssa.Function]map[*ssa.BasicBlock]*lstate
	impls    map[string][]*ssa.Function // interface method resolution cache
	assumeEq map[*ssa.Function]map[string]string
}

func isMutexType(t types.Type) (rw bool, ok bool) {
	n, isN := t.(*types.Named)
	if !isN || n.Obj().Pkg() == nil || n.Obj().Pkg().Path() != "sync" {
		return false, false
	}
	switch nm(n.Obj()) {
	case "RWMutex":
		return true, true
	case "Mutex":
		return false, true
	}
	return false, false
}

// lockClassOf names the class of a lock by the struct that declares the mutex field.
func lockClassOf(addr ssa.Value) string {
	if fa, ok := addr.(*ssa.FieldAddr); ok {
		if n := namedOf(fa.X.Type()); n != nil && n.Obj().Pkg() != nil {
			return pkgShort[n.Obj().Pkg().Path()] + "." + n.Obj().Name() + "." + fieldName(fa.X.Type(), fa.Field)
		}
	}
	return "?"
}

func newLockAnalysis(c *Config, pkgs ...string) *lockAnalysis {
	a := &lockAnalysis{c: c, pkgs: pkgs, inSet: map[*ssa.Function]bool{}, sums: map[*ssa.Function]*lockSummary{},
		blockIn: map[*ssa.Function]map[*ssa.BasicBlock]*lstate{}, impls: map[string][]*ssa.Function{}}
	for _, p := range pkgs {
		for _, f := range c.srcFuncs(p) {
			if len(f.Blocks) > 0 {
				a.funcs = append(a.funcs, f)
				a.inSet[f] = true
				a.sums[f] = &lockSummary{}
			}
		}
	}
	a.cur = map[*ssa.Function]variant{}
	a.assumeEq = map[*ssa.Function]map[string]string{}
	computeFreshReturning(a.funcs)
	// fixed point over summaries (net effects and internal acquisitions)
	for round := 0; round < 8; round++ {
		changed := false
		for _, f := range a.funcs {
			if a.analyse(f) {
				changed = true
			}
		}
		if !changed {
			break
		}
	}
	return a
}

// calleesOf resolves the possible callees of a call inside the analysed packages (static, or CHA over package types for
// interface calls).
func (a *lockAnalysis) calleesOf(c ssa.CallInstruction) []*ssa.Function {
	cc := c.Common()
	if sc := cc.StaticCallee(); sc != nil {
		if a.inSet[sc] {
			return []*ssa.Function{sc}
		}
		if o := sc.Origin(); o != nil && a.inSet[o] {
			return []*ssa.Function{o}
		}
		return nil
	}
	if !cc.IsInvoke() {
		return nil
	}
	iface, ok := cc.Value.Type().Underlying().(*types.Interface)
	if !ok {
		return nil
	}
	key := cc.Value.Type().String() + "." + cc.Method.Name()
	if r, ok := a.impls[key]; ok {
		return r
	}
	var out []*ssa.Function
	seen := map[*ssa.Function]bool{}
	for _, p := range a.pkgs {
		pk := a.c.pkg(p)
		if pk == nil {
			continue
		}
		sc := pk.Types.Scope()
		for _, nm := range sc.Names() {
			tn, ok := sc.Lookup(nm).(*types.TypeName)
			if !ok {
				continue
			}
			for _, t := range []types.Type{tn.Type(), types.NewPointer(tn.Type())} {
				if _, isI := t.Underlying().(*types.Interface); isI {
					continue
				}
				if !types.Implements(t, iface) {
					continue
				}
				sel := a.c.Prog.MethodSets.MethodSet(t).Lookup(cc.Method.Pkg(), cc.Method.Name())
				if sel == nil {
					continue
				}
				if f := a.c.Prog.MethodValue(sel); f != nil {
					// promoted methods are synthetic wrappers: unwrap to the declared method
					if f.Synthetic != "" {
						if obj, ok := sel.Obj().(*types.Func); ok {
							if d := a.c.Prog.FuncValue(obj); d != nil {
								f = d
							}
						}
					}
					if a.inSet[f] && !seen[f] {
						seen[f] = true
						out = append(out, f)
					}
				}
			}
		}
	}
	a.impls[key] = out
	return out
}

// opsOf returns the lock operations performed by instruction in (directly or through summarised callees).
func (a *lockAnalysis) opsOf(in ssa.Instruction) []lockOp {
	c, ok := in.(ssa.CallInstruction)
	if !ok {
		return nil
	}
	if _, isGo := in.(*ssa.Go); isGo {
		return nil
	}
	_, isDefer := in.(*ssa.Defer)
	cc := c.Common()
	if sc := cc.StaticCallee(); sc != nil && sc.Signature.Recv() != nil && len(cc.Args) > 0 {
		if _, isM := isMutexType(derefType(sc.Signature.Recv().Type())); isM {
			var op lockOp
			switch nm(sc) {
			case "Lock":
				op = lockOp{acquire: true, mode: modeW}
			case "RLock":
				op = lockOp{acquire: true, mode: modeR}
			case "Unlock":
				op = lockOp{acquire: false, mode: modeW}
			case "RUnlock":
				op = lockOp{acquire: false, mode: modeR}
			default:
				return nil
			}
			addr := cc.Args[0]
			op.key = objKeyOf(addr)
			op.field = "mu"
			if fa, ok := addr.(*ssa.FieldAddr); ok {
				op.field = fieldName(fa.X.Type(), fa.Field)
			}
			op.class = lockClassOf(addr)
			op.defer_ = isDefer
			return []lockOp{op}
		}
	}
	// summarised callees
	callees := a.calleesOf(c)
	if len(callees) == 0 {
		return nil
	}
	var out []lockOp
	// use the first callee's net effect; all resolved callees must agree (checked by the pairing rule)
	s := a.sums[callees[0]]
	args := cc.Args
	if cc.IsInvoke() {
		args = append([]ssa.Value{cc.Value}, cc.Args...)
	}
	tr := func(sl sumLock, acquire bool) (lockOp, bool) {
		if sl.param < 0 || sl.param >= len(args) {
			return lockOp{}, false
		}
		k := objKeyOf(args[sl.param])
		k.s += sl.chain
		k.chain += sl.chain
		return lockOp{acquire: acquire, mode: sl.mode, key: k, field: sl.field, class: sl.class, defer_: isDefer, via: callees[0]}, true
	}
	for _, sl := range s.netAcquire {
		if op, ok := tr(sl, true); ok {
			out = append(out, op)
		}
	}
	for _, sl := range s.netRelease {
		if op, ok := tr(sl, false); ok {
			out = append(out, op)
		}
	}
	return out
}

func derefType(t types.Type) types.Type {
	if p, ok := t.(*types.Pointer); ok {
		return p.Elem()
	}
	return t
}

func (a *lockAnalysis) apply(st *lstate, in ssa.Instruction) {
	for _, op := range a.opsOf(in) {
		k := lkey{a.canon(in.Parent(), op.key.s), op.field}
		if op.defer_ {
			if !op.acquire {
				st.dfr[k] = op.mode
				st.dfrM[k] = op.mode
			}
			continue
		}
		if op.acquire {
			h := held{mode: op.mode, site: in, class: op.class, key: op.key}
			st.must[k] = h
			st.may[k] = h
		} else {
			delete(st.must, k)
			delete(st.may, k)
		}
	}
	if _, ok := in.(*ssa.RunDefers); ok {
		for k := range st.dfrM {
			delete(st.must, k)
			delete(st.may, k)
		}
	}
}

// canon applies the alias assumption of the current case split (key -> representative).
func (a *lockAnalysis) canon(f *ssa.Function, s string) string {
	if m := a.assumeEq[f]; m != nil {
		for from, to := range m {
			if s == from {
				return to
			}
			if strings.HasPrefix(s, from+".") {
				return to + s[len(from):]
			}
		}
	}
	return s
}

// analyse runs the intraprocedural dataflow on f and recomputes its summary; reports whether the summary changed.
func (a *lockAnalysis) analyse(f *ssa.Function) bool {
	in := map[*ssa.BasicBlock]*lstate{}
	in[f.Blocks[0]] = newState()
	work := []*ssa.BasicBlock{f.Blocks[0]}
	inWork := map[*ssa.BasicBlock]bool{f.Blocks[0]: true}
	for iter := 0; len(work) > 0 && iter < 5000; iter++ {
		b := work[0]
		work = work[1:]
		inWork[b] = false
		st := in[b].clone()
		for _, instr := range b.Instrs {
			a.apply(st, instr)
		}
		succs := b.Succs
		if v := a.cur[f]; v.pred != nil {
			if iff, ok := b.Instrs[len(b.Instrs)-1].(*ssa.If); ok {
				cv, truth := normCond(iff.Cond, true)
				if cv == ssa.Value(v.pred) {
					condTrue := (v.pred.Op == token.EQL) == v.equal
					if !truth {
						condTrue = !condTrue
					}
					if condTrue {
						succs = b.Succs[:1]
					} else {
						succs = b.Succs[1:2]
					}
				}
			}
		}
		for _, s := range succs {
			if f.Recover != nil && s == f.Recover {
				continue
			}
			var ns *lstate
			if old, ok := in[s]; ok {
				ns = meet(old, st)
				if ns.equal(old) {
					continue
				}
			} else {
				ns = st.clone()
			}
			in[s] = ns
			if !inWork[s] {
				work = append(work, s)
				inWork[s] = true
			}
		}
	}
	a.blockIn[f] = in
	// summary
	old := a.sums[f]
	ns := &lockSummary{requires: old.requires}
	first := true
	var exitMust map[lkey]held
	for _, b := range f.Blocks {
		st0, ok := in[b]
		if !ok {
			continue
		}
		if _, isRet := b.Instrs[len(b.Instrs)-1].(*ssa.Return); !isRet {
			continue
		}
		st := st0.clone()
		for _, instr := range b.Instrs {
			a.apply(st, instr)
		}
		if first {
			exitMust = st.must
			first = false
		} else {
			for k := range exitMust {
				if _, ok := st.must[k]; !ok {
					delete(exitMust, k)
				}
			}
		}
	}
	for _, h := range exitMust {
		if h.key.param >= 0 {
			ns.netAcquire = append(ns.netAcquire, sumLock{param: h.key.param, chain: h.key.chain, field: lockField(h), mode: h.mode, class: h.class, site: h.site, fn: f})
		}
	}
	// net releases and internal acquisitions
	seenAcq := map[string]bool{}
	a.visit(f, func(instr ssa.Instruction, st *lstate) {
		for _, op := range a.opsOf(instr) {
			if op.defer_ {
				continue
			}
			k := lkey{a.canon(f, op.key.s), op.field}
			if op.acquire {
				if op.key.param >= 0 {
					sl := sumLock{param: op.key.param, chain: op.key.chain, field: op.field, mode: op.mode, class: op.class, site: instr, fn: f}
					if !seenAcq[sl.id()] {
						seenAcq[sl.id()] = true
						ns.acquires = append(ns.acquires, sl)
					}
				}
			} else if _, isHeld := st.may[k]; !isHeld && op.key.param >= 0 {
				if _, isDfr := st.dfrM[k]; !isDfr {
					ns.netRelease = append(ns.netRelease, sumLock{param: op.key.param, chain: op.key.chain, field: op.field, mode: op.mode, class: op.class, site: instr, fn: f})
				}
			}
		}
		// transitive acquisitions through callees
		if c, ok := instr.(ssa.CallInstruction); ok {
			args := c.Common().Args
			if c.Common().IsInvoke() {
				args = append([]ssa.Value{c.Common().Value}, args...)
			}
			for _, callee := range a.calleesOf(c) {
				for _, sl := range a.sums[callee].acquires {
					if sl.param >= len(args) {
						continue
					}
					k := objKeyOf(args[sl.param])
					if k.param < 0 {
						continue
					}
					n := sumLock{param: k.param, chain: k.chain + sl.chain, field: sl.field, mode: sl.mode, class: sl.class, site: sl.site, fn: sl.fn}
					if !seenAcq[n.id()] {
						seenAcq[n.id()] = true
						ns.acquires = append(ns.acquires, n)
					}
				}
			}
		}
	})
	sortSum(ns.netAcquire)
	sortSum(ns.netRelease)
	sortSum(ns.acquires)
	changed := sumID(ns.netAcquire) != sumID(old.netAcquire) || sumID(ns.netRelease) != sumID(old.netRelease) || sumID(ns.acquires) != sumID(old.acquires)
	a.sums[f] = ns
	return changed
}

func lockField(h held) string {
	if i := strings.LastIndex(h.class, "."); i >= 0 {
		return h.class[i+1:]
	}
	return "mu"
}

func sortSum(s []sumLock) { sort.Slice(s, func(i, j int) bool { return s[i].id() < s[j].id() }) }
func sumID(s []sumLock) string {
	var p []string
	for _, x := range s {
		p = append(p, x.id())
	}
	return strings.Join(p, ",")
}

// visit replays the dataflow and calls fn with the state holding immediately BEFORE each instruction.
func (a *lockAnalysis) visit(f *ssa.Function, fn func(in ssa.Instruction, st *lstate)) {
	in := a.blockIn[f]
	for _, b := range f.Blocks {
		st0, ok := in[b]
		if !ok {
			continue // unreachable
		}
		st := st0.clone()
		for _, instr := range b.Instrs {
			fn(instr, st)
			a.apply(st, instr)
		}
	}
}

// stateBefore returns the state immediately before instruction `at`.
func (a *lockAnalysis) stateBefore(at ssa.Instruction) *lstate {
	f := at.Parent()
	st0, ok := a.blockIn[f][at.Block()]
	if !ok {
		return nil // unreachable (in the current variant)
	}
	st := st0.clone()
	for _, instr := range at.Block().Instrs {
		if instr == at {
			return st
		}
		a.apply(st, instr)
	}
	return st
}

// isEntryPoint: exported function, or exported method of an exported type.
func isEntryPoint(f *ssa.Function) bool {
	if f.Parent() != nil {
		return false
	}
	if !token.IsExported(f.Name()) {
		return false
	}
	if recv := f.Signature.Recv(); recv != nil {
		n := namedOf(recv.Type())
		return n != nil && n.Obj().Exported()
	}
	return true
}

// ---- pretty names (stable across unrelated edits): source identifiers from go/ssa debug info ----

// valueName returns the source identifier a value is bound to (needs ssa.GlobalDebug), or "".
func valueName(v ssa.Value) string {
	if v == nil {
		return ""
	}
	switch x := v.(type) {
	case *ssa.Parameter:
		return x.Name()
	case *ssa.FreeVar:
		return x.Name()
	case *ssa.Global:
		return x.Name()
	case *ssa.Alloc:
		if x.Comment != "" && !strings.Contains(x.Comment, " ") {
			return x.Comment
		}
	}
	best := ""
	for _, r := range referrersOf(v) {
		if d, ok := r.(*ssa.DebugRef); ok && !d.IsAddr {
			if id, ok := d.Expr.(*ast.Ident); ok {
				if best == "" || d.Pos() < 0 {
					best = id.Name
				}
				if obj := d.Object(); obj != nil && obj.Pos() == id.Pos() {
					return id.Name // the defining occurrence
				}
			}
		}
	}
	return best
}

// prettyKey renders an object key with source names.
func prettyKey(k okey) string {
	return prettyVal(k.root, 0) + prettyChain(k)
}

func prettyChain(k okey) string {
	if k.param >= 0 {
		return strings.ReplaceAll(k.chain, "*", "")
	}
	return ""
}

func prettyVal(v ssa.Value, depth int) string {
	if v == nil || depth > 6 {
		return "?"
	}
	if n := valueName(v); n != "" {
		return n
	}
	switch x := v.(type) {
	case *ssa.Extract:
		if c, ok := x.Tuple.(*ssa.Call); ok {
			if fn := calleeFunc(c); fn != nil {
				return fmt.Sprintf("%s()#%d", fn.Name(), x.Index)
			}
		}
		return prettyVal(x.Tuple, depth+1)
	case *ssa.TypeAssert:
		return prettyVal(x.X, depth+1)
	case *ssa.ChangeInterface:
		return prettyVal(x.X, depth+1)
	case *ssa.MakeInterface:
		return prettyVal(x.X, depth+1)
	case *ssa.Lookup:
		return prettyVal(x.X, depth+1) + "[" + prettyVal(x.Index, depth+1) + "]"
	case *ssa.UnOp:
		if x.Op == token.MUL {
			if fa, ok := x.X.(*ssa.FieldAddr); ok {
				return prettyVal(fa.X, depth+1) + "." + fieldName(fa.X.Type(), fa.Field)
			}
			if al, ok := x.X.(*ssa.Alloc); ok {
				if al.Comment != "" {
					return al.Comment
				}
			}
			return prettyVal(x.X, depth+1)
		}
	case *ssa.FieldAddr:
		return prettyVal(x.X, depth+1)
	case *ssa.Call:
		if fn := calleeFunc(x); fn != nil {
			return fn.Name() + "()"
		}
	case *ssa.Phi:
		if x.Comment != "" {
			return x.Comment
		}
		var parts []string
		seen := map[string]bool{}
		for _, e := range x.Edges {
			p := prettyVal(e, depth+1)
			if !seen[p] {
				seen[p] = true
				parts = append(parts, p)
			}
		}
		sort.Strings(parts)
		return strings.Join(parts, "|")
	case *ssa.Const:
		return x.String()
	case *ssa.Alloc:
		return "new(" + typeStr(derefType(x.Type())) + ")"
	}
	return "value"
}

// variantsOf lists the cases of the alias case split of f (one "no assumption" case when f compares no lock-bearing
// objects).
func (a *lockAnalysis) variantsOf(f *ssa.Function) []variant {
	var pred *ssa.BinOp
	var cands []*ssa.BinOp
	defer func() { _ = cands }()
	eachInstr(f, func(in ssa.Instruction) {
		b, ok := in.(*ssa.BinOp)
		if !ok || (b.Op != token.EQL && b.Op != token.NEQ) {
			return
		}
		if isNilConst(b.X) || isNilConst(b.Y) {
			return
		}
		nx, ny := namedOf(b.X.Type()), namedOf(b.Y.Type())
		if nx == nil || nx != ny {
			return
		}
		if _, isPtr := b.X.Type().(*types.Pointer); !isPtr {
			return
		}
		if len(mutexFieldsOf(nx)) == 0 {
			return
		}
		cands = append(cands, b)
	})
	// the comparison that matters is the one that decides whether a lock is taken (`if a != b { b.mu.Lock() }`);
	// a comparison that only decides a return (same node under two names) is not a locking decision
	for _, b := range cands {
		for _, u := range referrersOf(b) {
			iff, ok := u.(*ssa.If)
			if !ok || pred != nil {
				continue
			}
			kx, ky := objKeyOf(b.X).s, objKeyOf(b.Y).s
			for _, sb := range iff.Block().Succs {
				for _, in := range sb.Instrs {
					for _, op := range a.opsOf(in) {
						// the lock taken in the branch is the lock of one of the two objects compared
						if op.key.s == kx || op.key.s == ky {
							pred = b
						}
					}
				}
			}
		}
	}
	if pred == nil && len(cands) > 0 {
		pred = cands[0]
	}
	if pred == nil {
		return []variant{{}}
	}
	return []variant{{pred, false}, {pred, true}}
}

// selectVariant re-runs the dataflow of f under the assumptions of v.
func (a *lockAnalysis) selectVariant(f *ssa.Function, v variant) {
	if a.cur[f] == v {
		return
	}
	a.cur[f] = v
	delete(a.assumeEq, f)
	if v.pred != nil && v.equal {
		a.assumeEq[f] = map[string]string{objKeyOf(v.pred.Y).s: objKeyOf(v.pred.X).s}
	}
	saved := a.sums[f]
	a.analyse(f)
	a.sums[f].requires = saved.requires
}

func (v variant) String() string {
	if v.pred == nil {
		return ""
	}
	if v.equal {
		return " [case " + prettyVal(v.pred.X, 0) + " == " + prettyVal(v.pred.Y, 0) + "]"
	}
	return " [case " + prettyVal(v.pred.X, 0) + " != " + prettyVal(v.pred.Y, 0) + "]"
}
