package main

import (
	"encoding/json"
	"fmt"
	"os"
	"os/exec"
	"path/filepath"
	"sort"
	"strings"
	"sync"
)

// seededSelfTest (thorough tier): every seeded variant under /verif/seeded/*/ whose meta.json names this property is
// applied to a scratch copy of /repo's working tree and the property's rules are run on the copy (statically — the
// variant is never executed). The outcome is evidence only: it cannot change the verdict on /repo.
func seededSelfTest(prop, repo, verif string) any {
	type res struct {
		Seed     string   `json:"seed"`
		Outcome  string   `json:"outcome"` // detected | missed | skipped
		Findings []string `json:"new_findings,omitempty"`
		Note     string   `json:"note,omitempty"`
	}
	var out []res
	var mu sync.Mutex
	var wg sync.WaitGroup
	sem := make(chan struct{}, 8) // variants analysed concurrently (each is a separate process of ~1 GB)
	add := func(r res) {
		mu.Lock()
		out = append(out, r)
		mu.Unlock()
	}
	metas, _ := filepath.Glob(filepath.Join(verif, "seeded", "*", "meta.json"))
	sort.Strings(metas)
	self, err := os.Executable()
	if err != nil {
		return []res{{Seed: "*", Outcome: "skipped", Note: err.Error()}}
	}
	// baseline findings on the tree itself
	base := map[string]bool{}
	if b, err := exec.Command(self, "-selftest-variant", "-property", prop, "-repo", repo, "-verif", verif).Output(); err == nil {
		var obs []*Ob
		if json.Unmarshal(lastLine(b), &obs) == nil {
			for _, o := range obs {
				base[o.Rule+"|"+o.Construct] = true
			}
		}
	}
	for _, m := range metas {
		b, err := os.ReadFile(m)
		if err != nil {
			continue
		}
		var meta struct {
			Property   string   `json:"property"`
			Properties []string `json:"also_breaks"`
			ExpectedBy []string `json:"expected_detected_by"`
		}
		if json.Unmarshal(b, &meta) != nil {
			continue
		}
		rel := false
		for _, p := range meta.ExpectedBy {
			if p == prop {
				rel = true
			}
		}
		if !rel {
			continue
		}
		dir := filepath.Dir(m)
		name := filepath.Base(dir)
		if _, err := os.Stat(filepath.Join(dir, "patch.diff")); err != nil {
			continue // retired seed (kept for the record only)
		}
		tmp, err := os.MkdirTemp("", "avfslint-seed-")
		if err != nil {
			add(res{Seed: name, Outcome: "skipped", Note: err.Error()})
			continue
		}
		wg.Add(1)
		sem <- struct{}{}
		go func() {
			defer wg.Done()
			defer func() { <-sem }()
			defer os.RemoveAll(tmp)
			cp := exec.Command("rsync", "-a", "--exclude", ".git", repo+"/", tmp+"/")
			if o, err := cp.CombinedOutput(); err != nil {
				add(res{Seed: name, Outcome: "skipped", Note: "copy failed: " + string(o)})
				return
			}
			ap := exec.Command("git", "apply", "--whitespace=nowarn", filepath.Join(dir, "patch.diff"))
			ap.Dir = tmp
			if o, err := ap.CombinedOutput(); err != nil {
				add(res{Seed: name, Outcome: "skipped", Note: "patch does not apply to the current tree: " + firstLines(string(o), 2)})
				return
			}
			cmd := exec.Command(self, "-selftest-variant", "-property", prop, "-repo", tmp, "-verif", verif)
			o, err := cmd.Output()
			var obs []*Ob
			if err != nil || json.Unmarshal(lastLine(o), &obs) != nil {
				// load failure etc. count as detection (the tool refuses to pass)
				if strings.Contains(string(o), "VIOLATION") {
					add(res{Seed: name, Outcome: "detected", Note: "analysis refused the tree: " + firstLines(string(o), 2)})
				} else {
					add(res{Seed: name, Outcome: "skipped", Note: fmt.Sprintf("analysis failed: %v", err)})
				}
				return
			}
			var nf []string
			for _, ob := range obs {
				if !base[ob.Rule+"|"+ob.Construct] {
					nf = append(nf, ob.Rule+" "+ob.Construct)
				}
			}
			if len(nf) > 0 {
				add(res{Seed: name, Outcome: "detected", Findings: nf})
			} else {
				add(res{Seed: name, Outcome: "missed"})
			}
		}()
	}
	wg.Wait()
	sort.Slice(out, func(i, j int) bool { return out[i].Seed < out[j].Seed })
	return out
}

func lastLine(b []byte) []byte {
	s := strings.TrimRight(string(b), "\n")
	if i := strings.LastIndex(s, "\n"); i >= 0 {
		s = s[i+1:]
	}
	return []byte(s)
}
